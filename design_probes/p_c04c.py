import itertools, collections, time
import urwid, wcwidth
from urwid.display import raw
from urwid.canvas import TextCanvas
from urwid.util import apply_target_encoding
from urwid.display.common import AttrSpec
from vtref import Term, DEC
urwid.set_encoding("iso-8859-1")
class Out:
    def __init__(self): self.buf=[]
    def write(self,s): self.buf.append(s)
    def flush(self): pass
    def take(self): r="".join(self.buf); self.buf.clear(); return r
class In: pass
COLS,ROWS=3,2
cellkinds=[(" ",None),("a",None),("b","x"),("┌",None),("─","x"),(" ","x"),("é","so")]
def mkrow(combo):
    text=b""; attrs=[]; cs=[]
    for k in combo:
        ch,a=cellkinds[k]; b,c=apply_target_encoding(ch)
        text+=b; attrs.append((a,len(b))); cs+=c
    def rle(l):
        o=[]
        for x,n in l:
            if o and o[-1][0]==x: o[-1]=(x,o[-1][1]+n)
            else: o.append((x,n))
        return o
    return text,rle(attrs),rle(cs)
RA=list(itertools.product(range(len(cellkinds)),repeat=COLS))
def frame(i,j,cur):
    r=[mkrow(RA[i]),mkrow(RA[j])]
    return TextCanvas([x[0] for x in r],[x[1] for x in r],[x[2] for x in r],cur,maxcol=COLS)
def expected_key(scr,a):
    spec=scr._pal_attrspec.get(a); 
    if spec is None: spec=AttrSpec("default","default")
    def col(basic,high,num):
        if high: return ("i",num)
        if basic: return ("i",num)
        return None
    return (col(spec.foreground_basic,spec.foreground_high,spec.foreground_number),col(spec.background_basic,spec.background_high,spec.background_number),spec.bold,spec.italics,spec.underline,spec.blink,spec.standout,spec.strikethrough)
def cells_of(scr,canv):
    rows=[]
    for row in canv.content():
        cells=[]
        for a,cs,t in row:
            k=expected_key(scr,a)
            for ch in t.decode("iso-8859-1"):
                if cs=="0": ch=DEC.get(ch,ch)
                cells.append((ch,)+k)
        rows.append(cells)
    return rows
def veq(tc,ec):
    if tc[0]!=ec[0]: return False
    if ec[0]==" ": return tc[2]==ec[2] and tc[7]==ec[7] and tc[5]==ec[5] and (not ec[7] or tc[1]==ec[1])
    return tc[1:]==ec[1:]
res=collections.Counter(); ex={}
def run(bce,seq):
    out=Out(); scr=raw.Screen(input=In(),output=out)
    scr.signal_init=lambda:None; scr.signal_restore=lambda:None
    scr.fg_bright_is_bold=False; scr.bg_bright_is_blink=False; scr.back_color_erase=bce; scr.term="xterm"
    scr.register_palette([("x","light red","dark blue"),("so","yellow,standout","default")])
    scr.start(); term=Term(COLS,ROWS); term.feed(out.take())
    for step,fi in enumerate(seq):
        c=frame(*fi); scr.draw_screen((COLS,ROWS),c); data=out.take(); term.feed(data); exp=cells_of(scr,c); bad=None
        if term.unknown: bad=("unknown",str(term.unknown[:2]))
        elif term.scrolls: bad=("scrolled",)
        else:
            for y in range(ROWS):
                for x in range(COLS):
                    if not veq(term.g[y][x],exp[y][x]): bad=("cell",x,y); break
                if bad: break
            if not bad and term.insert: bad=("insert-on",)
            if not bad and term.shift: pass
        if bad:
            k=(bce,)+bad[:1]; res[k]+=1; ex.setdefault(k,(seq[:step+1],data,[[c_[0] for c_ in r] for r in term.g],[[c_[0] for c_ in r] for r in exp])); return
sel=list(range(0,len(RA),9))
frames=[(a,b,cur) for a in sel for b in sel for cur in (None,(COLS-1,ROWS-1))]
n=0;t0=time.time()
for bce in (True,False):
    for f1 in frames[::3]:
        for f2 in frames[::5]:
            run(bce,[f1,f2]); n+=1
print(n,"pairs %.1fs"%(time.time()-t0))
for k,v in sorted(res.items(), key=lambda x:-x[1])[:10]: print(v,k,ex[k])
