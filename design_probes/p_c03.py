import itertools, collections, wcwidth
import urwid
from urwid.text_layout import default_layout, LayoutSegment
urwid.set_encoding("utf-8")
def cw(c): return max(wcwidth.wcwidth(c),0)
def W(s): return sum(cw(c) for c in s)
alpha=["a","b"," ","\n","你","́"]
res=collections.Counter(); ex={}
def V(k,e): res[k]+=1; ex.setdefault(k,e)
n=0
for L in range(0,6):
    for tup in itertools.product(alpha,repeat=L):
        text="".join(tup)
        for width in (1,2,3,4):
            for wrap in ("any","space","clip","ellipsis"):
                for align in ("left","center","right"):
                    n+=1
                    try: lay=default_layout.layout(text,width,align,wrap)
                    except Exception as e: V((wrap,"raise",type(e).__name__),(text,width,align)); continue
                    shown=[]; last=0; bad=None
                    for line in lay:
                        lw=0; pad=0
                        for i,seg in enumerate(line):
                            class S: pass
                            s=S(); s.sc=seg[0]; s.offs=seg[1]; s.end=None; s.text=None
                            if len(seg)==3:
                                if isinstance(seg[2],bytes): s.text=seg[2]
                                else: s.end=seg[2]
                                if s.sc<=0: bad="nonpositive-seg"
                            if s.end is not None:
                                if s.offs<last: bad="order/dup"
                                if W(text[s.offs:s.end])!=s.sc: bad="seg-width"
                                last=s.end; shown.append((s.offs,s.end)); lw+=s.sc
                            elif s.text is not None: lw+=s.sc
                            elif s.offs is None:
                                if i!=0: bad="pad-not-first"
                                pad=s.sc; lw+=s.sc
                            else: lw+=s.sc
                        if lw>width: bad="line-too-wide %d>%d"%(lw,width)
                        if pad:
                            spare=width-(lw-pad)
                            want={"left":0,"center":(spare+1)//2,"right":spare}[align]
                            if pad!=want: bad="align-pad"
                    if bad: V((wrap,bad.split(" ")[0]),(text,width,align,lay)); continue
                    # hidden chars
                    vis=set()
                    for a,b in shown: vis.update(range(a,b))
                    hidden=[i for i in range(len(text)) if i not in vis]
                    if lay==[[]]: 
                        if not any(cw(c)==2 for c in text) : V((wrap,"empty-no-wide"),(text,width))
                        continue
                    for i in hidden:
                        c=text[i]
                        if c=="\n" or c==" " or cw(c)==0: continue
                        if wrap in ("clip","ellipsis"): continue
                        V((wrap,"char-lost"),(text,width,align,i,lay)); break
                    # rows
                    t=urwid.Text(text,align,wrap)
                    try:
                        r=t.rows((width,)); c=t.render((width,))
                        if r!=c.rows() or r!=len(lay): V((wrap,"rows"),(text,width))
                    except Exception as e: V((wrap,"render-raise",type(e).__name__),(text,width,align,str(e)[:60]))
print(n)
for k,v in sorted(res.items(), key=lambda x:-x[1]): print(v,k,ex[k])
