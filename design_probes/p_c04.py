import itertools, collections, time, sys
import urwid, wcwidth
from urwid.display import raw
from urwid.canvas import TextCanvas
from urwid.display.common import AttrSpec
from vtref import Term
urwid.set_encoding("utf-8")
class Out:
    def __init__(self): self.buf=[]
    def write(self,s): self.buf.append(s)
    def flush(self): pass
    def take(self): r="".join(self.buf); self.buf.clear(); return r
class In: pass
def expected_key(scr, a):
    spec = scr._pal_attrspec.get(a, a if isinstance(a,AttrSpec) else None)
    if spec is None: spec=AttrSpec("default","default")
    def col(basic,high,true,num,bright_bold,is_fg):
        if true: return ("rgb",(num>>16)&255,(num>>8)&255,num&255), False
        if high: return ("i",num), False
        if basic:
            if num>7 and is_fg and bright_bold: return ("i",num-8), True
            return ("i",num), False
        return None, False
    fg,b1=col(spec.foreground_basic,spec.foreground_high,spec.foreground_true,spec.foreground_number,scr.fg_bright_is_bold,True)
    bg,_=col(spec.background_basic,spec.background_high,spec.background_true,spec.background_number,False,False)
    return (fg,bg,spec.bold or b1,spec.italics,spec.underline,spec.blink,spec.standout,spec.strikethrough)
def cells_of(scr,canv):
    rows=[]
    for row in canv.content():
        cells=[]
        for a,cs,t in row:
            k=expected_key(scr,a)
            for ch in t.decode("utf-8"):
                w=max(wcwidth.wcwidth(ch),0)
                if w==0: continue
                if cs=="0":
                    from vtref import DEC
                    ch=DEC.get(ch,ch)
                cells.append((ch,)+k)
                if w==2: cells.append(("",)+k)
        rows.append(cells)
    return rows
def visible_eq(tc, ec):
    if tc[0]!=ec[0]: return False
    if ec[0]==" ":
        # blank: compare bg, reverse(+fg), underline
        return (tc[2],tc[7-0],tc[5]) == (ec[2],ec[7-0],ec[5]) if False else (tc[2]==ec[2] and tc[7]==ec[7] and tc[5]==ec[5] and (not ec[7] or tc[1]==ec[1]))
    return tc[1:]==ec[1:]
COLS,ROWS=3,2
cellkinds=[(" ",None),("a",None),("b","x"),("你","x"),("┌",None),(" ","x"),("c","so")]
def rows_alphabet():
    out=[]
    for combo in itertools.product(range(len(cellkinds)),repeat=COLS):
        text=[];attrs=[];w=0
        for k in combo:
            ch,a=cellkinds[k]; cw=wcwidth.wcwidth(ch)
            if w+cw>COLS: break
            text.append(ch); attrs.append((a,len(ch.encode()))) ; w+=cw
        if w==COLS: out.append((tuple(text),tuple(attrs)))
    return sorted(set(out), key=repr)
RA=rows_alphabet()
print("row alphabet",len(RA))
def frame(r0,r1,cursor):
    rows=[RA[r0],RA[r1]]
    t=["".join(r[0]).encode() for r in rows]
    a=[[(x,n) for x,n in r[1]] for r in rows]
    # merge runs
    def rle(l):
        o=[]
        for x,n in l:
            if o and o[-1][0]==x: o[-1]=(x,o[-1][1]+n)
            else: o.append((x,n))
        return o
    return TextCanvas(t,[rle(x) for x in a],None,cursor,maxcol=COLS)
res=collections.Counter(); ex={}
def run(bce, colors, frames_idx):
    out=Out(); scr=raw.Screen(input=In(),output=out)
    scr.signal_init=lambda:None; scr.signal_restore=lambda:None
    scr.fg_bright_is_bold=False; scr.bg_bright_is_blink=False; scr.back_color_erase=bce; scr.term="xterm"
    scr.set_terminal_properties(colors=colors)
    scr.register_palette([("x","light red","dark blue"),("so","yellow,standout","default")])
    scr.start(); term=Term(COLS,ROWS); term.feed(out.take())
    for step,fi in enumerate(frames_idx):
        c=frame(*fi)
        scr.draw_screen((COLS,ROWS),c)
        data=out.take(); term.feed(data)
        exp=cells_of(scr,c)
        bad=None
        if term.unknown: bad=("unknown-seq",str(term.unknown[:2]))
        elif term.scrolls: bad=("scrolled",)
        else:
            for y in range(ROWS):
                for x in range(COLS):
                    if not visible_eq(term.g[y][x],exp[y][x]): bad=("cell",); break
                if bad: break
            if not bad:
                if c.cursor is None and term.cursor_visible: bad=("cursor-visible",)
                elif c.cursor is not None and (not term.cursor_visible or (term.x,term.y)!=c.cursor): bad=("cursor-pos",)
            if not bad and term.insert: bad=("insert-left-on",)
        if bad:
            k=(bce,colors)+bad; res[k]+=1; ex.setdefault(k,(frames_idx[:step+1],data,[["%s"%(c_[0],) for c_ in r] for r in term.g],[[c_[0] for c_ in r] for r in exp])); return
n=0;t0=time.time()
sel=list(range(0,len(RA),max(1,len(RA)//14)))
frames=[(a,b,cur) for a in sel for b in sel for cur in (None,(0,0),(COLS-1,ROWS-1))]
print("frames",len(frames))
import random
for bce in (True,False):
    for colors in (16,256):
        for f1 in frames[::5]:
            for f2 in frames[::7]:
                run(bce,colors,[f1,f2]); n+=1
print(n,"pairs %.1fs"%(time.time()-t0))
for k,v in sorted(res.items(), key=lambda x:-x[1])[:20]: print(v,k,ex[k])
