import itertools, collections, traceback
import urwid
from urwid.display import escape, raw
from urwid import str_util
class In: pass
class Out:
    def write(s,x): pass
    def flush(s): pass
class FakeLoop:
    def __init__(s): s.alarms={}; s.n=0
    def alarm(s,sec,cb): s.n+=1; s.alarms[s.n]=cb; return s.n
    def remove_alarm(s,h): return s.alarms.pop(h,None) is not None
def decode_chunks(chunks, fire_after=()):
    scr=raw.Screen(input=In(),output=Out()); loop=FakeLoop(); out=[]; raws=[]
    cb=lambda keys,raw_: (out.extend(keys), raws.extend(raw_))
    for i,ch in enumerate(chunks):
        codes=[*scr._partial_codes, *ch]; scr._partial_codes=[]
        scr.parse_input(loop,cb,codes)
        if i in fire_after and loop.alarms:
            (h,f),=list(loop.alarms.items()); del loop.alarms[h]; f()
    # final timeout flush
    while loop.alarms:
        (h,f)=list(loop.alarms.items())[0]; del loop.alarms[h]; f()
    return out, raws
alpha=[0x1b, ord('['), ord('O'), ord('<'), ord('M'), ord('m'), ord(';'), ord('0'), ord('1'), ord('9'), ord('~'), ord('A'), ord('R'), ord('a'), 0x20, 0x80, 0xc3, 0xa9, 0xe4, 0xbd, 0xa0, 0xa1, 0x7f, 0x0d]
res=collections.Counter(); ex={}
for enc in ("utf8","wide","narrow"):
    str_util.set_byte_encoding(enc)
    for L in (1,2,3,4):
        for s in itertools.product(alpha, repeat=L):
            if L==4 and s[0]!=0x1b: continue
            try:
                whole,raw1=decode_chunks([list(s)])
            except Exception as e:
                tb=traceback.extract_tb(e.__traceback__); fr=[f for f in tb if "/repo/urwid" in f.filename][-1]
                k=(enc,"raise",type(e).__name__,fr.name); res[k]+=1; ex.setdefault(k,bytes(s)); continue
            if raw1!=list(s): k=(enc,"raw-mismatch"); res[k]+=1; ex.setdefault(k,(bytes(s),raw1))
            for cut in range(1,L):
                try: parts,raw2=decode_chunks([list(s[:cut]),list(s[cut:])])
                except Exception as e:
                    k=(enc,"raise-split",type(e).__name__); res[k]+=1; ex.setdefault(k,(bytes(s),cut)); continue
                if parts!=whole: k=(enc,"split-differs"); res[k]+=1; ex.setdefault(k,(bytes(s),cut,whole,parts))
for k,v in sorted(res.items(), key=lambda x:-x[1]): print(v,k,ex[k])
