import os, sys, termios, signal, time, warnings
warnings.simplefilter("ignore")
import urwid
from urwid.display import raw
class Out:
    def __init__(self): self.buf=[]
    def write(self,s): self.buf.append(s)
    def flush(self): pass
class Boom(Exception): pass
def make_loop(name):
    if name=="select": return urwid.SelectEventLoop(), None
    if name=="asyncio":
        import asyncio; l=asyncio.new_event_loop(); return urwid.AsyncioEventLoop(loop=l), l.close
    if name=="tornado":
        import asyncio
        from tornado.platform.asyncio import AsyncIOLoop
        l=asyncio.new_event_loop(); asyncio.set_event_loop(l)
        io=AsyncIOLoop(asyncio_loop=l)
        return urwid.TornadoEventLoop(io), lambda: io.close(all_fds=False)
    if name=="twisted":
        from twisted.internet.selectreactor import SelectReactor
        r=SelectReactor(); return urwid.TwistedEventLoop(reactor=r), None
    if name=="trio": return urwid.TrioEventLoop(), None
    if name=="zmq": return urwid.ZMQEventLoop(), None
def session(loopname, inject_at=None, exc=Boom):
    m,s=os.openpty(); inp=os.fdopen(s,'rb',buffering=0); out=Out()
    before=termios.tcgetattr(s)
    sigs_before={n:signal.getsignal(n) for n in (signal.SIGWINCH,signal.SIGTSTP,signal.SIGCONT)}
    scr=raw.Screen(input=inp, output=out)
    calls=[]; count=[0]
    def site(name):
        i=count[0]; count[0]+=1; calls.append(name)
        if inject_at==i: raise exc()
    class Probe(urwid.Edit):
        def keypress(self,size,key):
            site("keypress:"+key); return super().keypress(size,key)
        def render(self,size,focus=False):
            site("render"); return super().render(size,focus)
    w=urwid.Filler(Probe("x:"))
    def filt(keys,raw_): site("filter"); return keys
    def unh(k):
        site("unhandled:"+str(k))
        if k=="f8": raise urwid.ExitMainLoop
        return False
    evl,closer=make_loop(loopname)
    ml=urwid.MainLoop(w,screen=scr,input_filter=filt,unhandled_input=unh,event_loop=evl)
    script=[b"a", b"\x1b[15~", b"\x1b[19~"]
    def driver():
        if script: os.write(m, script.pop(0))
    evl.enter_idle(driver)
    def alarm_cb(loop,data): site("alarm")
    ml.set_alarm_in(0.001, alarm_cb)
    res="ok"
    signal.alarm(5)
    try: ml.run()
    except BaseException as e: res=type(e).__name__
    signal.alarm(0)
    after=termios.tcgetattr(s)
    sigs_after={n:signal.getsignal(n) for n in sigs_before}
    txt="".join(out.buf)
    ok=(before==after, sigs_before==sigs_after, scr.started, txt.endswith("\x1b[?1049l\x1b[?25h"))
    os.close(m); inp.close()
    if closer: closer()
    return res, calls, ok
def handler(*a): raise TimeoutError("watchdog")
signal.signal(signal.SIGALRM, handler)
ln=sys.argv[1]
t0=time.time(); r=session(ln); print(ln, r, "%.0fms"%((time.time()-t0)*1000))
n=len(r[1])
for k in range(n):
    rr=session(ln,k); print("  inject",k,r[1][k],"->",rr[0],rr[2], "" if rr[0]=="Boom" and rr[2]==(True,True,False,True) else "   <<<<")
rr=session(ln,n-1,urwid.ExitMainLoop); print("  exit at last:",rr[0],rr[2])
