import itertools, collections, gc, time, warnings
import urwid
from urwid.canvas import CanvasCache
warnings.simplefilter("ignore")
urwid.set_encoding("utf-8")
def fx1():
    t=urwid.Text("hello"); e=urwid.Edit("c:","ab"); cb=urwid.CheckBox("x")
    cols=urwid.Columns([cb, urwid.Text("zz")])
    walker=urwid.SimpleFocusListWalker([t,e,cols])
    lb=urwid.ListBox(walker)
    hdr=urwid.Text("H"); am=urwid.AttrMap(hdr,"a","b")
    fr=urwid.Frame(lb,header=am)
    ops={
     "set_text": lambda: t.set_text("hello world wrap"),
     "hdr_text": lambda: hdr.set_text("H2\nH3"),
     "attr": lambda: am.set_attr_map({None:"q"}),
     "cb": lambda: cb.set_state(not cb.state),
     "key_x": lambda: fr.keypress((8,4),"x"),
     "key_down": lambda: fr.keypress((8,4),"down"),
     "key_up": lambda: fr.keypress((8,4),"up"),
     "ins": lambda: walker.insert(0, urwid.Text("new")),
     "del": lambda: walker.pop(0) if len(walker)>1 else None,
     "focus_hdr": lambda: setattr(fr,"focus_position","header"),
     "focus_body": lambda: setattr(fr,"focus_position","body"),
     "edit_text": lambda: e.set_edit_text("q"),
     "align": lambda: t.set_align_mode("right"),
    }
    return fr, ops
def fx2():
    t1=urwid.Text("aa"); e=urwid.Edit("", "xy"); ph=urwid.WidgetPlaceholder(urwid.Text("P"))
    pad=urwid.Padding(t1,"center",("relative",50))
    lbx=urwid.LineBox(e,"T")
    btns=[urwid.Button("b%d"%i) for i in range(3)]
    gf=urwid.GridFlow(btns,6,1,0,"left")
    cols=urwid.Columns([t1, pad])
    pile=urwid.Pile([cols,lbx,gf,ph])
    top=urwid.Filler(pile,"top")
    ops={
     "t1": lambda: t1.set_text("aaaa bbbb"),
     "title": lambda: lbx.set_title("New"),
     "ph": lambda: setattr(ph,"original_widget",urwid.Text("Q\nR")),
     "padw": lambda: setattr(pad,"width",("relative",100)),
     "key_a": lambda: top.keypress((14,9),"a"),
     "key_down": lambda: top.keypress((14,9),"down"),
     "key_right": lambda: top.keypress((14,9),"right"),
     "btn_label": lambda: btns[1].set_label("LONG"),
     "gf_del": lambda: gf.contents.pop(0) if len(gf.contents)>1 else None,
     "pile_focus": lambda: setattr(pile,"focus_position",1),
     "cols_ins": lambda: cols.contents.insert(0,(urwid.Text("N"),cols.options("given",2))),
     "pile_del": lambda: pile.contents.pop(0) if len(pile.contents)>2 else None,
    }
    return top, ops
OBS=[((8,4),True),((8,4),False),((10,3),True)]
OBS2=[((14,9),True),((14,9),False),((10,6),True)]
def snapshot(c): return ([[(a,cs,bytes(t)) for a,cs,t in row] for row in c.content()], c.cursor)
def run(fx, obs, hist, nocache):
    CanvasCache.clear()
    root,ops=fx(); out=[]; held=[]
    for h in hist:
        if h[0]=="r":
            if nocache: CanvasCache.clear()
            size,focus=obs[h[1]]
            try:
                c=root.render(size,focus); held.append(c); out.append(snapshot(c))
            except Exception as e: out.append(("EXC",type(e).__name__,str(e)[:50]))
        elif h[0]=="release": held.clear(); gc.collect()
        else:
            try: ops[h[1]]()
            except Exception as e: out.append(("OPEXC",type(e).__name__))
    # immutability of handed-out
    return out
res=collections.Counter(); ex={}
n=0;t0=time.time()
for fx,obs in ((fx1,OBS),(fx2,OBS2)):
    _,ops=fx()
    alphabet=[("r",i) for i in range(len(obs))]+[("o",k) for k in ops]+[("release",)]
    for L in (1,2,3):
        for mid in itertools.product(alphabet,repeat=L):
            if not any(m[0]=="o" for m in mid): continue
            hist=[("r",0),("r",1)]+list(mid)+[("r",0),("r",1),("r",2)]
            a=run(fx,obs,hist,False); b=run(fx,obs,hist,True); n+=1
            if a!=b:
                i=next(i for i,(x,y) in enumerate(zip(a,b)) if x!=y)
                k=(fx.__name__, tuple(m[1] if len(m)>1 else m[0] for m in mid if m[0]!="r"))
                res[k]+=1; ex.setdefault(k,(mid,i,str(a[i])[:200],str(b[i])[:200]))
print(n,"histories %.1fs"%(time.time()-t0), "diff classes",len(res))
for k,v in sorted(res.items(), key=lambda x:-x[1])[:15]: print(v,k,ex[k])
