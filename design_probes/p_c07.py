import itertools, collections, traceback, warnings, time
import urwid
warnings.simplefilter("ignore")
urwid.set_encoding("utf-8")
W=4
def mk(kind, i):
    L=chr(ord('a')+i)
    if kind=="T1": return urwid.Text(L+"0")
    if kind=="T3": return urwid.Text("\n".join(L+str(k) for k in range(3)))
    if kind=="S1": return urwid.SelectableIcon(L+"0",0)
    if kind=="E2": return urwid.Edit("", L+"0\n"+L+"1", multiline=True)
    if kind=="E5": return urwid.Edit("", "\n".join(L+str(k) for k in range(5)), multiline=True)
    if kind=="Z0": return urwid.Pile([])
kinds=["T1","T3","S1","E2","E5","Z0"]
events=["up","down","page up","page down","home","end","x",("press",0),("press",1),("press",2),("wheel",4),("wheel",5),("focus",0),("focus",-1),("valign","top"),("valign","bottom"),("resize",),("del0",),("delf",),("ins0",),("app",)]
res=collections.Counter(); ex={}
def V(k,e): res[k]+=1; ex.setdefault(k,e)
def rows_of(canv): return [b"".join(t for a,cs,t in r) for r in canv.content()]
def check(lb, items_fn, size, hist):
    try:
        c=lb.render(size,True); rows=rows_of(c)
    except Exception as e:
        tb=traceback.extract_tb(e.__traceback__); fr=[f for f in tb if "/repo/urwid" in f.filename][-1]
        V(("render-raise",type(e).__name__,fr.name),hist); return False
    body=list(lb.body)
    if not body:
        if any(r.strip() for r in rows): V(("empty-not-blank",),hist)
        return True
    fpos=lb.focus_position
    concat=[]; owner=[]
    for i,w in enumerate(body):
        rr=rows_of(w.render((size[0],), i==fpos)) if w.rows((size[0],), i==fpos) else []
        concat+=rr; owner+=[i]*len(rr)
    h=size[1]
    # trailing blanks
    n=h
    blank=b" "*size[0]
    while n>0 and rows[n-1]==blank and (n>len(concat) or True):
        # only strip blanks not explained by content; try all n
        n-=1
    ok=False
    for nn in range(n,h+1):
        shown=rows[:nn]
        if any(r!=blank for r in rows[nn:]): continue
        for k in range(0,len(concat)-nn+1):
            if concat[k:k+nn]==shown:
                if nn<h and not (k==0 and True): continue
                if nn<h and k+nn!=len(concat): continue
                ok=(k,nn); break
        if ok: break
    if not ok: V(("not-a-slice",),(hist,rows,concat)); return True
    k,nn=ok
    if fpos not in owner[k:k+nn] and body[fpos].rows((size[0],),True)>0: V(("focus-not-visible",),(hist,rows))
    cur=c.cursor
    fw=body[fpos]
    if hasattr(fw,"get_cursor_coords") and fw.selectable() and fw.get_cursor_coords((size[0],)) is not None and cur is None:
        V(("cursor-not-visible",),(hist,rows))
    return True
def run(kl, size0, evs):
    urwid.CanvasCache.clear()
    items=[mk(k,i) for i,k in enumerate(kl)]
    lb=urwid.ListBox(urwid.SimpleFocusListWalker(items))
    size=size0; hist=(kl,size0,evs); fresh=[0]
    if not check(lb,None,size,hist+("init",)): return
    for ev in evs:
        try:
            if isinstance(ev,str): lb.keypress(size,ev)
            elif ev[0]=="press":
                if ev[1]<size[1]:
                    before=rows_of(lb.render(size,True))
                    lb.mouse_event(size,"mouse press",1,0,ev[1],True)
            elif ev[0]=="wheel": lb.mouse_event(size,"mouse press",ev[1],0,0,True)
            elif ev[0]=="focus":
                if len(lb.body): lb.set_focus(ev[1] % len(lb.body))
            elif ev[0]=="valign": lb.set_focus_valign(ev[1])
            elif ev[0]=="resize": size=(W, 2 if size[1]!=2 else 5)
            elif ev[0]=="del0":
                if len(lb.body): del lb.body[0]
            elif ev[0]=="delf":
                if len(lb.body): del lb.body[lb.focus_position]
            elif ev[0]=="ins0": fresh[0]+=1; lb.body.insert(0, mk("S1", 10+fresh[0]))
            elif ev[0]=="app": fresh[0]+=1; lb.body.append(mk("T3", 10+fresh[0]))
        except Exception as e:
            tb=traceback.extract_tb(e.__traceback__); fr=[f for f in tb if "/repo/urwid" in f.filename][-1]
            V(("event-raise",str(ev),type(e).__name__,fr.name),hist); return
        if not check(lb,None,size,hist): return
t0=time.time(); n=0
for L in (0,1,2,3):
    for kl in itertools.product(kinds,repeat=L):
        for size0 in ((W,1),(W,3)):
            for evs in itertools.product(events,repeat=2):
                run(kl,size0,evs); n+=1
print(n,"histories %.1fs"%(time.time()-t0))
for k,v in sorted(res.items(), key=lambda x:-x[1])[:25]: print(v,k,str(ex[k])[:300])
