import sys, time, collections, itertools, io, contextlib, logging
logging.disable(logging.CRITICAL)
from vloops import *
class Boom(Exception): pass
BODIES=["nop","rm_a2","rm_w8","rm_idle","add_a0","exit","boom"]
def run(loopname, prog, choices):
    w=World(choices); evl,mkfd,closer=MAKERS[loopname](w)
    now=(lambda: w._trio_clock.current_time()) if loopname=="trio" else (lambda: w.t)
    log=[]; H={}
    def setr(fd):
        w.readable.add(fd)
        if loopname=="trio" and fd in w._trio_ev: w._trio_ev[fd].set()
    def body(name, kind):
        def f():
            log.append((name, round(now(),4)))
            if name=="w7": w.readable.discard(7)
            if name=="w8": w.readable.discard(8)
            if name=="a1": setr(7)
            if kind=="rm_a2": log.append(("rm_a2", evl.remove_alarm(H["a2"]), evl.remove_alarm(H["a2"])))
            elif kind=="rm_w8": log.append(("rm_w8", evl.remove_watch_file(H["w8"])))
            elif kind=="rm_idle": log.append(("rm_idle", evl.remove_enter_idle(H["idle"])))
            elif kind=="add_a0": evl.alarm(0, body("a0","nop"))
            elif kind=="exit": raise ExitMainLoop
            elif kind=="boom": raise Boom
        return f
    H["a1"]=evl.alarm(1,body("a1",prog.get("a1","nop")))
    H["a2"]=evl.alarm(2,body("a2",prog.get("a2","nop")))
    H["w7"]=evl.watch_file(mkfd(7),body("w7",prog.get("w7","nop")))
    H["w8"]=evl.watch_file(mkfd(8),body("w8",prog.get("w8","nop")))
    H["idle"]=evl.enter_idle(body("idle",prog.get("idle","nop")))
    evl.alarm(10,body("end","exit"))
    w.readable.add(8)
    res="ok"
    try:
        with contextlib.redirect_stdout(io.StringIO()), contextlib.redirect_stderr(io.StringIO()):
            evl.run()
    except Horizon as e: res="HORIZON"
    except Boom: res="Boom"
    except BaseException as e: res="EXC:"+type(e).__name__+":"+str(e)[:60]
    finally:
        if closer:
            try: closer()
            except Exception: pass
    if w.horizon: res="HORIZON"
    return w.points, log, res, w.trace
def accept(prog, log, res, trace):
    """contract acceptor (prototype): returns list of violated clauses"""
    v=[]
    names=[x[0] for x in log]
    times={x[0]:x[1] for x in log if len(x)==2}
    raised=[n for n in ("a1","a2","w7","w8","idle") if prog.get(n) in ("exit","boom")]
    # which raising body ran first
    first=None
    for x in log:
        if len(x)==2 and x[0] in raised: first=x[0]; break
    exp = "ok" if (first is None or prog[first]=="exit") else "Boom"
    if res!=exp: v.append("result:%s!=%s"%(res,exp))
    for a,due in (("a1",1),("a2",2)):
        c=names.count(a)
        if c>1: v.append("alarm-twice")
        if c and times[a] < due-1e-3: v.append("alarm-early")
    # removed alarm never runs; remove true then false
    for x in log:
        if x[0]=="rm_a2" and x is next(y for y in log if y[0]=="rm_a2"):
            i=log.index(x)
            if "a2" not in names[:i]:
                if x[1:]!=(True,False): v.append("remove-alarm-result:%s"%(x[1:],))
                if "a2" in names[i:]: v.append("alarm-after-remove")
        if x[0]=="rm_w8" and x[1] is True:
            i=log.index(x)
            if "w8" in names[i:]: v.append("watch-after-remove")
        if x[0]=="rm_idle" and x[1] is True:
            i=log.index(x)
            if "idle" in names[i+1:]: v.append("idle-after-remove")
    if first is None and res=="ok":
        # liveness: everything registered ran
        rm_a2=any(x[0]=="rm_a2" for x in log)
        if "a1" not in names: v.append("alarm-never")
        if "a2" not in names and not rm_a2: v.append("alarm-never")
        if "w8" not in names and not any(x[0]=="rm_w8" for x in log): v.append("watch-never")
        if "w7" not in names: v.append("watch-never")
    return v
def explore(loopname, prog, bound):
    stack=[([],0)]; n=0; out=collections.Counter(); viol=collections.Counter(); ex={}
    while stack:
        pre,dev=stack.pop()
        pts,log,res,trace=run(loopname,prog,pre); n+=1
        out[(tuple(x[0] for x in log),res)]+=1
        for c in accept(prog,log,res,trace):
            viol[c]+=1; ex.setdefault(c,(pre,log,res))
        for i in range(len(pre),len(pts)):
            if dev+1>bound: break
            for alt in range(1,pts[i][0]):
                stack.append(([p[1] for p in pts[:i]]+[alt],dev+1))
    return n,out,viol,ex
if __name__=="__main__":
    loops=sys.argv[1].split(",")
    bound=int(sys.argv[2])
    progs=[{}]+[{k:b} for k in ("a1","a2","w7","w8","idle") for b in BODIES[1:] if not (k=="idle" and b=="add_a0")]
    for ln in loops:
        t0=time.time(); tot=0; allv=collections.Counter(); exs={}
        for prog in progs:
            n,out,viol,ex=explore(ln,prog,bound); tot+=n
            for c,k in viol.items():
                key=(c,tuple(prog.items())); allv[key]+=k; exs.setdefault(key,ex[c])
        print("== %s: %d programs, %d executions, %.1fs (%.2f ms/exec), bound %d"%(ln,len(progs),tot,time.time()-t0,(time.time()-t0)*1000/tot,bound))
        for k,v in sorted(allv.items(), key=lambda x:(x[0][0],-x[1]))[:40]: print("  ",v,k, str(exs[k][1:])[:160])
