import collections, itertools
from urwid.display.common import AttrSpec, AttrSpecError, _BASIC_COLORS
res=collections.Counter(); ex={}
def V(k,e): res[k]+=1; ex.setdefault(k,e)
basic=_BASIC_COLORS+["default",""]
def colors_for(depth):
    c=list(basic)
    if depth>=88:
        c+=["h%d"%i for i in range(0,256)]
        c+=["#%x%x%x"%(r,g,b) for r in range(16) for g in range(16) for b in range(16)]
        c+=["g%d"%i for i in range(0,101)]
        c+=["g#%02x"%i for i in range(256)]
    if depth>=256: c+=["#%02x%02x%02x"%(r,g,b) for r in (0,1,0x5f,0x80,0xff) for g in (0,0x87,0xfe) for b in (0,0xd7,0xff)]
    return c
styles=["bold","italics","underline","blink","standout","strikethrough"]
n=0
for depth in (1,16,88,256,2**24):
    for fg in colors_for(depth):
        for st in ([], ["bold"], ["underline","standout"]):
            for bg in (["default","dark blue","h200","#f0f","g50","#123456"]):
                spec=",".join([fg]+st); n+=1
                try: a=AttrSpec(spec,bg,depth)
                except AttrSpecError: continue
                except Exception as e: V((depth,"ctor-raise",type(e).__name__),(spec,bg)); continue
                try:
                    f,b=a.foreground,a.background
                except Exception as e: V((depth,"desc-raise",type(e).__name__),(spec,bg)); continue
                try: a2=AttrSpec(f,b,depth)
                except Exception as e: V((depth,"rebuild-raise",type(e).__name__),(spec,bg,f,b)); continue
                if a2!=a: V((depth,"roundtrip-ne"),(spec,bg,f,b,a2.foreground,a2.background))
                elif hash(a2)!=hash(a): V((depth,"hash"),(spec,bg))
                try: a.get_rgb_values()
                except Exception as e: V((depth,"rgb-raise",type(e).__name__),(spec,bg))
                need=a.colors
                # smallest depth able to express
                for d in (1,16,88,256,2**24):
                    try:
                        a3=AttrSpec(f,b,d)
                        if a3.foreground==f and a3.background==b: break
                    except Exception: pass
                if d<need and not (need==2**24 and d in (88,256)) : V((depth,"colors-not-min",need,d),(spec,bg))
print(n)
for k,v in sorted(res.items(), key=lambda x:-x[1]): print(v,k,ex[k])
