import collections, time, warnings, wcwidth
import urwid
from urwid import str_util as su
warnings.simplefilter("ignore")
su.set_byte_encoding("utf8")
res=collections.Counter(); ex={}
def V(k,e): res[k]+=1; ex.setdefault(k,e)
t0=time.time(); n=0
for o in range(0x110000):
    if 0xD800<=o<=0xDFFF: continue
    c=chr(o); b=c.encode("utf-8"); n+=1
    w=max(wcwidth.wcwidth(c),0)
    try:
        if su.get_char_width(c)!=w: V(("width-table",),o)
        if su.calc_width(c,0,1)!=w: V(("calc_width-str",),o)
        if su.calc_width(b,0,len(b))!=w: V(("calc_width-bytes",),(o,su.calc_width(b,0,len(b)),w))
        if su.decode_one(b,0)!=(o,len(b)): V(("decode_one",),(o,su.decode_one(b,0)))
        if su.is_wide_char(c,0)!=(w==2) or su.is_wide_char(b,0)!=(w==2): V(("is_wide",),o)
        for col in (0,1,2):
            ps=su.calc_text_pos(c,0,1,col); pb=su.calc_text_pos(b,0,len(b),col)
            es=(1,w) if w<=col else (0,0)
            if ps!=es: V(("text_pos-str",col),(o,ps,es))
            eb=(len(b),w) if w<=col else (0,0)
            if pb!=eb: V(("text_pos-bytes",col),(o,pb,eb))
        s2=b"a"+b+b"a"
        if su.move_next_char(s2,1,len(s2))!=1+len(b): V(("next",),o)
        if su.move_prev_char(s2,0,1+len(b))!=1: V(("prev",),o)
    except Exception as e: V(("raise",type(e).__name__),(o,str(e)[:50]))
print(n,"%.1fs"%(time.time()-t0))
for k,v in sorted(res.items(), key=lambda x:-x[1])[:12]: print(v,k,ex[k])
