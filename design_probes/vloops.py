"""throw-away: virtual environments for the six urwid event loops + choice explorer"""
import itertools, asyncio, types, sys
from asyncio import events, base_events
from urwid import ExitMainLoop

class Horizon(Exception): pass
class World:
    def __init__(self, choices):
        self.t=0.0; self.horizon=False; self.stopper=None; self.readable=set(); self.choices=list(choices); self.points=[]; self.trace=[]; self.iters=0
    def choose(self, n, tag=""):
        if n<=1: return 0
        i=len(self.points); c=self.choices[i] if i<len(self.choices) else 0
        if c>=n: raise RuntimeError("replay divergence")
        self.points.append((n,c,tag)); return c
    def wait(self, ready, timeout):
        """ready: sorted list of ready ids. returns chosen tuple or None (advance)"""
        self.iters+=1
        if self.iters>400:
            self.horizon=True
            if getattr(self,'stopper',None): self.stopper(); return None
            raise Horizon()
        opts=[]
        if ready: opts.append(tuple(ready))                       # default: everything, ascending
        for r in range(1,len(ready)+1):
            for sub in itertools.permutations(ready,r):
                if sub!=tuple(ready): opts.append(sub)
        if timeout is not None or not opts: opts.append(None)
        c=self.choose(len(opts),"wait")
        o=opts[c]
        self.trace.append(("wait",timeout,o,self.t))
        if o is None:
            if timeout is None: raise Horizon("deadlock")
            self.t+=max(timeout,0)
        return o
# ---------------- select
def make_select(w):
    from urwid.event_loop import select_loop as sl
    class Clock:
        def time(s): return w.t
    class Key:
        def __init__(s,fd,data): s.fd=fd; s.data=data
    class Sel:
        def __init__(s): s.reg={}
        def __enter__(s): return s
        def __exit__(s,*a): return False
        def register(s,fd,ev,data=None): s.reg[fd]=data
        def select(s,timeout=None):
            o=w.wait(sorted(fd for fd in s.reg if fd in w.readable),timeout)
            return [] if o is None else [(Key(fd,s.reg[fd]),1) for fd in o]
    sl.time=Clock(); sl.selectors=types.SimpleNamespace(DefaultSelector=Sel,EVENT_READ=1)
    return sl.SelectEventLoop(), (lambda fd: fd), None
# ---------------- asyncio / tornado
class VLoop(base_events.BaseEventLoop):
    def __init__(self,w):
        super().__init__(); self.w=w; self.readers={}; self._clock_resolution=1e-9
        outer=self
        class S:
            def select(s,timeout=None):
                o=w.wait(sorted(fd for fd in outer.readers if fd in w.readable),timeout)
                return [] if o is None else list(o)
        self._selector=S()
    def time(self): return self.w.t
    def _process_events(self,evl):
        for fd in evl:
            h=self.readers.get(fd)
            if h is not None and not h._cancelled: self._add_callback(h)
    def add_reader(self,fd,cb,*a):
        h=events.Handle(cb,a,self,None); old=self.readers.get(fd)
        if old: old.cancel()
        self.readers[fd]=h; return h
    def remove_reader(self,fd):
        h=self.readers.pop(fd,None)
        if h is None: return False
        h.cancel(); return True
    def _write_to_self(self): pass
def make_asyncio(w):
    from urwid.event_loop.asyncio_loop import AsyncioEventLoop
    l=VLoop(w); return AsyncioEventLoop(loop=l), (lambda fd: fd), l.close
def make_tornado(w):
    from tornado.platform.asyncio import AsyncIOLoop
    from urwid.event_loop.tornado_loop import TornadoEventLoop
    l=VLoop(w); asyncio.set_event_loop(l); io=AsyncIOLoop(asyncio_loop=l)
    return TornadoEventLoop(io), (lambda fd: fd), (lambda: io.close(all_fds=False))
# ---------------- twisted
def make_twisted(w):
    from twisted.internet.base import ReactorBase
    from urwid.event_loop.twisted_loop import TwistedEventLoop
    class R(ReactorBase):
        def __init__(s): s._readers=[]; super().__init__()
        def installWaker(s): pass
        def seconds(s): return w.t
        def _handleSignals(s): pass
        def addReader(s,r):
            if r not in s._readers: s._readers.append(r)
        def removeReader(s,r):
            if r in s._readers: s._readers.remove(r)
        def removeWriter(s,r): pass
        def getReaders(s): return list(s._readers)
        def getWriters(s): return []
        def removeAll(s): rs=s._readers; s._readers=[]; return rs
        def doIteration(s,timeout):
            byfd={r.fileno():r for r in s._readers}
            o=w.wait(sorted(fd for fd in byfd if fd in w.readable),timeout)
            if o is None: return
            for fd in o:
                r=byfd[fd]
                if r in s._readers: r.doRead()
    r=R(); w.stopper=r.crash
    return TwistedEventLoop(reactor=r), (lambda fd: fd), None
# ---------------- zmq
def make_zmq(w):
    from urwid.event_loop import zmq_loop as zl
    import zmq as realzmq
    class F:
        def __init__(s,fd): s.fd=fd
        def fileno(s): return s.fd
    class Poller:
        def __init__(s): s.reg=[]
        def register(s,obj,flags): s.reg.append(obj)
        def unregister(s,obj):
            if obj not in s.reg: raise KeyError(obj)
            s.reg.remove(obj)
        def poll(s,timeout=None):
            fds=[o.fileno() for o in s.reg]
            o=w.wait(sorted(fd for fd in fds if fd in w.readable), None if timeout is None else timeout/1000.0)
            return [] if o is None else [(fd,1) for fd in o]
    class Clock:
        def time(s): return w.t
    zl.zmq=types.SimpleNamespace(Poller=Poller,POLLIN=1,POLLOUT=2,error=realzmq.error)
    zl.time=Clock()
    return zl.ZMQEventLoop(), (lambda fd: F(fd)), None
# ---------------- trio
def make_trio(w):
    import trio, trio.testing
    import trio._core._run as R
    from urwid.event_loop import trio_loop as tl
    clock=trio.testing.MockClock(autojump_threshold=0.0003)
    class Rnd:
        def random(s): return 0.0 if w.choose(2,"tick")==1 else 1.0
    R._r=Rnd()
    class Shim:
        def __getattr__(s,n): return getattr(trio,n)
        def run(s,fn,*a,**kw): kw["clock"]=clock; return trio.run(fn,*a,**kw)
    tl.trio=Shim()
    evl=tl.TrioEventLoop()
    ev={}
    async def wait_readable(fd):
        while fd not in w.readable:
            e=ev.setdefault(fd,trio.Event()); await e.wait(); ev.pop(fd,None)
        await trio.lowlevel.checkpoint()
    evl._wait_readable=wait_readable
    class TClock:
        pass
    w._trio_clock=clock; w._trio_ev=ev
    return evl, (lambda fd: fd), None
MAKERS=dict(select=make_select, asyncio=make_asyncio, tornado=make_tornado, twisted=make_twisted, zmq=make_zmq, trio=make_trio)
