import time as _t, types
import trio, trio.testing
import urwid
from urwid import ExitMainLoop
from urwid.event_loop import trio_loop as tl
from urwid.event_loop.trio_loop import TrioEventLoop

def run(threshold, seed=0, flip=None):
    log=[]
    clock=trio.testing.MockClock(autojump_threshold=threshold)
    # deterministic scheduling
    import trio._core._run as R
    R._ALLOW_DETERMINISTIC_SCHEDULING=True
    R._r.seed(seed)
    class TrioShim:
        def __getattr__(self, n): return getattr(trio, n)
        def run(self, fn, *a, **kw):
            kw["clock"]=clock
            return trio.run(fn,*a,**kw)
    tl.trio=TrioShim()
    evl=TrioEventLoop()
    events={7:trio.Event(),8:trio.Event()}
    readable=set()
    async def wait_readable(fd):
        while fd not in readable:
            await events[fd].wait()
            events[fd]=trio.Event()
        await trio.lowlevel.checkpoint()
    evl._wait_readable=wait_readable
    def setr(fd): readable.add(fd); events[fd].set()
    def a1(): log.append(("a1",clock.current_time())); setr(7)
    def a2(): log.append(("a2",clock.current_time())); raise ExitMainLoop
    def w7(): log.append(("w7",clock.current_time())); readable.discard(7); evl.remove_watch_file(h8)
    def w8(): log.append(("w8",clock.current_time())); readable.discard(8)
    def idle(): log.append(("idle",round(clock.current_time(),3)))
    evl.alarm(1,a1); evl.alarm(2,a2); evl.watch_file(7,w7); h8=evl.watch_file(8,w8); evl.enter_idle(idle)
    readable.add(8)
    t0=_t.time()
    try: evl.run(); res="ok"
    except BaseException as e: res=repr(e)
    return log,res,_t.time()-t0
for th in (0, 0.0005):
    for seed in (0,1,2):
        log,res,dt=run(th,seed)
        print(th,seed,res,"%.1fms"%(dt*1000),[x[0] for x in log])
