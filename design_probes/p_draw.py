import urwid, io
from urwid.display import raw
from urwid.canvas import TextCanvas
urwid.set_encoding("utf-8")
class Out:
    def __init__(self): self.buf=[]
    def write(self,s): self.buf.append(s)
    def flush(self): pass
class In: pass
out=Out()
scr=raw.Screen(input=In(), output=out)
scr.signal_init=lambda:None; scr.signal_restore=lambda:None
scr.register_palette([("x","light red","dark blue")])
scr.start()
print(repr("".join(out.buf))); out.buf.clear()
def canv(rows, attrs=None, cursor=None, cols=4):
    t=[r.encode() for r in rows]
    return TextCanvas(t, attrs, None, cursor, maxcol=cols)
c1=canv(["ab  ","你c "], [[("x",2)],[]], (1,1))
scr.draw_screen((4,2), c1); print(repr("".join(out.buf))); out.buf.clear()
c2=canv(["ab  ","abcd"], [[("x",2)],[("x",4)]])
scr.draw_screen((4,2), c2); print(repr("".join(out.buf))); out.buf.clear()
scr.stop(); print(repr("".join(out.buf)))
