import itertools, collections, time, warnings
import urwid
warnings.simplefilter("ignore")
res=collections.Counter(); ex={}
def V(k,e): res[k]+=1; ex.setdefault(k,e)
opts=[("given",1),("given",2),("given",4),("pack",1),("pack",3),("weight",1),("weight",2),("weight",3)]
def mk(o):
    k,n=o
    if k=="pack": return ("pack", urwid.Text("x"*n, wrap="clip"))
    if k=="given": return (n, urwid.Text("g"))
    return ("weight", n, urwid.Text("w"))
n=0; t0=time.time()
for L in (1,2,3):
    for combo in itertools.product(opts,repeat=L):
        for div in (0,1,2):
            for minw in (1,2,3):
                for focus in range(L):
                    for maxcol in range(1,13):
                        urwid.CanvasCache.clear()
                        c=urwid.Columns([mk(o) for o in combo], dividechars=div, focus_column=focus, min_width=minw)
                        n+=1
                        try: ws=c.column_widths((maxcol,))
                        except Exception as e: V(("raise",type(e).__name__),(combo,div,minw,focus,maxcol)); continue
                        ws=list(ws)+[0]*(L-len(ws))
                        case=(combo,div,minw,focus,maxcol,ws)
                        if any((not isinstance(w,int)) or w<0 for w in ws): V(("negative-or-nonint",),case); continue
                        vis=[i for i,w in enumerate(ws) if w>0]
                        total=sum(ws)+div*max(len(vis)-1,0)
                        if total>maxcol: V(("exceeds",),case)
                        for i,(k,a) in enumerate(combo):
                            if k in ("given","pack") and ws[i] not in (0,a): V(("own-or-nothing",k),case)
                        wvis=[i for i in vis if combo[i][0]=="weight"]
                        if wvis and total!=maxcol: V(("not-filled",),case)
                        need = combo[focus][1] if combo[focus][0]!="weight" else minw
                        if need<=maxcol and ws[focus]==0: V(("focus-hidden",),case)
                        if len(wvis)>=2:
                            fixed=sum(ws[i] for i in vis if combo[i][0]!="weight")+div*(len(vis)-1)
                            rem=maxcol-fixed; wt=sum(combo[i][1] for i in wvis)
                            for i in wvis:
                                share=rem*combo[i][1]/wt
                                if abs(ws[i]-share)>1 and not any(ws[j]<=minw for j in wvis): V(("not-proportional",),case)
print(n,"%.1fs"%(time.time()-t0))
for k,v in sorted(res.items(), key=lambda x:-x[1])[:12]: print(v,k,ex[k])
