import itertools, collections, time
import urwid
from urwid.vterm import TermCanvas, TermModes
class FW:
    def __init__(s): s.term_modes=TermModes(); s.resp=[]
    def respond(s,x): s.resp.append(x)
    def beep(s): pass
    def leds(s,w): pass
    def set_title(s,t): pass
class VT:
    """minimal VT100 reference: chars only, autowrap with pending wrap, scroll region"""
    def __init__(s,w,h): s.w=w; s.h=h; s.g=[[" "]*w for _ in range(h)]; s.x=0; s.y=0; s.pw=False; s.top=0; s.bot=h-1
    def scroll_up(s): s.g.pop(s.top); s.g.insert(s.bot,[" "]*s.w)
    def scroll_down(s): s.g.pop(s.bot); s.g.insert(s.top,[" "]*s.w)
    def lf(s):
        if s.y==s.bot: s.scroll_up()
        elif s.y<s.h-1: s.y+=1
    def ri(s):
        if s.y==s.top: s.scroll_down()
        elif s.y>0: s.y-=1
    def put(s,ch):
        if s.pw:
            s.x=0; s.lf(); s.pw=False
        s.g[s.y][s.x]=ch
        if s.x==s.w-1: s.pw=True
        else: s.x+=1
    def feed(s,tok):
        k=tok[0]
        if k=="ch": s.put(tok[1]); return
        s.pw=False if k not in ("sgr",) else s.pw
        if k=="cr": s.x=0
        elif k=="lf": s.lf()
        elif k=="bs": s.x=max(0,s.x-1)
        elif k=="ri": s.ri()
        elif k=="cup": s.y=min(max(tok[1]-1,0),s.h-1); s.x=min(max(tok[2]-1,0),s.w-1)
        elif k=="cuu": s.y=max(s.y-max(tok[1],1), s.top if s.y>=s.top else 0)
        elif k=="cud": s.y=min(s.y+max(tok[1],1), s.bot if s.y<=s.bot else s.h-1)
        elif k=="cuf": s.x=min(s.x+max(tok[1],1),s.w-1)
        elif k=="cub": s.x=max(s.x-max(tok[1],1),0)
        elif k=="el":
            m=tok[1]
            if m==0: rng=range(s.x,s.w)
            elif m==1: rng=range(0,s.x+1)
            else: rng=range(s.w)
            for i in rng: s.g[s.y][i]=" "
        elif k=="ed":
            m=tok[1]
            if m==0:
                for i in range(s.x,s.w): s.g[s.y][i]=" "
                for j in range(s.y+1,s.h): s.g[j]=[" "]*s.w
            elif m==1:
                for i in range(0,s.x+1): s.g[s.y][i]=" "
                for j in range(0,s.y): s.g[j]=[" "]*s.w
            else:
                for j in range(s.h): s.g[j]=[" "]*s.w
        elif k=="ich":
            n=max(tok[1],1)
            for _ in range(n): s.g[s.y].insert(s.x," "); s.g[s.y].pop()
        elif k=="dch":
            n=max(tok[1],1)
            for _ in range(min(n,s.w-s.x)): s.g[s.y].pop(s.x); s.g[s.y].append(" ")
        elif k=="il":
            if s.top<=s.y<=s.bot:
                for _ in range(min(max(tok[1],1),s.bot-s.y+1)): s.g.pop(s.bot); s.g.insert(s.y,[" "]*s.w)
                s.x=0 if False else s.x
        elif k=="dl":
            if s.top<=s.y<=s.bot:
                for _ in range(min(max(tok[1],1),s.bot-s.y+1)): s.g.pop(s.y); s.g.insert(s.bot,[" "]*s.w)
        elif k=="stbm":
            t,b=tok[1],tok[2]
            t=t or 1; b=b or s.h
            if t<b<=s.h: s.top=t-1; s.bot=b-1; s.x=0; s.y=0
E="\x1b"
def enc(tok):
    k=tok[0]
    if k=="ch": return tok[1].encode()
    return {"cr":"\r","lf":"\n","bs":"\b","ri":E+"M"}.get(k) .encode() if k in ("cr","lf","bs","ri") else (
     {"cup":E+"[%d;%dH"%tuple(tok[1:3]) if k=="cup" else "", }.get(k) or
     {"cuu":"A","cud":"B","cuf":"C","cub":"D","el":"K","ed":"J","ich":"@","dch":"P","il":"L","dl":"M"}.get(k) and (E+"[%d%s"%(tok[1],{"cuu":"A","cud":"B","cuf":"C","cub":"D","el":"K","ed":"J","ich":"@","dch":"P","il":"L","dl":"M"}[k])) or
     (E+"[%d;%dr"%tuple(tok[1:3]))).encode()
toks=[("ch","a"),("ch","b"),("cr",),("lf",),("bs",),("ri",),("cup",1,1),("cup",2,2),("cup",9,9),("cuu",1),("cud",1),("cuf",1),("cub",1),("cuf",9),
      ("el",0),("el",1),("el",2),("ed",0),("ed",1),("ed",2),("ich",1),("ich",9),("dch",1),("dch",9),("il",1),("il",9),("dl",1),("dl",9),("stbm",1,2),("stbm",2,3),("stbm",0,0)]
res=collections.Counter(); ex={}
n=0; t0=time.time()
for (w,h) in ((3,2),(4,3)):
    for seq in itertools.product(toks,repeat=3):
        c=TermCanvas(w,h,FW()); v=VT(w,h); n+=1
        for i,t in enumerate(seq):
            c.addstr(enc(t)); v.feed(t)
            got=["".join(ch.decode() for a,cs,ch in row) for row in c.term]
            exp=["".join(r) for r in v.g]
            if got!=exp or c.term_cursor!=(v.x,v.y):
                k=("grid" if got!=exp else "cursor", tuple(x[0] for x in seq[:i+1])[-2:])
                res[k]+=1; ex.setdefault(k,((w,h),seq[:i+1],got,exp,c.term_cursor,(v.x,v.y))); break
print(n,"%.1fs"%(time.time()-t0), "distinct classes",len(res))
for k,v_ in sorted(res.items(), key=lambda x:-x[1])[:40]: print(v_,k,ex[k])
