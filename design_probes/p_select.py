# feasibility: virtual time + selector for SelectEventLoop, exploring readiness choices
import sys, itertools
import urwid
from urwid.event_loop import select_loop as sl
from urwid import ExitMainLoop

class VClock:
    def __init__(self): self.t=0.0
    def time(self): return self.t
class VSelKey:
    def __init__(self, fd, data): self.fd=fd; self.data=data
class World:
    def __init__(self, choices):
        self.clock=VClock(); self.readable=set(); self.choices=list(choices); self.points=[]; self.log=[]
        self.iters=0
    def choose(self, n):
        i=len(self.points)
        c=self.choices[i] if i<len(self.choices) else 0
        self.points.append((n,c)); return c
W=None
class VSelector:
    def __init__(self): self.reg={}
    def __enter__(self): return self
    def __exit__(self,*a): return False
    def register(self, fd, ev, data=None): self.reg[fd]=data
    def select(self, timeout=None):
        W.iters+=1
        if W.iters>50: raise RuntimeError("horizon")
        ready=sorted(fd for fd in self.reg if fd in W.readable)
        # options: each non-empty subset ordered, or (if timeout is not None) nothing+advance
        opts=[]
        for r in range(1,len(ready)+1):
            for sub in itertools.combinations(ready,r): opts.append(sub)
        if timeout is not None or not opts: opts.append(None)
        c=W.choose(len(opts))
        o=opts[c]
        W.log.append(("select",timeout,o,W.clock.t))
        if o is None:
            if timeout is None: raise RuntimeError("deadlock")
            W.clock.t+=timeout
            return []
        return [(VSelKey(fd,self.reg[fd]),1) for fd in o]
class VSelMod:
    DefaultSelector=VSelector; EVENT_READ=1
def run(choices):
    global W
    W=World(choices)
    sl.time=W.clock; sl.selectors=VSelMod
    evl=sl.SelectEventLoop()
    def a1(): W.log.append(("a1",W.clock.t)); W.readable.add(7)
    def a2(): W.log.append(("a2",W.clock.t)); raise ExitMainLoop
    def w7(): W.log.append(("w7",W.clock.t)); W.readable.discard(7); evl.remove_watch_file(8)
    def w8(): W.log.append(("w8",W.clock.t)); W.readable.discard(8)
    def idle(): W.log.append(("idle",W.clock.t))
    evl.alarm(1,a1); evl.alarm(2,a2); evl.watch_file(7,w7); evl.watch_file(8,w8); evl.enter_idle(idle)
    W.readable.add(8)
    try: evl.run(); res="ok"
    except Exception as e: res=repr(e)
    return W.points, W.log, res
# DFS over choice sequences
stack=[[]]; n=0; outcomes=set()
while stack:
    pre=stack.pop()
    pts,log,res=run(pre); n+=1
    outcomes.add((tuple(x[0] for x in log if x[0]!="select"),res))
    for i in range(len(pre),len(pts)):
        for alt in range(1,pts[i][0]):
            stack.append([p[1] for p in pts[:i]]+[alt])
print("executions",n,"outcomes",len(outcomes))
for o in sorted(outcomes): print(o)
