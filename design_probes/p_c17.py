import itertools, collections, time, warnings, wcwidth
import urwid
warnings.simplefilter("ignore")
def cw(c): return max(wcwidth.wcwidth(c),0)
pieces=["ab"," ","你","é","a\nb","c"]
tags=[None,"x","y"]
def markups():
    # depth<=2: list of up to 3 items; each item is piece, (tag,piece) or (tag,[piece,(tag2,piece)])
    items=[]
    for p in pieces:
        for t in tags:
            items.append(p if t is None else (t,p))
    nested=[("x",[p,("y",q)]) for p in ("ab","你") for q in ("c","é")]
    items+=nested
    for L in (1,2,3):
        for combo in itertools.product(items,repeat=L):
            if L==3 and combo[0] not in items[:6]: continue
            yield list(combo)
def flatten(m, cur=None):
    if isinstance(m,list):
        out=[]
        for e in m: out+=flatten(e,cur)
        return out
    if isinstance(m,tuple): return flatten(m[1], m[0])
    return [(ch,cur) for ch in m]
res=collections.Counter(); ex={}
def V(k,e): res[k]+=1; ex.setdefault(k,e)
n=0;t0=time.time()
for enc in ("utf-8",):
    urwid.set_encoding(enc)
    for m in markups():
        chars=flatten(m)
        text="".join(c for c,_ in chars)
        for width in (1,2,3,5):
            for wrap in ("space","any","clip","ellipsis"):
                for align in ("left","right"):
                    n+=1
                    t=urwid.Text(m,align,wrap)
                    try:
                        lay=t.get_line_translation(width); canv=t.render((width,))
                    except Exception as e: V(("raise",wrap,type(e).__name__),(m,width)); continue
                    rows=list(canv.content())
                    for y,(line,row) in enumerate(zip(lay,rows)):
                        # expected cells from layout
                        cells=[]; bad=False
                        # canvas cells
                        got=[]
                        for a,cs,bt in row:
                            for ch in bt.decode(enc):
                                w=cw(ch)
                                if w==0: continue
                                got.append((ch,a))
                                if w==2: got.append(("",a))
                        # only judge untrimmed lines (line width<=width)
                        lw=sum(s[0] for s in line)
                        if lw>width: continue
                        x=0
                        for seg in line:
                            sc,offs=seg[0],seg[1]
                            if offs is None: cells+=[(" ",None)]*sc
                            elif len(seg)==3 and not isinstance(seg[2],bytes):
                                for p in range(offs,seg[2]):
                                    ch,a=chars[p]; w=cw(ch)
                                    if w==0: continue
                                    cells.append((ch,a))
                                    if w==2: cells.append(("",a))
                            elif len(seg)==3: cells+=[("E","?")]*sc
                            else: cells+=[("S","?")]*sc
                        cells+=[(" ",None)]*(width-len(cells))
                        for i,(g,c_) in enumerate(zip(got,cells)):
                            if c_[1]=="?": continue
                            if g!=c_: V(("cell-attr",wrap),(m,width,align,y,i,g,c_)); bad=True; break
                        if bad: break
print(n,"%.1fs"%(time.time()-t0))
for k,v in sorted(res.items(), key=lambda x:-x[1])[:10]: print(v,k,str(ex[k])[:200])
