import urwid, warnings, traceback, collections, itertools, sys
warnings.simplefilter("ignore")
import wcwidth
urwid.set_encoding("utf-8")
def leaves():
    T=urwid.Text
    yield "Text-ascii", lambda: T("ab cd")
    yield "Text-wide", lambda: T("你好a")
    yield "Text-comb", lambda: T("éx")
    yield "Text-nl", lambda: T("a\nbc")
    yield "Text-clip", lambda: T("abcdef", wrap="clip")
    yield "Text-ell", lambda: T("abcdef", wrap="ellipsis")
    yield "Text-any-right", lambda: T("abc def", align="right", wrap="any")
    yield "Text-dec", lambda: T("┌─┐")
    yield "Text-bytes", lambda: T(b"ab cd")
    yield "Edit", lambda: urwid.Edit("c:", "ab")
    yield "Edit-wide", lambda: urwid.Edit("", "你好")
    yield "Button", lambda: urwid.Button("ok")
    yield "CheckBox", lambda: urwid.CheckBox("c")
    yield "Radio", lambda: urwid.RadioButton([], "r")
    yield "SelIcon", lambda: urwid.SelectableIcon("ic", 1)
    yield "Divider", lambda: urwid.Divider("-", 1, 0)
    yield "Progress", lambda: urwid.ProgressBar("n", "f", 30)
    yield "Solid", lambda: urwid.SolidFill("x")
    yield "BigText", lambda: urwid.BigText("1", urwid.Thin3x3Font())
    yield "ListBox", lambda: urwid.ListBox(urwid.SimpleFocusListWalker([T("a"), urwid.Edit("", "b"), T("c\nd")]))
def level1(mk):
    yield "Padding-c-pack", lambda: urwid.Padding(mk(), "center", "pack")
    yield "Padding-r-3", lambda: urwid.Padding(mk(), "right", 3)
    yield "Padding-rel50-lr1", lambda: urwid.Padding(mk(), ("relative", 30), ("relative", 50), left=1, right=1)
    yield "Padding-clip", lambda: urwid.Padding(mk(), "left", "clip")
    yield "Filler-top", lambda: urwid.Filler(mk(), "top")
    yield "Filler-mid-2", lambda: urwid.Filler(mk(), "middle", 2)
    yield "Filler-rel", lambda: urwid.Filler(mk(), ("relative", 70), ("relative", 50), top=1)
    yield "AttrMap", lambda: urwid.AttrMap(mk(), "a", "b")
    yield "LineBox", lambda: urwid.LineBox(mk(), "t")
    yield "BoxAdapter2", lambda: urwid.BoxAdapter(mk(), 2)
    yield "Pile-w", lambda: urwid.Pile([mk(), urwid.Text("z")])
    yield "Pile-pack", lambda: urwid.Pile([("pack", mk()), urwid.Text("z")])
    yield "Pile-given2", lambda: urwid.Pile([(2, mk()), ("weight", 2, urwid.SolidFill("s"))])
    yield "Cols-w", lambda: urwid.Columns([mk(), urwid.Text("z")], 1)
    yield "Cols-pack", lambda: urwid.Columns([("pack", mk()), urwid.Text("z")])
    yield "Cols-given3-box", lambda: urwid.Columns([(3, mk()), urwid.Text("z\ny")], box_columns=[0])
    yield "Frame", lambda: urwid.Frame(urwid.SolidFill("b"), header=mk())
    yield "FrameBody", lambda: urwid.Frame(mk(), header=urwid.Text("h"))
    yield "Overlay", lambda: urwid.Overlay(mk(), urwid.SolidFill("b"), "center", 3, "middle", 2)
    yield "OverlayPack", lambda: urwid.Overlay(mk(), urwid.SolidFill("b"), "center", "pack", "middle", "pack")
    yield "GridFlow", lambda: urwid.GridFlow([mk(), urwid.Text("z")], 3, 1, 1, "left")
    yield "Scrollable", lambda: urwid.Scrollable(mk())
    yield "ScrollBar", lambda: urwid.ScrollBar(urwid.Scrollable(mk()))
    yield "ListBox1", lambda: urwid.ListBox([mk()])
def width(b):
    s=b.decode("utf-8")
    return sum(max(wcwidth.wcwidth(c),0) for c in s)
fails=collections.Counter(); examples={}; total=0
def check(name, mk):
    global total
    try: w=mk()
    except Exception as e:
        return  # construction refused: fine
    try: sz=w.sizing()
    except Exception as e:
        fails[(name.split("(")[0],"sizing",type(e).__name__)]+=1; return
    sizes=[]
    if "box" in sz: sizes+=[(c,r) for c in (1,2,3,5,8) for r in (1,2,4)]
    if "flow" in sz: sizes+=[(c,) for c in (1,2,3,5,8)]
    if "fixed" in sz: sizes+=[()]
    for size in sizes:
        for focus in (False,True):
            total+=1
            urwid.CanvasCache.clear()
            try:
                w=mk()
                c=w.render(size,focus)
                rows=list(c.content())
                exp_cols = size[0] if size else w.pack((),focus)[0]
                if len(size)==2: exp_rows=size[1]
                elif len(size)==1: exp_rows=w.rows(size,focus)
                else: exp_rows=w.pack((),focus)[1]
                prob=None
                if c.cols()!=exp_cols: prob="cols %s!=%s"%(c.cols(),exp_cols)
                elif c.rows()!=exp_rows: prob="rows %s!=%s"%(c.rows(),exp_rows)
                elif len(rows)!=c.rows(): prob="content rows"
                else:
                    for r in rows:
                        if sum(width(t) for a,cs,t in r)!=c.cols(): prob="row width"; break
                    if c.cursor is not None:
                        x,y=c.cursor
                        if not (0<=x<c.cols() and 0<=y<c.rows()): prob="cursor outside %s"%(c.cursor,)
                if prob:
                    k=(name,"mismatch",prob.split(" ")[0]); fails[k]+=1; examples.setdefault(k,(size,focus,prob))
            except Exception as e:
                tb=traceback.extract_tb(e.__traceback__)
                fr=[f for f in tb if "/repo/urwid" in f.filename][-1]
                k=(name,type(e).__name__, fr.filename.split("/")[-1]+":"+fr.name)
                fails[k]+=1; examples.setdefault(k,(size,focus,str(e)[:80]))
for ln,lm in leaves():
    check(ln,lm)
    for dn,dm in level1(lm):
        check(dn+"("+ln+")",dm)
print("total renders",total,"failing",sum(fails.values()),"distinct",len(fails))
agg=collections.Counter()
for (n,a,b),v in fails.items(): agg[(n.split("(")[0],a,b)]+=v
for k,v in sorted(agg.items(), key=lambda x:-x[1])[:60]: print(v,k)
print("----")
for k,v in examples.items():
    if k[2] in ("text_layout.py:__init__",) or k[1]=="mismatch" or "canvas.py" in k[2]:
        print(k, v)
