import os, io, termios, signal, time
import urwid
from urwid.display import raw

class Out:
    def __init__(self): self.buf=[]
    def write(self,s): self.buf.append(s)
    def flush(self): pass
def session(loopname, inject_at=None, exc=None):
    m,s=os.openpty()
    inp=os.fdopen(s,'rb',buffering=0)
    out=Out()
    before=termios.tcgetattr(s)
    sigs_before={n:signal.getsignal(n) for n in (signal.SIGWINCH,signal.SIGTSTP,signal.SIGCONT)}
    scr=raw.Screen(input=inp, output=out)
    calls=[]; count=[0]
    class Boom(Exception): pass
    def site(name):
        i=count[0]; count[0]+=1; calls.append(name)
        if inject_at==i: raise (exc or Boom)()
    class Probe(urwid.Edit):
        def keypress(self,size,key):
            site("keypress:"+key); return super().keypress(size,key)
    w=urwid.Filler(Probe("x:"))
    def filt(keys,raw_): site("filter"); return keys
    def unh(k): site("unhandled:"+str(k)); return False
    if loopname=="select": evl=urwid.SelectEventLoop()
    elif loopname=="asyncio":
        import asyncio; l=asyncio.new_event_loop(); evl=urwid.AsyncioEventLoop(loop=l)
    ml=urwid.MainLoop(w,screen=scr,input_filter=filt,unhandled_input=unh,event_loop=evl)
    script=[b"a", b"\x1b[15~", b"b"]
    def driver():
        # called on idle: feed next step
        site("idle-driver")
        if script: os.write(m, script.pop(0))
        else: raise urwid.ExitMainLoop
    evl.enter_idle(driver)
    res="ok"
    try: ml.run()
    except BaseException as e: res=type(e).__name__
    after=termios.tcgetattr(s)
    sigs_after={n:signal.getsignal(n) for n in sigs_before}
    txt="".join(out.buf)
    ok=(before==after, sigs_before==sigs_after, scr.started)
    os.close(m); inp.close()
    if loopname=="asyncio": l.close()
    return res, calls, ok, txt[-60:]
for ln in ("select","asyncio"):
    t0=time.time()
    r=session(ln); print(ln, r, "%.0fms"%((time.time()-t0)*1000))
    n=len(r[1])
    for k in range(n):
        rr=session(ln,k); print("  inject",k,r[1][k],rr[0],rr[2])
