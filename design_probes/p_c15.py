import itertools, collections, traceback, time
import urwid
from urwid.vterm import TermCanvas, TermModes
class FW:
    def __init__(s): s.term_modes=TermModes(); s.resp=[]
    def respond(s,x): s.resp.append(x)
    def beep(s): pass
    def leds(s,w): pass
    def set_title(s,t): pass
E=b"\x1b"
tokens=[b"a", b"\xe4\xbd\xa0", b"\xff", b"\xc3", b"\r", b"\n", b"\t", b"\b", b"\x0e", b"\x0f", b"\x9b", E+b"M", E+b"D", E+b"E", E+b"H", E+b"7", E+b"8", E+b"c", E+b"#8", E+b"(0", E+b")U", E+b"%G", E+b"%@",
 E+b"]0;t\x07", E+b"]0;\xff\x07", E+b"[H", E+b"[9;9H", E+b"[0;0H", E+b"[2J", E+b"[1J", E+b"[J", E+b"[K", E+b"[1K", E+b"[2K", E+b"[@", E+b"[9@", E+b"[P", E+b"[9P", E+b"[L", E+b"[9L", E+b"[M", E+b"[9M", E+b"[X", E+b"[9X",
 E+b"[A", E+b"[9A", E+b"[B", E+b"[9B", E+b"[C", E+b"[9C", E+b"[D", E+b"[9D", E+b"[G", E+b"[9G", E+b"[d", E+b"[9d", E+b"[E", E+b"[F", E+b"[1;2r", E+b"[2;1r", E+b"[r", E+b"[9;9r", E+b"[?6h", E+b"[?6l", E+b"[?7l", E+b"[?7h", E+b"[4h", E+b"[4l", E+b"[?5h", E+b"[?5l", E+b"[?25l", E+b"[20h", E+b"[3h",
 E+b"[g", E+b"[3g", E+b"[5n", E+b"[6n", E+b"[c", E+b"[s", E+b"[u", E+b"[31m", E+b"[1;44m", E+b"[38;5;200m", E+b"[38;5;999m", E+b"[38;2;1;2;3m", E+b"[38;2;999;2;3m", E+b"[38;5m", E+b"[0m", E+b"[7m", E+b"[11m", E+b"[10m", E+b"[;;;m", E+b"[99999999999999999999m", E+b"[?", E+b"[1;", E+b"\x18", E+b"[q", E+b"[3q"]
sizes=[(1,1),(2,2),(3,2),(8,3)]
res=collections.Counter(); ex={}
def inv(c):
    if len(c.term)!=c.height: return "grid-rows %d!=%d"%(len(c.term),c.height)
    for r in c.term:
        if len(r)!=c.width: return "grid-cols"
    x,y=c.term_cursor
    if not (0<=x<c.width and 0<=y<c.height): return "cursor-out"
    if not (0<=c.scrollregion_start<=c.scrollregion_end<c.height): return "region"
    return None
n=0; t0=time.time()
for (w,h) in sizes:
    for seq in itertools.product(range(len(tokens)), repeat=2):
        c=TermCanvas(w,h,FW()); n+=1
        for ti in seq:
            try:
                c.addstr(tokens[ti])
                p=inv(c)
                list(c.content())
            except Exception as e:
                tb=traceback.extract_tb(e.__traceback__); fr=[f for f in tb if "/repo/urwid" in f.filename][-1]
                k=("raise",type(e).__name__,fr.name); res[k]+=1; ex.setdefault(k,((w,h),[tokens[i] for i in seq])); break
            if p: k=("inv",p.split(" ")[0]); res[k]+=1; ex.setdefault(k,((w,h),[tokens[i] for i in seq],p)); break
        else:
            # resize then check
            for (w2,h2) in ((1,1),(w+1,h+1),(w,h+2)):
                try:
                    c.resize(w2,h2); p=inv(c); list(c.content())
                    if p: k=("inv-resize",p.split(" ")[0]); res[k]+=1; ex.setdefault(k,((w,h),(w2,h2),[tokens[i] for i in seq],p)); break
                except Exception as e:
                    tb=traceback.extract_tb(e.__traceback__); fr=[f for f in tb if "/repo/urwid" in f.filename][-1]
                    k=("raise-resize",type(e).__name__,fr.name); res[k]+=1; ex.setdefault(k,((w,h),(w2,h2),[tokens[i] for i in seq])); break
print(n,"seqs %.1fs"%(time.time()-t0))
for k,v in sorted(res.items(), key=lambda x:-x[1]): print(v,k,ex[k])
