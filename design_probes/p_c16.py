import itertools, collections
from urwid.widget.monitored_list import MonitoredFocusList as MFL, MonitoredList as ML
class Tok:
    __slots__=("n",)
    def __init__(s,n): s.n=n
    def __repr__(s): return "t%d"%s.n
    def __lt__(s,o): return s.n<o.n
idxs=[None,-4,-3,-2,-1,0,1,2,3,4]
steps=[None,1,2,3,-1,-2]
def ops(n):
    for i in range(-n-1,n+2):
        yield ("del",i); yield ("set",i); yield ("pop",i); yield ("insert",i)
    for a,b,c in itertools.product(idxs,idxs,steps):
        yield ("delslice",a,b,c)
        for k in (0,1,2): yield ("setslice",a,b,c,k)
    yield ("append",); yield ("extend",2); yield ("reverse",); yield ("sort",); yield ("clear",); yield ("imul",0); yield ("imul",2); yield ("iadd",2); yield ("remove",0); yield ("remove",99)
def apply(lst, op, fresh):
    k=op[0]
    if k=="del": del lst[op[1]]
    elif k=="set": lst[op[1]]=fresh[0]
    elif k=="pop": lst.pop(op[1])
    elif k=="insert": lst.insert(op[1],fresh[0])
    elif k=="delslice": del lst[slice(op[1],op[2],op[3])]
    elif k=="setslice": lst[slice(op[1],op[2],op[3])]=fresh[:op[4]]
    elif k=="append": lst.append(fresh[0])
    elif k=="extend": lst.extend(fresh[:2])
    elif k=="reverse": lst.reverse()
    elif k=="sort": lst.sort()
    elif k=="clear": lst.clear()
    elif k=="imul": lst*=op[1]
    elif k=="iadd": lst+=fresh[:2]
    elif k=="remove":
        lst.remove(base[op[1]] if op[1]<len(base) else Tok(99))
viol=collections.Counter(); ex={}
count=0
for n in range(0,5):
    for f in range(max(n,1)):
        for op in ops(n):
            base=[Tok(i) for i in range(n)]
            fresh=[Tok(10),Tok(11)]
            ref=list(base); ml=MFL(base,focus=f)
            mods=[]; fch=[]
            ml.set_modified_callback(lambda: mods.append(1)); ml.set_focus_changed_callback(lambda x: fch.append(x))
            before_focus=ml.focus; fitem=base[f] if n else None
            e1=e2=None
            try: apply(ref,op,fresh)
            except Exception as e: e1=type(e)
            try: apply(ml,op,fresh)
            except Exception as e: e2=type(e)
            count+=1
            def V(kind): 
                k=(kind,op[0], ("negstep" if len(op)>3 and op[3] is not None and op[3]<0 else "") ); viol[k]+=1; ex.setdefault(k,(n,f,op,list(ml),ml.focus,e1,e2))
            if e1!=e2: V("exc-differs"); continue
            if list(ml)!=ref: V("contents"); continue
            if e1 is not None:
                if mods: V("modified-on-fail")
                continue
            if not ref:
                if ml.focus is not None: V("focus-not-none")
                continue
            if ml.focus is None or not 0<=ml.focus<len(ref): V("focus-range"); continue
            if fitem is not None and any(x is fitem for x in ref):
                if ref[ml.focus] is not fitem: V("focus-lost-item")
            changed = ref!=base or len(ref)!=len(base)
            if changed and len(mods)!=1: V("modified-count-%d"%len(mods))
            if n and before_focus is not None:
                if (before_focus!=ml.focus) != bool(fch): V("focus-cb")
print("cases",count)
for k,v in sorted(viol.items(), key=lambda x:-x[1]): print(v,k,ex[k])
