import itertools, collections, time, warnings, traceback
import urwid
warnings.simplefilter("ignore")
urwid.set_encoding("utf-8")
THUMB="█"
def rows_of(c): return [b"".join(t for a,cs,t in r).decode() for r in c.content()]
def mk(kind):
    if kind=="t1": return urwid.Text("a0")
    if kind=="t3": return urwid.Text("a0\na1\na2")
    if kind=="t7": return urwid.Text("\n".join("a%d"%i for i in range(7)))
    if kind=="pile": return urwid.Pile([urwid.Text("p0\np1"), urwid.Edit("","e0\ne1",multiline=True), urwid.Text("p4\np5\np6")])
sizes=[(5,1),(5,2),(5,4),(3,3)]
ops=["up","down","page up","page down","home","end","x"]+[("pos",p) for p in (-100,-2,-1,0,1,2,100)]+[("resize",i) for i in range(len(sizes))]+["wheel4","wheel5"]
res=collections.Counter(); ex={}
def V(k,e): res[k]+=1; ex.setdefault(k,e)
def run(kind, bar, size0, seq):
    urwid.CanvasCache.clear()
    inner=mk(kind); sc=urwid.Scrollable(inner); top=urwid.ScrollBar(sc) if bar else sc
    size=sizes[size0]; hist=(kind,bar,size0,seq)
    def check():
        try: c=top.render(size,True); rr=rows_of(c)
        except Exception as e:
            tb=traceback.extract_tb(e.__traceback__); fr=[f for f in tb if "/repo/urwid" in f.filename][-1]
            V(("render-raise",type(e).__name__,fr.name),hist); return False
        cols,h=size
        full_w=cols
        total_full=inner.rows((cols,))
        has_bar=bar and any(THUMB in r for r in rr)
        cw=cols-1 if has_bar else cols
        if cw<1: return True
        urwid.CanvasCache.clear()
        full=rows_of(inner.render((cw,), True))
        total=len(full)
        view=[r[:cw] if has_bar else r for r in rr]
        p=sc.get_scrollpos()
        if not (0<=p<=max(0,total-h)): V(("range",),(hist,p,total,h)); return True
        exp=[(full[p+i] if p+i<total else "").ljust(cw)[:cw] for i in range(h)]
        if view!=exp: V(("slice",),(hist,p,view,exp)); return True
        if bar:
            overflow_full= total_full>h; overflow_red= inner.rows((cols-1,))>h if cols>1 else overflow_full
            if has_bar!=overflow_full and has_bar!=overflow_red: V(("bar-iff-overflow",),(hist,has_bar,total_full,h))
            if has_bar:
                colb=[r[-1] for r in rr]
                top_n=0
                while top_n<len(colb) and colb[top_n]!=THUMB: top_n+=1
                th=0
                while top_n+th<len(colb) and colb[top_n+th]==THUMB: th+=1
                if any(ch==THUMB for ch in colb[top_n+th:]): V(("thumb-not-contiguous",),hist)
                if (top_n==0)!=(p==0): V(("thumb-top-iff-p0",),(hist,p,colb))
        return True
    if not check(): return
    for op in seq:
        try:
            if isinstance(op,str) and op.startswith("wheel"):
                top.mouse_event(size,"mouse press",int(op[-1]),0,0,True)
            elif isinstance(op,str): top.keypress(size,op)
            elif op[0]=="pos": sc.set_scrollpos(op[1])
            elif op[0]=="resize": size=sizes[op[1]]
        except Exception as e:
            V(("op-raise",str(op),type(e).__name__),hist); return
        if not check(): return
n=0;t0=time.time()
for kind in ("t1","t3","t7","pile"):
    for bar in (False,True):
        for s0 in range(len(sizes)):
            for seq in itertools.product(ops,repeat=2):
                run(kind,bar,s0,seq); n+=1
print(n,"%.1fs"%(time.time()-t0))
for k,v in sorted(res.items(), key=lambda x:-x[1])[:12]: print(v,k,str(ex[k])[:260])
