import asyncio, heapq, itertools, time as _t
from asyncio import events, base_events
import urwid
from urwid import ExitMainLoop
from urwid.event_loop.asyncio_loop import AsyncioEventLoop

class W:  # world
    pass
class VSelector:
    def __init__(self, world): self.w=world
    def select(self, timeout=None):
        w=self.w
        w.iters+=1
        if w.iters>200: raise RuntimeError("horizon")
        ready=sorted(fd for fd in w.readers if fd in w.readable)
        opts=[sub for r in range(1,len(ready)+1) for sub in itertools.combinations(ready,r)]
        if timeout is not None or not opts: opts.append(None)
        c=w.choose(len(opts)); o=opts[c]
        w.log.append(("select",timeout,o,w.t))
        if o is None:
            if timeout is None: raise RuntimeError("deadlock")
            w.t+=max(timeout,0)
            return []
        return list(o)
class VLoop(base_events.BaseEventLoop):
    def __init__(self, world):
        super().__init__()
        self.w=world; self._selector=VSelector(world); self._clock_resolution=1e-9
    def time(self): return self.w.t
    def _process_events(self, event_list):
        for fd in event_list:
            h=self.w.readers.get(fd)
            if h is not None and not h._cancelled: self._add_callback(h)
    def add_reader(self, fd, cb, *args):
        h=events.Handle(cb,args,self,None); old=self.w.readers.get(fd)
        if old: old.cancel()
        self.w.readers[fd]=h; return h
    def remove_reader(self, fd):
        h=self.w.readers.pop(fd,None)
        if h is None: return False
        h.cancel(); return True
    def _write_to_self(self): pass
def run(choices, use_tornado=False):
    w=W(); w.t=0.0; w.readable=set(); w.readers={}; w.choices=list(choices); w.points=[]; w.log=[]; w.iters=0
    def choose(n):
        i=len(w.points); c=w.choices[i] if i<len(w.choices) else 0
        w.points.append((n,c)); return c
    w.choose=choose
    loop=VLoop(w)
    if use_tornado:
        from tornado.platform.asyncio import AsyncIOLoop
        from urwid.event_loop.tornado_loop import TornadoEventLoop
        asyncio.set_event_loop(loop)
        io=AsyncIOLoop(asyncio_loop=loop, make_current=False) if False else AsyncIOLoop(asyncio_loop=loop)
        evl=TornadoEventLoop(io)
    else:
        evl=AsyncioEventLoop(loop=loop)
    def a1(): w.log.append(("a1",w.t)); w.readable.add(7)
    def a2(): w.log.append(("a2",w.t)); raise ExitMainLoop
    def w7(): w.log.append(("w7",w.t)); w.readable.discard(7); evl.remove_watch_file(h8)
    def w8(): w.log.append(("w8",w.t)); w.readable.discard(8)
    def idle(): w.log.append(("idle",w.t))
    evl.alarm(1,a1); evl.alarm(2,a2); evl.watch_file(7,w7); h8=evl.watch_file(8,w8); evl.enter_idle(idle)
    w.readable.add(8)
    try: evl.run(); res="ok"
    except Exception as e: res=repr(e)
    finally:
        try: loop.close()
        except Exception as e: res+=" close:"+repr(e)
    return w.points,w.log,res
for tor in (False, True):
    stack=[[]]; n=0; outcomes=set(); t0=_t.time()
    while stack:
        pre=stack.pop(); pts,log,res=run(pre,tor); n+=1
        outcomes.add((tuple(x[0] for x in log if x[0]!="select"),res))
        for i in range(len(pre),len(pts)):
            for alt in range(1,pts[i][0]): stack.append([p[1] for p in pts[:i]]+[alt])
    print("tornado" if tor else "asyncio","executions",n,"outcomes",len(outcomes), "%.1f ms/exec"%((_t.time()-t0)*1000/n))
    for o in sorted(outcomes): print("  ",o)
