import itertools, time as _t
from twisted.internet.base import ReactorBase
from twisted.internet import error
import urwid
from urwid import ExitMainLoop
from urwid.event_loop.twisted_loop import TwistedEventLoop

class W: pass
class VReactor(ReactorBase):
    def __init__(self, world):
        self.w=world; self._readers=[]
        super().__init__()
    def installWaker(self): pass
    def seconds(self): return self.w.t
    def _handleSignals(self): pass
    def addReader(self, r):
        if r not in self._readers: self._readers.append(r)
    def removeReader(self, r):
        if r in self._readers: self._readers.remove(r)
    def getReaders(self): return list(self._readers)
    def removeAll(self): rs=self._readers; self._readers=[]; return rs
    def doIteration(self, timeout):
        w=self.w; w.iters+=1
        if w.iters>300: raise RuntimeError("horizon")
        ready=[r for r in self._readers if r.fileno() in w.readable]
        opts=[sub for k in range(1,len(ready)+1) for sub in itertools.combinations(ready,k)]
        if timeout is not None or not opts: opts.append(None)
        c=w.choose(len(opts)); o=opts[c]
        w.log.append(("select",timeout,None if o is None else tuple(r.fileno() for r in o),w.t))
        if o is None:
            if timeout is None: raise RuntimeError("deadlock")
            w.t+=max(timeout,0); return
        for r in o:
            if r in self._readers:   # like real reactors: skip if removed meanwhile
                r.doRead()
def run(choices):
    w=W(); w.t=0.0; w.readable=set(); w.choices=list(choices); w.points=[]; w.log=[]; w.iters=0
    def choose(n):
        i=len(w.points); c=w.choices[i] if i<len(w.choices) else 0
        w.points.append((n,c)); return c
    w.choose=choose
    r=VReactor(w)
    evl=TwistedEventLoop(reactor=r)
    def a1(): w.log.append(("a1",w.t)); w.readable.add(7)
    def a2(): w.log.append(("a2",w.t)); raise ExitMainLoop
    def w7(): w.log.append(("w7",w.t)); w.readable.discard(7); evl.remove_watch_file(h8)
    def w8(): w.log.append(("w8",w.t)); w.readable.discard(8)
    def idle(): w.log.append(("idle",w.t))
    evl.alarm(1,a1); evl.alarm(2,a2); evl.watch_file(7,w7); h8=evl.watch_file(8,w8); evl.enter_idle(idle)
    w.readable.add(8)
    try: evl.run(); res="ok"
    except BaseException as e: res=repr(e)
    return w.points,w.log,res
stack=[[]]; n=0; outcomes=set(); t0=_t.time()
while stack:
    pre=stack.pop(); pts,log,res=run(pre); n+=1
    outcomes.add((tuple(x[0] for x in log if x[0]!="select"),res))
    for i in range(len(pre),len(pts)):
        for alt in range(1,pts[i][0]): stack.append([p[1] for p in pts[:i]]+[alt])
print("twisted executions",n,"outcomes",len(outcomes), "%.1f ms/exec"%((_t.time()-t0)*1000/n))
for o in sorted(outcomes): print("  ",o)
