import itertools, collections, time, warnings, traceback
import urwid
from urwid.canvas import TextCanvas
warnings.simplefilter("ignore")
urwid.set_encoding("utf-8")
LOG=[]
class Leaf(urwid.Widget):
    def __init__(self, ident, sel=True, rows=1, box=False):
        super().__init__(); self.ident=ident; self._selectable=sel; self.nrows=rows; self.box=box
    def sizing(self): return frozenset(["box"]) if self.box else frozenset(["flow"])
    def rows(self,size,focus=False): return self.nrows
    def render(self,size,focus=False):
        c=size[0]; r=size[1] if len(size)==2 else self.nrows
        LOG.append(("render",self.ident,focus))
        return TextCanvas([self.ident.encode().ljust(c)[:c] for _ in range(r)],maxcol=c)
    def keypress(self,size,key): LOG.append(("key",self.ident,key)); return key
    def mouse_event(self,size,event,button,col,row,focus): LOG.append(("mouse",self.ident)); return False
def fixtures():
    L=Leaf
    yield "pile", lambda: (urwid.Pile([L("a"),L("t",False),L("b"),L("c")]), (4,), "flow")
    yield "cols", lambda: (urwid.Columns([L("a"),L("t",False),L("b")],1), (11,), "flow")
    yield "pile(cols)", lambda: (urwid.Pile([urwid.Columns([L("a"),L("b")]),L("t",False),urwid.Columns([L("c"),L("d")])]), (6,), "flow")
    yield "cols(pile)", lambda: (urwid.Columns([urwid.Pile([L("a"),L("b")]),urwid.Pile([L("t",False),L("c")])]), (6,), "flow")
    yield "grid", lambda: (urwid.GridFlow([L("a"),L("b"),L("t",False),L("c")],2,1,0,"left"), (5,), "flow")
    yield "frame", lambda: (urwid.Frame(urwid.Filler(urwid.Pile([L("a"),L("b")])),header=L("h"),footer=L("f",False)), (4,5), "box")
    yield "overlay", lambda: (urwid.Overlay(urwid.Filler(urwid.Pile([L("a"),L("b")])),urwid.Filler(L("z")),"center",3,"middle",2), (6,4), "box")
    yield "listbox", lambda: (urwid.ListBox(urwid.SimpleFocusListWalker([L("a"),L("t",False),urwid.Columns([L("b"),L("c")])])), (6,3), "box")
    yield "empty-pile", lambda: (urwid.Pile([]), (4,), "flow")
    yield "unsel-pile", lambda: (urwid.Pile([L("t",False),L("u",False)]), (4,), "flow")
def containers(w, acc):
    if isinstance(w,(urwid.Pile,urwid.Columns,urwid.GridFlow,urwid.Frame,urwid.Overlay,urwid.ListBox)): acc.append(w)
    if isinstance(w,urwid.Frame):
        for x in (w.header,w.body,w.footer):
            if x is not None: containers(x,acc)
    elif isinstance(w,urwid.Overlay): containers(w.top_w,acc); containers(w.bottom_w,acc)
    elif isinstance(w,urwid.ListBox):
        for x in w.body: containers(x,acc)
    elif hasattr(w,"contents") and not isinstance(w,Leaf):
        for x,_ in w.contents: containers(x,acc)
    elif hasattr(w,"original_widget"): containers(w.original_widget,acc)
def focus_path_leaves(w):
    out=[]
    while w is not None:
        if isinstance(w,Leaf): out.append(w.ident); break
        b=w.base_widget
        if b is not w: w=b; continue
        if isinstance(w,urwid.Filler): w=w.original_widget; continue
        w=w.focus
    return out
res=collections.Counter(); ex={}
def V(k,e): res[k]+=1; ex.setdefault(k,e)
def invariants(root,size,hist):
    cs=[]; containers(root,cs)
    for c in cs:
        try:
            n=len(c.body) if isinstance(c,urwid.ListBox) else (3 if isinstance(c,urwid.Frame) else len(c.contents))
        except Exception: n=1
        if n==0:
            if c.focus is not None: V(("empty-focus-not-none",type(c).__name__),hist)
            try: c.focus_position; V(("empty-position-no-IndexError",type(c).__name__),hist)
            except IndexError: pass
            except Exception as e: V(("empty-position-wrong-exc",type(c).__name__,type(e).__name__),hist)
        else:
            try:
                p=c.focus_position
                w=c.contents[p][0] if not isinstance(c,urwid.ListBox) else c.body[p]
                if w is not c.focus: V(("focus-mismatch",type(c).__name__),hist)
            except Exception as e: V(("focus-read-raise",type(c).__name__,type(e).__name__),hist)
    # render with focus: only focus path leaf gets focus=True
    LOG.clear(); urwid.CanvasCache.clear()
    try: root.render(size,True)
    except Exception as e: V(("render-raise",type(e).__name__),hist); return
    fl=focus_path_leaves(root)
    for kind,ident,f in LOG:
        if kind=="render" and f and ident not in fl: V(("focus-render-offpath",),(hist,ident,fl))
KEYS=["up","down","left","right","page up","page down","home","end","tab","x"]
def ops_for(root,size):
    o=[("key",k) for k in KEYS]
    c,r=size[0],(size[1] if len(size)==2 else 4)
    o+=[("press",x,y) for x in range(0,c,2) for y in range(r)]
    o+=[("setfocus",p) for p in (-1,0,1,2,9)]
    o+=[("del0",),("clear",),("ins",)]
    return o
def apply(root,size,op,hist):
    top=root
    if op[0]=="key":
        LOG.clear()
        got=root.keypress(size,op[1]) if root.selectable() else op[1]
        fl=None
        for kind,ident,k in [x for x in LOG if x[0]=="key"]:
            pass
        if got is not None and got!=op[1]: V(("unhandled-changed",),(hist,op,got))
        return
    if op[0]=="press": root.mouse_event(size,"mouse press",1,op[1],op[2],True); return
    target=root
    if op[0]=="setfocus":
        if isinstance(root,(urwid.Frame,urwid.Overlay)): return
        n=len(root.body) if isinstance(root,urwid.ListBox) else len(root.contents)
        before=None
        try: before=root.focus_position
        except IndexError: pass
        try:
            root.focus_position=op[1]
            if not (0<=op[1]<n): V(("bad-assign-accepted",type(root).__name__),(hist,op))
        except IndexError:
            if 0<=op[1]<n: V(("good-assign-rejected",type(root).__name__),(hist,op))
        return
    if isinstance(root,(urwid.Pile,urwid.Columns,urwid.GridFlow)):
        if op[0]=="del0" and len(root.contents): del root.contents[0]
        elif op[0]=="clear": root.contents[:]=[]
        elif op[0]=="ins": root.contents.insert(0,(Leaf("n"),root.options()))
        if op[0] in ("del0","clear","ins"):
            if root.selectable()!=any(w.selectable() for w,_ in root.contents): V(("selectable-after-set",type(root).__name__),(hist,op))
n=0;t0=time.time()
for name,mk in fixtures():
    root,size,mode=mk()
    O=ops_for(root,size)
    for seq in itertools.product(O,repeat=2):
        root,size,mode=mk(); n+=1
        hist=(name,seq)
        invariants(root,size,hist+("init",))
        for op in seq:
            try: apply(root,size,op,hist)
            except Exception as e:
                tb=traceback.extract_tb(e.__traceback__); fr=[f for f in tb if "/repo/urwid" in f.filename]
                V(("op-raise",name,op[0],type(e).__name__, fr[-1].name if fr else "?"),(hist,str(e)[:60])); break
            invariants(root,size,hist)
print(n,"%.1fs"%(time.time()-t0))
for k,v in sorted(res.items(), key=lambda x:-x[1])[:20]: print(v,k,str(ex[k])[:220])
