import itertools, collections, time, warnings, traceback
import urwid
from urwid.canvas import TextCanvas, CompositeCanvas
warnings.simplefilter("ignore")
urwid.set_encoding("utf-8")
class Probe(urwid.Widget):
    """painting probe: flow (cols,) -> r rows ; box (cols,rows). paints cell index chars, attr=id. cursor movable to allowed cells"""
    _selectable=True
    def __init__(self, ident, rows=2, box=False, deny=()):
        super().__init__(); self.ident=ident; self.nrows=rows; self.box=box; self.cur=(0,0); self.deny=set(deny); self.mouse=[]; self.keys=[]
    def sizing(self): return frozenset(["box"]) if self.box else frozenset(["flow"])
    def rows(self,size,focus=False): return self.nrows
    def _dims(self,size): return (size[0], size[1] if len(size)==2 else self.nrows)
    def render(self,size,focus=False):
        c,r=self._dims(size)
        text=[bytes(65+((y*c+x)%58) for x in range(c)) for y in range(r)]
        attr=[[(self.ident,c)] for _ in range(r)]
        cur=None
        if focus:
            cur=(min(self.cur[0],c-1),min(self.cur[1],r-1))
        return TextCanvas(text,attr,None,cur,maxcol=c)
    def get_cursor_coords(self,size):
        c,r=self._dims(size); return (min(self.cur[0],c-1),min(self.cur[1],r-1))
    def move_cursor_to_coords(self,size,col,row):
        c,r=self._dims(size)
        if row in self.deny or not (0<=row<r): return False
        if col=="left": col=0
        if col=="right": col=c-1
        self.cur=(max(0,min(col,c-1)),row); self._invalidate(); return True
    def get_pref_col(self,size): return self.cur[0]
    def keypress(self,size,key): self.keys.append((size,key)); return key
    def mouse_event(self,size,event,button,col,row,focus): self.mouse.append((size,col,row)); return True
res=collections.Counter(); ex={}
def V(k,e): res[k]+=1; ex.setdefault(k,e)
def trees():
    P=Probe
    yield "Pile", lambda: (urwid.Pile([P("a"),P("b",3)]), "flow", (4,5))
    yield "Pile-focus2", lambda: (urwid.Pile([P("a"),P("b",3)],focus_item=1), "flow", (4,5))
    yield "Cols", lambda: (urwid.Columns([P("a"),P("b",3)],1), "flow", (7,3))
    yield "Cols-given", lambda: (urwid.Columns([(3,P("a")),P("b",1)],2,focus_column=1), "flow", (9,2))
    yield "Frame", lambda: (urwid.Frame(P("B",box=True),header=P("h",1),footer=P("f",2)), "box", (4,6))
    yield "Frame-hdrfocus", lambda: (urwid.Frame(P("B",box=True),header=P("h",1),footer=P("f",2),focus_part="header"), "box", (4,6))
    yield "Frame-ftrfocus", lambda: (urwid.Frame(P("B",box=True),header=P("h",1),footer=P("f",2),focus_part="footer"), "box", (4,6))
    yield "Filler-top", lambda: (urwid.Filler(P("a",2),"top"), "box", (4,5))
    yield "Filler-mid-wide", lambda: (urwid.Filler(P("a",2),"middle"), "box", (9,5))
    yield "Filler-bottom-narrow", lambda: (urwid.Filler(P("a",2),"bottom",top=1), "box", (2,6))
    yield "Filler-box", lambda: (urwid.Filler(P("a",box=True),"middle",3), "box", (4,7))
    yield "Padding", lambda: (urwid.Padding(P("a",2),"center",3,left=1), "flow", (8,2))
    yield "Padding-right", lambda: (urwid.Padding(P("a",2),"right",("relative",50)), "flow", (8,2))
    yield "Overlay-box", lambda: (urwid.Overlay(P("t",box=True),urwid.SolidFill("."),"center",3,"middle",2), "box", (7,5))
    yield "Overlay-flow", lambda: (urwid.Overlay(P("t",2),urwid.SolidFill("."),"center",3,"middle","pack"), "box", (7,5))
    yield "BoxAdapter", lambda: (urwid.BoxAdapter(P("a",box=True),3), "flow", (4,3))
    yield "LineBox", lambda: (urwid.LineBox(P("a",2)), "flow", (6,4))
    yield "AttrMap", lambda: (urwid.AttrMap(P("a",2),None), "flow", (4,2))
    yield "GridFlow", lambda: (urwid.GridFlow([P("a",1),P("b",1),P("c",1)],3,1,1,"left"), "flow", (7,3))
    yield "ListBox", lambda: (urwid.ListBox(urwid.SimpleFocusListWalker([P("a",1),P("b",2),P("c",1)])), "box", (4,4))
    yield "Pile(Cols)", lambda: (urwid.Pile([urwid.Columns([P("a",1),P("b",2)],1),P("c",1)]), "flow", (7,3))
    yield "Cols(Pile)", lambda: (urwid.Columns([urwid.Pile([P("a",1),P("b",1)]),P("c",2)],1), "flow", (7,2))
def leaves(w, acc):
    if isinstance(w,Probe): acc.append(w); return
    for attr in ("original_widget","_original_widget"):
        if hasattr(w,attr):
            try: leaves(getattr(w,attr),acc); return
            except Exception: pass
    if isinstance(w,urwid.Frame):
        for x in (w.header,w.body,w.footer):
            if x is not None: leaves(x,acc)
        return
    if isinstance(w,urwid.Overlay): leaves(w.top_w,acc); return
    if isinstance(w,urwid.ListBox):
        for x in w.body: leaves(x,acc)
        return
    if hasattr(w,"contents"):
        for x,_ in w.contents: leaves(x,acc)
n=0
for name,mk in trees():
    root,mode,(c,r)=mk()
    size=(c,r) if mode=="box" else (c,)
    try:
        urwid.CanvasCache.clear()
        canv=root.render(size,True)
        # clause 1
        try:
            gc=root.get_cursor_coords(size)
            if gc!=canv.cursor: V((name,"cursor-agrees"),(gc,canv.cursor))
        except Exception as e: V((name,"get_cursor_coords-raise",type(e).__name__),str(e)[:60])
        # drawn map
        rows=list(canv.content()); drawn={}
        for y,row in enumerate(rows):
            x=0
            for a,cs,t in row:
                for ch in t.decode():
                    drawn[(x,y)]=(a,ch); x+=1
        lv=[]; leaves(root,lv); byid={p.ident:p for p in lv}
        # clause 2: hit test on every cell
        for (x,y),(a,ch) in sorted(drawn.items()):
            root2,_,_=mk(); lv2=[]; leaves(root2,lv2); by2={p.ident:p for p in lv2}
            urwid.CanvasCache.clear(); root2.render(size,True)
            n+=1
            try: root2.mouse_event(size,"mouse press",1,x,y,True)
            except Exception as e: V((name,"mouse-raise",type(e).__name__),(x,y,str(e)[:60])); continue
            got=[(p.ident,m) for p in lv2 for m in p.mouse]
            if a in by2:
                # which local cell? find probe dims from event
                if len(got)!=1 or got[0][0]!=a: V((name,"hit-wrong-leaf"),((x,y),a,got)); continue
                sz,lc,lr=got[0][1]; pc=sz[0]
                if chr(65+((lr*pc+lc)%58))!=ch: V((name,"hit-wrong-local"),((x,y),a,ch,got))
            else:
                if got: V((name,"hit-on-nonleaf"),((x,y),a,got))
        # clause 3: move_cursor_to_coords to each cell row
        for (x,y) in sorted(drawn):
            root3,_,_=mk(); urwid.CanvasCache.clear(); root3.render(size,True)
            if not hasattr(root3,"move_cursor_to_coords"): break
            try: ok=root3.move_cursor_to_coords(size,x,y)
            except Exception as e: V((name,"move-raise",type(e).__name__),(x,y,str(e)[:60])); continue
            a=drawn[(x,y)][0]
            rowleaves={drawn[(xx,y)][0] for xx in range(c) if (xx,y) in drawn and drawn[(xx,y)][0] in byid}
            expect=bool(rowleaves)
            if bool(ok)!=expect: V((name,"move-iff"),((x,y),ok,expect))
            elif ok:
                urwid.CanvasCache.clear(); cc=root3.render(size,True).cursor
                if cc is None or cc[1]!=y: V((name,"move-row"),((x,y),cc))
    except Exception as e:
        tb=traceback.extract_tb(e.__traceback__); V((name,"raise",type(e).__name__, tb[-1].name),str(e)[:80])
print(n,"cells")
for k,v in sorted(res.items(), key=lambda x:(x[0][0],-x[1])): print(v,k,str(ex[k])[:150])
