import itertools, collections, traceback, time, wcwidth
import urwid
from urwid.canvas import TextCanvas, SolidCanvas, CompositeCanvas, CanvasCombine, CanvasJoin, CanvasOverlay
urwid.set_encoding("utf-8")
def cw(c): return max(wcwidth.wcwidth(c),0)
# grid: list of rows; row: list of cells (ch, attr, cs); wide char -> (ch,a,cs),(None,a,cs)
def grid_of(canv):
    g=[]
    for row in canv.content():
        cells=[]
        for a,cs,t in row:
            for ch in t.decode("utf-8"):
                w=cw(ch)
                if w==0:
                    if cells: cells[-1]=(cells[-1][0]+ch if cells[-1][0] else ch,)+cells[-1][1:]
                    continue
                cells.append((ch,a,cs))
                if w==2: cells.append((None,a,cs))
        g.append(cells)
    return g
def fix(row):
    # replace broken halves by spaces
    out=list(row)
    for i,(ch,a,cs) in enumerate(out):
        if ch is None and (i==0 or out[i-1][0] is None or cw(out[i-1][0][0])!=2): out[i]=(" ",a,None)
    for i,(ch,a,cs) in enumerate(out):
        if ch is not None and cw(ch[0])==2 and (i+1>=len(out) or out[i+1][0] is not None): out[i]=(" ",a,None)
    return out
BL=(" ",None,None)
def g_cols(g): return len(g[0]) if g else 0
def g_padtrim_lr(g,l,r):
    out=[]
    for row in g:
        row=list(row)
        if l<0: row=row[-l:]
        if r<0: row=row[:len(row)+r]
        row=fix(row)
        if l>0: row=[BL]*l+row
        if r>0: row=row+[BL]*r
        out.append(row)
    return out
def g_padtrim_tb(g,t,b):
    c=g_cols(g); g=list(g)
    if t<0: g=g[-t:]
    if b<0: g=g[:len(g)+b]
    if t>0: g=[[BL]*c for _ in range(t)]+g
    if b>0: g=g+[[BL]*c for _ in range(b)]
    return g
def g_combine(gs): return [r for g in gs for r in g]
def g_join(gs_cols):
    gs=[]
    maxr=max(len(g) for g,c in gs_cols)
    for g,c in gs_cols:
        gc=g_cols(g)
        if c>gc: g=g_padtrim_lr(g,0,c-gc)
        if len(g)<maxr: g=g_padtrim_tb(g,0,maxr-len(g))
        gs.append(g)
    return [sum((g[i] for g in gs),[]) for i in range(maxr)]
def g_overlay(bg,top,left,topr):
    out=[list(r) for r in bg]
    for y,row in enumerate(top):
        out[topr+y][left:left+len(row)]=row
        out[topr+y]=fix(out[topr+y])
    return out
def g_attr(g,m): return [[(ch,m.get(a,a),cs) for ch,a,cs in row] for row in g]
def leaf(rows,attrs=None):
    return lambda: TextCanvas([r.encode() for r in rows],attrs() if attrs else None,maxcol=max(sum(cw(c) for c in r) for r in rows))
leaves={
 "ab": leaf(["ab"]), "wide": leaf(["你a","b你"]), "attr": leaf(["abcd"],lambda:[[("x",2),("y",2)]]), "wattr": leaf(["你好"],lambda:[[("x",3),("y",3)]]),
 "tall": leaf(["a","b","c"]), "solid": lambda: SolidCanvas("s",3,2), "comb": leaf(["éx"]),
}
res=collections.Counter(); ex={}
def V(k,e): res[k]+=1; ex.setdefault(k,e)
def unary_ops(c):
    cols,rows=c.cols(),c.rows()
    for l in range(-min(cols-1,2),3):
        for r in range(-min(cols-1,2),3):
            if -l-r<cols and (l or r): yield ("lr",l,r)
    for t in range(-min(rows-1,2),2):
        for b in range(-min(rows-1,2),2):
            if -t-b<rows and (t or b): yield ("tb",t,b)
    for t in range(0,rows):
        for cnt in (None,)+tuple(range(1,rows-t+1)): 
            if t or cnt: yield ("trim",t,cnt)
    for e in range(1,rows): yield ("trimend",e)
    yield ("attr",{None:"n","x":"z"}); yield ("attr",{"x":None})
def apply_unary(c,g,op):
    cc=CompositeCanvas(c)
    if op[0]=="lr": cc.pad_trim_left_right(op[1],op[2]); g2=g_padtrim_lr(g,op[1],op[2])
    elif op[0]=="tb": cc.pad_trim_top_bottom(op[1],op[2]); g2=g_padtrim_tb(g,op[1],op[2])
    elif op[0]=="trim":
        cc.trim(op[1],op[2]); g2=g[op[1]:] if op[2] is None else g[op[1]:op[1]+op[2]]
    elif op[0]=="trimend": cc.trim_end(op[1]); g2=g[:len(g)-op[1]]
    elif op[0]=="attr": cc.fill_attr_apply(op[1]); g2=g_attr(g,op[1])
    return cc,g2
def cmpg(c,g,tag,hist):
    try:
        got=grid_of(c)
        if (c.cols(),c.rows())!=(g_cols(g),len(g)) and len(g): V((tag,"size"),(hist,(c.cols(),c.rows()),(g_cols(g),len(g)))); return False
        if got!=g: V((tag,"cells"),(hist,got,g)); return False
    except Exception as e:
        tb=traceback.extract_tb(e.__traceback__); fr=[f for f in tb if "/repo/urwid" in f.filename][-1]
        V((tag,"raise",type(e).__name__,fr.name),(hist,str(e)[:60])); return False
    return True
n=0; t0=time.time()
level0=[(k,)+(lambda c:(c,grid_of(c)))(f()) for k,f in leaves.items()]
level1=[]
for name,c,g in level0:
    for op in unary_ops(c):
        n+=1
        try: cc,g2=apply_unary(c,g,op)
        except Exception as e:
            V(("unary-raise",op[0],type(e).__name__),(name,op)); continue
        if cmpg(cc,g2,"u1:"+op[0],(name,op)): level1.append(((name,op),cc,g2))
print("level1",len(level1))
# binary ops over level1 (subset) 
import random
pool=level1[::3]
for (h1,c1,g1),(h2,c2,g2) in itertools.product(pool,repeat=2):
    n+=1
    # combine if same cols
    if c1.cols()==c2.cols():
        try: cc=CanvasCombine([(c1,None,False),(c2,None,False)]); cmpg(cc,g_combine([g1,g2]),"combine",(h1,h2))
        except Exception as e: V(("combine-raise",type(e).__name__),(h1,h2))
    try:
        cc=CanvasJoin([(c1,None,False,c1.cols()+1),(c2,None,False,c2.cols())]); gj=g_join([(g1,c1.cols()+1),(g2,c2.cols())])
        if cmpg(cc,gj,"join",(h1,h2)):
            for op in list(unary_ops(cc))[::4]:
                try: c3,g3=apply_unary(cc,gj,op); cmpg(c3,g3,"join+"+op[0],(h1,h2,op))
                except Exception as e: V(("join+raise",op[0],type(e).__name__),(h1,h2,op))
    except Exception as e: V(("join-raise",type(e).__name__),(h1,h2,str(e)[:50]))
    if c2.cols()<=c1.cols() and c2.rows()<=c1.rows():
        for left in range(0,c1.cols()-c2.cols()+1):
            for top in range(0,c1.rows()-c2.rows()+1):
                try: cc=CanvasOverlay(c2,c1,left,top); cmpg(cc,g_overlay(g1,g2,left,top),"overlay",(h1,h2,left,top))
                except Exception as e:
                    tb=traceback.extract_tb(e.__traceback__); fr=[f for f in tb if "/repo/urwid" in f.filename][-1]
                    V(("overlay-raise",type(e).__name__,fr.name),(h1,h2,left,top))
print(n,"cases %.1fs"%(time.time()-t0))
for k,v in sorted(res.items(), key=lambda x:-x[1])[:25]: print(v,k,str(ex[k])[:400])
