import itertools, collections, time, warnings, wcwidth
import urwid
warnings.simplefilter("ignore")
urwid.set_encoding("utf-8")
def cw(c): return max(wcwidth.wcwidth(c),0)
def coords_map(full_text, layout):
    """offset -> (x,y) using own tuple parser; first match in reading order"""
    m={}
    for y,line in enumerate(layout):
        x=0
        for seg in line:
            sc,offs=seg[0],seg[1]
            if offs is None: x+=sc; continue
            if len(seg)==3 and not isinstance(seg[2],bytes):
                end=seg[2]; xx=x
                for p in range(offs,end):
                    m.setdefault(p,(xx,y)); xx+=cw(full_text[p])
                x+=sc
            elif len(seg)==3: x+=sc
            else:
                m.setdefault(offs,(x,y)); x+=sc
    return m
class Ref:
    def __init__(s,text,pos): s.t=list(text); s.p=pos; s.pref=None
KEYS=["a","你"," ","left","right","up","down","home","end","backspace","delete","f5"]
res=collections.Counter(); ex={}
def V(k,e): res[k]+=1; ex.setdefault(k,e)
def step(e, ref, key, size, cap):
    w=size[0]; L=len(cap)
    text="".join(ref.t); 
    lay=e.get_line_translation(w)   # trusted via C03
    # NOTE: must not disturb: get_line_translation depends on _shift_view_to_cursor; use Text's
    lay=urwid.Text.get_line_translation(e,w)
    cm=coords_map(cap+text, lay)
    def pos_xy(p): return cm.get(p+L)
    exp_unhandled=False; cands=None
    if len(key)==1:
        ref.t.insert(ref.p,key); ref.p+=1; ref.pref=None
    elif key=="left":
        if ref.p==0: exp_unhandled=True
        else: ref.p-=1; ref.pref=None
    elif key=="right":
        if ref.p>=len(ref.t): exp_unhandled=True
        else: ref.p+=1; ref.pref=None
    elif key=="backspace":
        if ref.p==0: exp_unhandled=True
        else: del ref.t[ref.p-1]; ref.p-=1
        ref.pref=None
    elif key=="delete":
        if ref.p>=len(ref.t): exp_unhandled=True
        else: del ref.t[ref.p]
        ref.pref=None
    elif key in ("up","down","home","end"):
        xy=pos_xy(ref.p)
        if xy is None: return "nocoords"
        x,y=xy
        rows={}
        for p in range(0,len(ref.t)+1):
            c=pos_xy(p)
            if c is not None: rows.setdefault(c[1],[]).append((c[0],p))
        if key in ("home","end"):
            ps=[p for _,p in rows[y]]
            ref.p=min(ps) if key=="home" else max(ps); ref.pref=None
        else:
            ty=y-1 if key=="up" else y+1
            if ref.pref is None: ref.pref=x
            if ty not in rows: exp_unhandled=True
            else:
                best=min(abs(xx-ref.pref) for xx,_ in rows[ty])
                cands=[p for xx,p in rows[ty] if abs(xx-ref.pref)==best]
    else: exp_unhandled=True
    return exp_unhandled, cands
n=0; t0=time.time()
configs=[(cap,txt,w,wrap) for cap in ("","c:") for txt in ("","ab","a b c","你b","a\nb") for w in (2,3,5) for wrap in ("space","any")]
for cap,txt,w,wrap in configs:
    for seq in itertools.product(KEYS,repeat=3):
        urwid.CanvasCache.clear()
        e=urwid.Edit(cap,txt,multiline=True,wrap=wrap); ref=Ref(txt,len(txt)); n+=1
        size=(w,)
        for i,key in enumerate(seq):
            try:
                r=step(e,ref,key,size,cap)
                if r=="nocoords": V(("ref-nocoords",),(cap,txt,w,wrap,seq[:i+1])); break
                exp_unh,cands=r
                got=e.keypress(size,key)
            except Exception as ex_:
                V(("raise",type(ex_).__name__),(cap,txt,w,wrap,seq[:i+1],str(ex_)[:60])); break
            if cands is not None:
                if e.edit_pos in cands: ref.p=e.edit_pos
                else: V(("vertical-pos",key),(cap,txt,w,wrap,seq[:i+1],e.edit_pos,cands,ref.pref)); break
            if (got is not None)!=exp_unh: V(("handled-mismatch",key),(cap,txt,w,wrap,seq[:i+1],got)); break
            if e.edit_text!="".join(ref.t) or e.edit_pos!=ref.p:
                V(("model",key),(cap,txt,w,wrap,seq[:i+1],(e.edit_text,e.edit_pos),("".join(ref.t),ref.p))); break
print(n,"seqs %.1fs"%(time.time()-t0))
for k,v in sorted(res.items(), key=lambda x:-x[1])[:15]: print(v,k,ex[k])
