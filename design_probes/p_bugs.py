import urwid, warnings, time
warnings.simplefilter("ignore")
def t(name, f):
    try: print(name, "->", f())
    except BaseException as e: print(name, "RAISED", type(e).__name__, e)
# 1 signals
class S(metaclass=urwid.MetaSignals):
    signals=["a"]
def sig():
    s=S(); log=[]
    def A(*a): log.append("A"); urwid.disconnect_signal(s,"a",A)
    def B(*a): log.append("B")
    def C(*a): log.append("C")
    for h in (A,B,C): urwid.connect_signal(s,"a",h)
    urwid.emit_signal(s,"a"); return log
t("signals self-disconnect", sig)
# 2 focus list
from urwid.widget.monitored_list import MonitoredFocusList as MFL
def mfl():
    ml=MFL([0,1,2,3,4],focus=3); del ml[::-2]; return list(ml), ml.focus
t("mfl neg step", mfl)
def mfl2():
    ml=MFL([0,1,2,3,4],focus=1); del ml[3:0:-1]; return list(ml), ml.focus
t("mfl neg step2", mfl2)
# 3 numedit
def ne():
    e=urwid.IntegerEdit("", "5", allow_negative=True); e.set_edit_pos(0); e.keypress((10,),"-"); e.set_edit_pos(0); e.keypress((10,),"3"); return e.edit_text
t("numedit", ne)
# 4 scrollable
def sc():
    s=urwid.Scrollable(urwid.Text("a\nb")); s.set_scrollpos(5); c=s.render((3,4)); return s.get_scrollpos(), c.text
t("scrollable stale", sc)
def sb():
    s=urwid.ScrollBar(urwid.Scrollable(urwid.Text("a\nb\nc"))); s.original_widget.set_scrollpos(1); c=s.render((3,1)); return c.text
t("scrollbar 1 row", sb)
# 6 pile
def pile():
    p=urwid.Pile([("pack", urwid.BigText("1", urwid.Thin3x3Font()))]); return p.sizing(), p.rows((5,)), p.render((5,)).rows()
t("pile pack fixed rows", pile)
# 7 vterm
from urwid.vterm import TermCanvas, TermModes
class FW:
    def __init__(s): s.term_modes=TermModes(); s.resp=[]
    def respond(s,x): s.resp.append(x)
    def beep(s): pass
    def leds(s,w): pass
    def set_title(s,t): pass
def vt1():
    c=TermCanvas(4,2,FW()); c.addstr(b"\x1b]0;\xff\x07"); return "ok"
t("vterm osc bad utf8", vt1)
def vt2():
    c=TermCanvas(4,2,FW()); c.addstr(b"a\r\nb\r\nc\r\nd"); c.scroll_buffer(up=True, lines=1); return list(c.content())
t("vterm scrollback content", vt2)
def vt3():
    c=TermCanvas(4,2,FW()); c.addstr(b"\x1b[5;5H\x1b[6n"); return c.widget.resp, c.term_cursor
t("vterm cpr", vt3)
def vt4():
    c=TermCanvas(4,2,FW()); c.has_focus=True; c.addstr(b"\x1b[9;9H"); return c.cursor, c.term_cursor
t("vterm cursor unconstrained", vt4)
# throughput
w=urwid.Pile([urwid.Columns([urwid.Text("hello world"), urwid.Edit("c:", "abc")]), urwid.Text("xyz 你好")])
t0=time.time(); n=0
for i in range(2000):
    urwid.CanvasCache.clear(); c=w.render((10+i%3,), bool(i%2)); list(c.content()); n+=1
print("render+content us:", (time.time()-t0)/n*1e6)
from urwid.text_layout import default_layout
t0=time.time()
for i in range(20000): default_layout.layout("ab cd 你好 ef\ngh", 5, "left", "space")
print("layout us:", (time.time()-t0)/20000*1e6)
