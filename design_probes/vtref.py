# throw-away reference terminal for interpreting urwid raw_display output
import re, wcwidth
DEC = dict(zip("_`abcdefghijklmnopqrstuvwxyz{|}~", "▮◆▒␉␌␍␊°±␤␋┘┐┌└┼⎺⎻─⎼⎽├┤┴┬│≤≥π≠£·"))
class Term:
    def __init__(s, cols, rows, garbage=False):
        s.cols=cols; s.rows=rows
        s.sgr=s.default_sgr()
        s.blank=(" ",)+s.sgr_key()
        s.g=[[("?" if garbage else " ",)+s.sgr_key() for _ in range(cols)] for _ in range(rows)]
        s.x=s.y=0; s.pw=False; s.insert=False; s.shift=0; s.g1="B"; s.g0="B"; s.ibmpc=False
        s.cursor_visible=True; s.modes=set(); s.scrolls=0; s.unknown=[]
    def default_sgr(s): return dict(fg=None,bg=None,bold=False,italics=False,underline=False,blink=False,reverse=False,strike=False)
    def sgr_key(s): return tuple(s.sgr[k] for k in ("fg","bg","bold","italics","underline","blink","reverse","strike"))
    def garbage(s, cols, rows):
        s.cols=cols; s.rows=rows; s.g=[[("?",)+s.sgr_key() for _ in range(cols)] for _ in range(rows)]; s.x=min(s.x,cols-1); s.y=min(s.y,rows-1); s.pw=False
    def lf(s):
        if s.y==s.rows-1: s.g.pop(0); s.g.append([("<scrolled>",)+s.sgr_key()]*s.cols); s.scrolls+=1
        else: s.y+=1
    def put(s, ch):
        w=max(wcwidth.wcwidth(ch),0)
        if w==0:
            return  # ignore combining for probe
        cs = s.g1 if s.shift else s.g0
        if cs=="0" and ch in DEC: ch=DEC[ch]
        if s.pw: s.x=0; s.lf(); s.pw=False
        if w==2 and s.x==s.cols-1:
            s.g[s.y][s.x]=(" ",)+s.sgr_key(); s.x=0; s.lf()
        cells=[(ch,)+s.sgr_key()] + ([("",)+s.sgr_key()] if w==2 else [])
        if s.insert:
            for c in reversed(cells): s.g[s.y].insert(s.x,c); s.g[s.y].pop()
        else:
            for i,c in enumerate(cells):
                # overwriting half of a wide char blanks the other half
                old=s.g[s.y][s.x+i]
                if old[0]=="" and s.x+i>0 and i==0: s.g[s.y][s.x+i-1]=(" ",)+s.g[s.y][s.x+i-1][1:]
                s.g[s.y][s.x+i]=c
            nxt=s.x+w
            if nxt<s.cols and s.g[s.y][nxt][0]=="": s.g[s.y][nxt]=(" ",)+s.g[s.y][nxt][1:]
        if s.x+w>=s.cols: s.x=s.cols-1; s.pw=True
        else: s.x+=w
    def csi(s, params, final, private):
        ps=[int(p) if p else 0 for p in params.split(";")] if params else []
        p0=ps[0] if ps else 0
        if private:
            for p in ps:
                if final=="h": s.modes.add(p)
                elif final=="l": s.modes.discard(p)
                if p==25: s.cursor_visible=(final=="h")
                if p==1049 and final=="h": s.g=[[s.blank for _ in range(s.cols)] for _ in range(s.rows)]
            return
        s.pw=False if final in "HABCDGKJ" else s.pw
        if final=="H":
            r=(ps[0] if len(ps)>0 and ps[0] else 1); c=(ps[1] if len(ps)>1 and ps[1] else 1)
            s.y=min(max(r-1,0),s.rows-1); s.x=min(max(c-1,0),s.cols-1)
        elif final=="A": s.y=max(0,s.y-max(p0,1))
        elif final=="B": s.y=min(s.rows-1,s.y+max(p0,1))
        elif final=="C": s.x=min(s.cols-1,s.x+max(p0,1))
        elif final=="D": s.x=max(0,s.x-max(p0,1))
        elif final=="K":
            if p0==0:
                for i in range(s.x,s.cols): s.g[s.y][i]=(" ",None,s.sgr["bg"],False,False,False,False,False,False)
                if s.x>0 and s.g[s.y][s.x-1][0] and wcwidth.wcwidth(s.g[s.y][s.x-1][0][0])==2: s.g[s.y][s.x-1]=(" ",)+s.g[s.y][s.x-1][1:]
            else: s.unknown.append(("K",p0))
        elif final=="h" and p0==4: s.insert=True
        elif final=="l" and p0==4: s.insert=False
        elif final=="m": s.do_sgr(ps or [0])
        else: s.unknown.append((params,final))
    def do_sgr(s, ps):
        i=0
        while i<len(ps):
            p=ps[i]
            if p==0: s.sgr=s.default_sgr()
            elif p==1: s.sgr["bold"]=True
            elif p==3: s.sgr["italics"]=True
            elif p==4: s.sgr["underline"]=True
            elif p==5: s.sgr["blink"]=True
            elif p==7: s.sgr["reverse"]=True
            elif p==9: s.sgr["strike"]=True
            elif p==10: s.ibmpc=False
            elif p==11: s.ibmpc=True
            elif 30<=p<=37: s.sgr["fg"]=("i",p-30)
            elif 40<=p<=47: s.sgr["bg"]=("i",p-40)
            elif 90<=p<=97: s.sgr["fg"]=("i",p-90+8)
            elif 100<=p<=107: s.sgr["bg"]=("i",p-100+8)
            elif p==39: s.sgr["fg"]=None
            elif p==49: s.sgr["bg"]=None
            elif p in (38,48):
                k="fg" if p==38 else "bg"
                if ps[i+1]==5: s.sgr[k]=("i",ps[i+2]); i+=2
                elif ps[i+1]==2: s.sgr[k]=("rgb",ps[i+2],ps[i+3],ps[i+4]); i+=4
            else: s.unknown.append(("sgr",p))
            i+=1
    def feed(s, text):
        i=0; n=len(text)
        while i<n:
            c=text[i]
            if c=="\x1b":
                m=re.match(r"\x1b\[(\??)([0-9;]*)([A-Za-z@`])", text[i:])
                if m: s.csi(m.group(2), m.group(3), bool(m.group(1))); i+=m.end(); continue
                m=re.match(r"\x1b([()])(.)", text[i:])
                if m:
                    if m.group(1)=="(": s.g0=m.group(2)
                    else: s.g1=m.group(2)
                    i+=m.end(); continue
                s.unknown.append(("esc",text[i:i+3])); i+=2; continue
            if c=="\r": s.x=0; s.pw=False
            elif c=="\n": s.lf()
            elif c=="\b":
                if s.pw: s.pw=False   # xterm: BS from pending-wrap stays/moves? cancel wrap, stay at last col-1? keep simple
                s.x=max(0,s.x-1)
            elif c=="\x0e": s.shift=1
            elif c=="\x0f": s.shift=0
            else: s.put(c)
            i+=1
