#!/usr/bin/env python3
"""Print the markdown table of seeded changes (seeded/*/meta.json) for DESIGN.md Appendix C."""
import json, os, glob
ROOT = os.path.dirname(os.path.dirname(os.path.abspath(__file__)))
rows = []
for d in sorted(glob.glob(os.path.join(ROOT, "seeded", "*"))):
    mp = os.path.join(d, "meta.json")
    if not os.path.exists(mp):
        continue
    m = json.load(open(mp))
    name = os.path.basename(d)
    notes = ""
    np_ = os.path.join(d, "notes.md")
    if os.path.exists(np_):
        txt = open(np_).read()
        lines = [l.strip("# ").strip() for l in txt.splitlines() if l.strip()]
        notes = (lines[0] if lines else "")[:110]
    det = m.get("detected_by") or {}
    res = m.get("check_results") or {}
    if det:
        by = ", ".join(sorted(det))
        sig = ""
        for k in sorted(det):
            v = det[k].get("violations") or []
            s = [x.strip() for x in v if "signature=" in x]
            if s:
                sig = s[0].split("signature=")[1].split(" ")[0]
                break
        status = f"caught by {by} ({sig})" if sig else f"caught by {by}"
    elif res:
        status = "not detected by " + ", ".join(sorted(res)) + (" — " + m["verdict_note"][:160] + "…" if m.get("verdict_note") else "")
    else:
        status = "not run"
    rows.append((name, m.get("property", "?"), notes.replace("|", "/"), status.replace("|", "/")))
print("| seed | property | change (first line of its notes) | result with the quick tier |")
print("|---|---|---|---|")
for r in rows:
    print("| " + " | ".join(r) + " |")
