#!/usr/bin/env python3
"""Print the prompt for a mutant-writing sub-agent for property <ID> and create its scratch worktree."""
import json, os, subprocess, sys
pid = sys.argv[1]
tag = sys.argv[2] if len(sys.argv) > 2 else "a"
EXTRA = "" if tag == "a" else """
This is a second round: a first round already produced simple one-token operator flips and off-by-one changes in the most obvious functions. Prefer changes of a different nature: stale or shared state (a cache or memo that is not invalidated, a list aliased instead of copied), a wrong order of two statements, a special case dropped from a rarely used option or code path, a helper used by two callers changed for one caller's convenience, two small edits that are each harmless alone. Look at less central files among the anchors too.
"""
if tag.startswith("c"):
    EXTRA = """
This is a third round: earlier rounds already produced operator flips, off-by-one changes, dropped cache invalidations, aliased lists and reordered statements in the central functions. Prefer changes of yet another nature: a live object that is re-queried after one of its options was reassigned (setter forgets part of the update); an interaction of two features that are each fine alone (focus and resize, encoding switch and a cached layout, an in-place edit and a remembered position, a callback that re-enters the API); cleanup or error paths (what happens after an exception was raised and handled once, second start after stop); behaviour that only differs on the second or third repetition of the same step; rarely used public options, subclasses and helper functions among the anchors; boundary values of numeric parameters (0, 1, the exact maximum, negative). Avoid the single most central function of the property if a less obvious site can break it too.
"""
if tag.startswith("d"):
    EXTRA = """
This is a fourth round. Earlier rounds already produced: operator flips and off-by-one changes, dropped cache invalidations, lists aliased instead of copied, reordered statements, setters that forget part of their update, results cached without the encoding in the key, special cases dropped from rarely used options, falsy-value tests (`if x:` instead of `if x is not None:`), and refactorings of the single most central function. Find changes of yet another nature, for example: two methods that must agree (rows() and render(), pack() and render(), a reported position and a drawn one, a getter and the state a key handler uses) where only one of them is changed; state that is restored incorrectly after an exception was raised and caught once; behaviour at the exact maximum or minimum of a numeric range; an early return that skips bookkeeping needed by the *next* call; iteration order or tie-breaking between equal candidates; re-entrancy (a callback calling back into the same object); a default value changed in one of two places; a loop bound that is right for every length but 0 or 1; handling of the last element versus all others. Prefer sites in the less central files among the anchors.
"""
if tag.startswith("e"):
    EXTRA = """
This is a fifth round; the harness has already been shown (and hardened against) operator flips, off-by-one changes, dropped cache invalidations, aliased lists, reordered statements, incomplete setters, caches keyed without the encoding, dropped special cases of rare options, falsy-value tests, disagreeing method pairs (rows/render, pack/render, hit-test/render), stale state after a handled exception, range limits, skipped bookkeeping, and un-rendered call pairs. Look for something it has probably not seen: a sibling class or variant of the obvious one (a subclass, a deprecated alias, the second of two walkers/loops/back-ends, the str path versus the bytes path); class-level or module-level state shared by several instances; mutable default arguments; behaviour that depends on the *order* in which two independent objects are created or used; values that are equal but not identical (or the reverse); negative, zero or very large sizes and counts (hundreds of columns, thousands of items); text made of unusual but legal characters (tabs, carriage returns, zero-width joiners, characters outside the BMP, the last code point); an exception type changed to a sibling type; a return value changed from None/True/False to another falsy/truthy value; cleanup that happens twice or not at all when the same step is repeated. Keep the change small and plausible, and prefer a different file for each of the three changes when the anchors allow it.
"""
if tag.startswith("f"):
    EXTRA = """
This is a sixth round; the harness has been hardened against everything listed for the earlier rounds (operator flips, off-by-one, cache invalidation, aliasing, statement order, incomplete setters, encoding-blind caches, rare options, falsy tests, disagreeing method pairs, state after handled exceptions, range limits, skipped bookkeeping, un-rendered call pairs, sibling classes, shared class/module state, creation order, identity versus equality, sizes above 256, control characters, sibling exception types, changed return values). Try something else again: the unfocused path (focus=False) where only the focused one is usually exercised, or the reverse; the second call of an idempotent operation (render twice, start/stop twice, connect the same thing twice, set the same value twice); inputs of an unusual but accepted *type* (bytearray or memoryview instead of bytes, a str subclass, bool or float where an int is expected, a tuple subclass, a generator where a list is expected, an unhashable or unorderable attribute name); objects that define their own __eq__/__hash__/__bool__/__len__; a subclass overriding one method of a pair; a documented read-only view that is handed out live (or a copy where the live object was promised); mutation of a container while the library iterates over it; two different widgets of the anchors combined in one tree in a way each is fine alone; events with identical time stamps or zero/negative delays; aliases and letter case of encoding names. Keep each change small and plausible, in three different functions.
"""
prop = next(json.loads(l) for l in open('/verif/properties.jsonl') if json.loads(l)['id'] == pid)
wt = f"/tmp/seedwork/wt_{pid}_{tag}"
if not os.path.exists(wt):
    subprocess.run(["git", "-C", "/repo", "worktree", "add", "--detach", wt, "HEAD"], check=True, capture_output=True)
    subprocess.run(["cp", "/repo/urwid/version.py", f"{wt}/urwid/version.py"], check=True)
os.makedirs(f"{wt}/_out", exist_ok=True)
print(f"""You are helping to evaluate a verification harness for the Python library urwid (a console UI toolkit). Your job is to act as a realistic source of regressions: write small, plausible changes to urwid that BREAK one stated semantic property while the library still imports and its existing test suite still passes.

Your scratch copy of the urwid repository is a git worktree at: {wt}
Work ONLY inside that directory. Never touch /repo or /verif (do not even read /verif). Do not commit anything.

The property (this is all you get about what the harness checks):

{json.dumps({k: prop[k] for k in ('id','title','statement','quantifier','why_tests_cant','anchors')}, indent=1, ensure_ascii=False)}

What to produce: THREE independent changes (each on its own, starting from the pristine worktree), written to
  {wt}/_out/m1/ , {wt}/_out/m2/ , {wt}/_out/m3/
each containing:
  - patch.diff : output of `git diff` in the worktree for that change alone (must apply with `git apply` to a pristine checkout)
  - demo.py    : a small self-contained program, run as `cd {wt} && /venv/bin/python _out/mN/demo.py`, that exits 0 (prints PASS) on the pristine tree and exits 1 (prints FAIL and why) with the patch applied; it must demonstrate a violation of the property *as stated* through urwid's public behaviour
  - notes.md   : 5-10 lines: what was changed, why it breaks the property, and what specific condition is needed for the break to manifest

Requirements for each change:
  1. It must look like a realistic mistake or well-meant refactoring/optimisation a developer could make in the code the property is anchored in (off-by-one, wrong comparison, dropped invalidation, reordered statements, stale cached value, wrong variable, missing special case, etc.). Keep it small (typically 1-10 changed lines). Do not add obviously artificial triggers such as `if text == "magic"`.
  2. It must NOT be exposed by ordinary use at once: it should need something specific to manifest - a particular multi-step sequence of operations, an unusual input (wide/zero-width characters, empty containers, negative or reversed indices, degenerate sizes, unusual parameters), a particular interleaving/ordering of events, a fault at a particular point, or two cooperating sites that each look fine alone. The three changes should be in different functions/mechanisms and need different kinds of triggers.
  3. With the change applied, urwid must still import, and the existing test suite must still pass exactly as before. Run it in the worktree with:
       cd {wt} && /venv/bin/python -m pytest -q -p no:cacheprovider --timeout=900 --continue-on-collection-errors 2>&1 | tail -15
     On the pristine tree this gives 106 passed and 4 known failures/errors (urwid.display._win32, _win32_raw_display, glib_loop collection errors and Screen._attrspec_to_escape). A change is acceptable only if the same 106 still pass (the same 4 may keep failing). Check this for each change.
  4. Verify yourself: demo.py passes on pristine (use `git diff > file; git checkout -- urwid; ...; git apply file` to switch - never `git stash`, the stash is shared between worktrees) and fails with the patch. After producing each patch.diff, restore the worktree to pristine (`git -C {wt} checkout -- urwid`) before starting the next one, and leave it pristine at the end.

{EXTRA}
Environment notes: no network. Use /venv/bin/python (Python 3.12; urwid's dependencies are installed there). When running python from the worktree root, `import urwid` picks up the worktree copy (check `urwid.__file__`). In demo.py insert the worktree root at sys.path[0] explicitly: `sys.path.insert(0, os.path.dirname(os.path.dirname(os.path.dirname(os.path.abspath(__file__)))))` before importing urwid, so it works from any cwd. Keep scratch files inside {wt}/_out only.

When done, reply with a short summary per change: file/function changed, the trigger needed, and confirmation of the three verifications (tests still pass, demo passes pristine, demo fails patched).""")
