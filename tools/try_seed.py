#!/usr/bin/env python3
"""Confirm a seeded property-breaking change and run our check against it.

usage: tools/try_seed.py <PID> <dir with patch.diff demo.py notes.md> [--name NAME] [--tier quick] [--keep] [--checks C01,C02]

Steps (all in a fresh scratch worktree of /repo's HEAD under /tmp, removed afterwards):
  1. demo.py passes on the pristine tree
  2. patch applies; pinned baseline suite still passes with it
  3. demo.py fails with the patch
  4. ./check <PID> --tier <tier> with VERIF_REPO=<scratch> -> expect exit 1 and a VIOLATION line
The change is kept as /verif/seeded/<NAME>/ (patch.diff, demo.py, notes.md, meta.json) when 1-3 hold.
"""
import argparse
import json
import os
import shutil
import subprocess
import sys
import time

ROOT = os.path.dirname(os.path.dirname(os.path.abspath(__file__)))


def sh(cmd, cwd=None, env=None, timeout=3600):
    p = subprocess.run(cmd, shell=True, cwd=cwd, env=env, capture_output=True, text=True, timeout=timeout)
    return p.returncode, p.stdout + p.stderr


def main():
    ap = argparse.ArgumentParser()
    ap.add_argument("pid")
    ap.add_argument("src")
    ap.add_argument("--name")
    ap.add_argument("--tier", default="quick")
    ap.add_argument("--checks", default=None, help="comma list of checks to run (default: the property itself)")
    ap.add_argument("--recheck", action="store_true", help="seed already kept: only run the checks again")
    args = ap.parse_args()
    pid = args.pid
    src = os.path.abspath(args.src)
    name = args.name or f"{pid}-{os.path.basename(src.rstrip('/'))}"
    dest = os.path.join(ROOT, "seeded", name)
    scratch = f"/tmp/seedwork/try_{name}_{os.getpid()}"
    os.makedirs("/tmp/seedwork", exist_ok=True)
    rc, out = sh(f"git -C /repo worktree add --detach {scratch} HEAD")
    if rc:
        print(out)
        return 2
    meta = {"property": pid, "name": name, "base_commit": sh("git -C /repo rev-parse --short HEAD")[1].strip(), "ran": []}
    try:
        shutil.copy("/repo/urwid/version.py", f"{scratch}/urwid/version.py")
        os.makedirs(f"{scratch}/_out/m", exist_ok=True)
        shutil.copy(f"{src}/demo.py", f"{scratch}/_out/m/demo.py")
        demo = f"cd {scratch} && /venv/bin/python _out/m/demo.py"
        if not args.recheck:
            rc, out = sh(demo, timeout=600)
            meta["ran"].append({"cmd": "demo.py on pristine", "rc": rc})
            if rc != 0:
                print("REJECT: demo fails on pristine tree\n", out[-1500:])
                return 3
        rc, out = sh(f"git -C {scratch} apply {src}/patch.diff")
        if rc:
            print("REJECT: patch does not apply to current HEAD\n", out[-1500:])
            return 3
        if not args.recheck:
            rc, out = sh(f"{ROOT}/tools/baseline.sh {scratch}", timeout=1800)
            meta["ran"].append({"cmd": "pinned test suite with patch", "rc": rc, "out": out.strip()[-300:]})
            if rc != 0:
                print("REJECT: baseline suite fails with the patch\n", out[-1500:])
                return 3
            rc, out = sh(demo, timeout=600)
            meta["ran"].append({"cmd": "demo.py with patch", "rc": rc, "out": out.strip()[-600:]})
            if rc == 0:
                print("REJECT: demo still passes with the patch")
                return 3
        env = dict(os.environ, VERIF_REPO=scratch)
        results = {}
        for chk in (args.checks.split(",") if args.checks else [pid]):
            t0 = time.time()
            rc, out = sh(f"cd {ROOT} && VERIF_NO_EVIDENCE=1 ./check {chk} --tier {args.tier}", env=env, timeout=7200)
            viol = [l for l in out.splitlines() if l.startswith("VIOLATION") or l.strip().startswith("signature=")]
            results[chk] = {"rc": rc, "wall_s": round(time.time() - t0, 1), "violations": viol[:12]}
            print(f"check {chk} ({args.tier}) on seeded tree: rc={rc}  {'DETECTED' if rc == 1 and viol else 'MISSED'}")
            for l in viol[:8]:
                print("   ", l[:300])
        meta["detected_by"] = {k: v for k, v in results.items() if v["rc"] == 1}
        meta["check_results"] = results
        meta["tier"] = args.tier
        if not args.recheck or not os.path.exists(dest):
            os.makedirs(dest, exist_ok=True)
            for f in ("patch.diff", "demo.py", "notes.md"):
                if os.path.exists(f"{src}/{f}"):
                    shutil.copy(f"{src}/{f}", f"{dest}/{f}")
        old = {}
        if os.path.exists(f"{dest}/meta.json"):
            old = json.load(open(f"{dest}/meta.json"))
        if args.recheck and old:
            old.setdefault("check_results", {}).update(results)
            old["detected_by"] = {k: v for k, v in old["check_results"].items() if v["rc"] == 1}
            old["rechecked_at_commit"] = meta["base_commit"]
            meta = old
        notes = open(f"{src}/notes.md").read() if os.path.exists(f"{src}/notes.md") else ""
        meta.setdefault("needs_to_manifest", notes.strip()[:1500])
        json.dump(meta, open(f"{dest}/meta.json", "w"), indent=1)
        return 0
    finally:
        sh(f"git -C /repo worktree remove --force {scratch}")
        shutil.rmtree(scratch, ignore_errors=True)
        sh("git -C /repo worktree prune")


if __name__ == "__main__":
    sys.exit(main())
