#!/bin/bash
# Re-run every kept seeded change against the current /repo HEAD with the current checks.
# usage: tools/recheck_all.sh [pattern]   -> prints one line per seed: DETECTED / MISSED / REJECT
cd "$(dirname "$0")/.."
for d in seeded/${1:-*}; do
  n=$(basename "$d"); pid=${n%%-*}
  out=$(/venv/bin/python tools/try_seed.py "$pid" "$d" --name "$n" --recheck 2>&1 | grep -E "DETECTED|MISSED|REJECT" | head -1)
  echo "$n: ${out:-ERROR}"
done
