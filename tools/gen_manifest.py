#!/usr/bin/env python3
"""Regenerate /verif/MANIFEST.json from the table below (keeps it valid at all times)."""
import json
import os

ROOT = os.path.dirname(os.path.dirname(os.path.abspath(__file__)))

MC = "model_checking"
FE = "fault_enumeration"
CHECKS = {
    # id: (category, technique, text, note, design_ref)
    "C16": (
        MC,
        "explicit-state BFS over operation histories on the real lists to a fixed point under a length cap, lock-step reference list",
        "Every reachable (class, contents, focus) state with list length <= cap is visited and every operation of the alphabet "
        "(all index/slice forms incl. negative, reversed, extended steps) is executed in each on the real MonitoredList/"
        "MonitoredFocusList/SimpleListWalker/SimpleFocusListWalker and compared with a built-in list plus tracked focus object; sort with a key and with a raising key; "
        "beyond the cap: 300- and 1200-item lists with a focus index above 256, and pairs of lists whose modified listeners change the other list (every pair of mutators).",
        "Also plain / reversed / keyed sort() of items that tie in their ordering, for every rank vector of 2..4 items and every focus. "
        "Trusted: CPython list semantics as reference; unique-token items; bound = list length cap (4 quick / 6 thorough).",
        "DESIGN.md §4 C16",
    ),
    "C14": (
        MC,
        "explicit-state BFS over connect/disconnect/emit/kill histories on the real urwid.signals with behaviour-carrying handlers, lock-step reference connection list",
        "All histories up to the depth bound over 32 connect variants (handler behaviour x argument style), disconnect by key/args, emit on "
        "three (sender, name) pairs, weak-argument death and sender drop are executed on the real Signals object; each emit is judged "
        "against an ordered list of live connections with per-emit bookkeeping of what changed during the emit. One sender is falsy (an empty list walker); two start configurations "
        "(fresh senders; senders that were disconnected-from before anything was connected), shared handler tables detected when a state is built. "
        "Registration: every class shape with <= 2 bases out of {declares a, declares b, metaclass only, plain mixin} x own signals x one more subclass level; a name is accepted iff the MRO declares it, and the base classes keep their own sets.",
        "Trusted: CPython refcount semantics for weakref callbacks; bound = depth 4/5, <= 3/4 live connections, recursion depth 1.",
        "DESIGN.md §4 C14",
    ),
    "C18": (
        MC,
        "bounded-exhaustive enumeration of the complete finite colour-description domain at every depth against independent xterm tables and a nearest-entry reference",
        "Every colour description (names, h0..h255, #000..#fff, g0..g100, g#00..g#ff), every style subset/order, a #rrggbb lattice, all short "
        "malformed strings and all colour pairs are constructed at depths 1/16/88/256/2^24 on the real AttrSpec; parse result, round trip, "
        "hash, RGB, minimal depth and error type are judged against tables written independently from xterm's sources.",
        "Trusted: the reference xterm tables in mc/checks/c18.py; #rrggbb is a lattice (9^3 quick / 33^3 thorough + palette steps), not all 2^24 values.",
        "DESIGN.md §4 C18",
    ),
    "C11": (
        MC,
        "bounded-exhaustive enumeration: every Unicode scalar value, and every short string over class-representative tokens with boundaries known by construction, x all boundary pairs, columns, trim ranges and encodings",
        "All 1 112 064 scalar values are pushed through the str and UTF-8 byte paths; every string of <= 5/6 tokens over 8 str classes, 7 wide-mode "
        "and 5 narrow-mode byte tokens is checked on every (start, end) boundary pair, every target column and every trim range against the "
        "per-character (offset, width) list the string was built from; DEC line-drawing translation is checked per character in 4 target encodings; invalid byte strings (incl. forms beyond "
        "U+10FFFF) must not raise and width must agree with position; set_encoding(e1); use; set_encoding(e2) is compared with a fresh interpreter that only saw e2, for all 16x16 pairs.",
        "Trusted: wcwidth package as the Unicode width table; token widths for wide/narrow byte modes (pair = 2 columns, byte = 1).",
        "DESIGN.md §4 C11",
    ),
    "C03": (
        MC,
        "bounded-exhaustive enumeration of all short texts x widths x wrap modes x alignments x encodings through the real layout and Text.render, judged by an exact greedy reference ('any'), legality rules ('space') and column-window references (clip/ellipsis)",
        "Every string of <= 5/7 characters over [a, b, space, newline, double-width, combining] (and the encodable subsets for euc-jp / iso-8859-1), "
        "as str and as bytes, at every width 1..4/6, wrap mode and alignment: the layout structure is read with an own parser (order, once, "
        "segment widths, hidden characters, fit, alignment), rows() is compared with rendered rows, pack(()) with render(()), and rendered rows with the reference; "
        "plus an alphabet with a control character and a GBK configuration whose trail bytes reach into ASCII.",
        "Also the same text as two-run markup, and a double-byte encoding named in upper case. "
        "Trusted: mc/refs/widths.py cell model (wcwidth); zero-width characters are not compared inside rendered rows.",
        "DESIGN.md §4 C03",
    ),
    "C02": (
        MC,
        "bounded-exhaustive closure over canvas expression trees (leaves -> unary -> binary -> unary -> binary-with-leaves -> unary), every real canvas compared cell-for-cell with a grid-of-cells reference",
        "17 leaf canvases (wide/combining/DEC content, run-length attributes, cursor, pop-up, solid) are closed under every unary operation, every "
        "binary operation over a pool and a third layer with leaves; each result's text, attribute, charset flag, size and coordinates are compared "
        "with mc/refs/grid.py; operands are re-read, finalized canvases must refuse mutation, and content_delta applied to the old rows must give the new content.",
        "Also chains that hand fill_attr_apply the same dictionary object repeatedly. "
        "Trusted: mc/refs/grid.py; expression depth <= 3 layers; delta is demanded on aligned geometries only (misaligned ones are a listed known finding).",
        "DESIGN.md §4 C02",
    ),
    "C05": (
        MC,
        "bounded-exhaustive enumeration of byte streams x all cut sets x deviation-bounded time-out firing, through the real Screen.parse_input under a fake event loop, against an independent reference decoder",
        "Every byte string over a 24-byte alphabet up to the length bound in three encoding modes, every documented sequence / mouse / cursor report / "
        "multi-byte character (alone, doubled, next to every alphabet byte, with single-byte substitutions) is decoded whole and in every fragmentation, "
        "with the completion alarm firing or not after each cut, and with one wake-up that carries no bytes after any cut; chunks go through the real get_available_raw_input; "
        "events, raw-byte accounting and alarm hygiene are compared with mc/refs/keyref.py. UTF-8 forms the codec rejects (over-long, surrogates, beyond U+10FFFF) included.",
        "Also the synchronous get_input() path: every schedule of wake-ups delivering the next chunk and/or a window resize (throttling loop included), and codes handed to parse_input as bytearray / tuple. "
        "Trusted: golden key table frozen from the pinned tree; xterm ctlseqs for mouse/CPR; time-outs fire only between reads; bounds in evidence.",
        "DESIGN.md §4 C05",
    ),
    "C15": (
        MC,
        "explicit-state BFS over byte-token histories on the real TermCanvas: exact-state dedup for robustness invariants; (emulator, reference VT100) pair states compared in lock-step for faithfulness; exhaustive scrollback window sweep",
        "~400 byte tokens (all CSI finals x parameter forms, OSC, charset, C0/C1, valid/invalid UTF-8, incomplete sequences) + resizes + scrollback view "
        "operations are explored breadth-first with deduplication on the complete emulator state; every state is checked for grid shape, cursor/region "
        "bounds, content() shape, reply grammar and chunking independence; on the VT100 subset the emulator is compared after every token with "
        "mc/refs/vt_ref.py (accepting DEC/xterm or Linux-console behaviour where the family disagrees). Scrollback sweep: every scroll amount, then every kind of resize while scrolled back.",
        "Also signed scroll_buffer amounts. "
        "Trusted: mc/refs/vt_ref.py; sizes <= 9x3 / 2x4; depth bounds in evidence; Terminal widget (child process) not driven, only TermCanvas.",
        "DESIGN.md §4 C15",
    ),
    "C07": (
        MC,
        "explicit-state BFS over event histories on real ListBoxes with three walker kinds, every reached state rendered and compared with a slice-of-concatenation oracle",
        "From every initial (walker kind, item list, box size) the BFS applies keys, button-1 presses on every row, wheel events, set_focus with every "
        "coming_from, set_focus_valign, resizes and walker insert/append/delete/replace; states are deduplicated on the complete ListBox state; each state "
        "is rendered (inside the step, as the main loop does) and its rows must be a contiguous slice of the items' own renderings with focus/cursor visible and blanks only at the bottom. "
        "Also: items changing their height in place, set_focus requests that must hold after the render, positions -1 / len rejected, and pairs (set_focus / set_focus_valign, walker edit or resize) "
        "with no render in between.",
        "Also rows that compare equal to each other and a ListBox built from a one-shot iterable. "
        "Trusted: unique row texts make the slice decidable; width fixed at 4 columns; quick depth 2, thorough depth 3 without and depth 2 with the pair operations; lists of <= 2/3 items + 6 longer ones.",
        "DESIGN.md §4 C07",
    ),
    "C19": (
        MC,
        "bounded-exhaustive enumeration of option lists x dividers x minimum widths x focus x available sizes (Columns, box Pile) and of alignment x size kind x minimum x margins x available (Padding, Filler, Overlay) and GridFlow geometries, with recording self-painting probe children; every allocation judged by arithmetic clauses and by where each child is actually drawn",
        "Every Columns option list of length <= 3 (thorough: + length 4 over 7 options) over given/packed-fixed/packed-flow/weighted/box columns x dividechars 0..2 x "
        "min_width 1..3 x every focus x available 1..12/20 in flow and box render, plus the same Columns object re-queried across all sizes and focus positions; every "
        "box Pile of <= 3/4 items; Padding/Filler over 19 size kinds x 9 alignments x minimum x margins 0..2 x available 1..12/18; Overlay over width kind x height kind "
        "x aligns x margins x sizes; GridFlow 1..5/7 cells x cell width x separators x align x available (also one cell with its own width, and cell_width reassigned); float weights; "
        "options reassigned on a live Padding / Overlay / Columns / Pile / GridFlow compared with a fresh container built with the new options.",
        "Also a box Pile measured and rendered in focus whose packed focus item grows while selected. "
        "Trusted: mc/probe.py probes (constant natural sizes); weakest readings listed in the evidence assumptions; zero weights / zero given sizes excluded by the statement's precondition.",
        "DESIGN.md §4 C19",
    ),
    "C01": (
        MC,
        "bounded-exhaustive enumeration of a sizing-typed widget-tree grammar (leaves -> every constructor over every fitting leaf -> every constructor over one representative per (constructor, sizing set)) x every size of every reported sizing mode x focus x three encodings; each render judged against the widget's own rows()/pack() and a reference width model",
        "~80 leaves (Text over text classes x wrap x align, Edit at cursor positions, buttons, Divider, ProgressBar, SolidFill, BigText, BarGraph, ListBox, empty containers), "
        "~75 constructors (Padding/Filler option menus, decorations, LineBox variants, BoxAdapter, Pile/Columns given/pack/weight/box_columns, GridFlow, Frame parts, Overlay kinds, "
        "ListBox, Scrollable, ScrollBar), two levels of nesting, cols {1,2,3,5}/{1..6,9} x rows {1,2,4}/{1,2,3,4,6}, focus, utf8 / euc-jp / iso-8859-1: size, rows()/pack() agreement, "
        "row count, per-row column width, cursor containment.",
        "Also a ScrollBar scrolled to the end over short words and a given-columns row with the cursor in its last column. "
        "Trusted: mc/refs/widths.py; slot typing by reported sizing(); trees for which urwid itself warns are skipped; failures are attributed to the smallest failing subtree; "
        "~100 listed known findings (degenerate sizes, fixed/flow modes of Overlay/Padding/LineBox, empty containers).",
        "DESIGN.md §4 C01",
    ),
    "C09": (
        MC,
        "bounded-exhaustive enumeration of typed trees with self-painting recording leaves x the first fitting sizes of a size lattice (fit precondition verified on the canvas composition tree) x every cell: press and move_cursor_to_coords on every cell, judged against what the rendered canvas shows at that cell",
        "51 container/decoration constructors (Pile, Columns, Frame parts, Filler, Padding, Overlay box/flow, BoxAdapter, LineBox, AttrMap, WidgetPlaceholder, GridFlow, ListBox incl. "
        "states after set_focus_valign / body.set_focus / deletion) over 9 leaf kinds (painting probes, row-/column-refusing probes, unselectable probe, multi-line Edit, Edit with a "
        "two-row caption, SelectableIcon) and every constructor over every constructor for 3/6 leaves; 3/6 fitting sizes per tree and mode; every cell: cursor-agrees, hit, move-iff, move-row; "
        "per tree and size one live tree walked over every selectable leaf (moves, then presses) with all canvases alive and the cache warm.",
        "Also a cursor-less top widget over a form (Overlay bottom) and an Edit subclass overriding get_cursor_coords. "
        "Trusted: mc/probe.py painting (cross-checked against the bounding boxes); fit = every leaf rendered once, fully visible, no canvas trimmed on the way, LineBox >= 3x3; "
        "trees whose path contains a widget without move_cursor_to_coords (Frame, Overlay, ListBox) are outside the quantifier for the move clauses.",
        "DESIGN.md §4 C09",
    ),
    "C08": (
        MC,
        "explicit-state BFS over histories of keys, button-1 presses on every cell, focus_position / set_focus_path assignments (valid and invalid) and contents mutations on nested container fixtures with recording probe leaves; focus invariants on every state, input-routing clauses on every transition",
        "21 fixtures (Pile flow/box, Columns, Pile(Columns), Columns(Pile), Pile(Pile), GridFlow, Frame, Frame(Columns header, ListBox), Overlay, ListBox, ListBox(Pile), empty and all-unselectable "
        "containers); operations: 10 keys, presses on every cell, focus_position for every valid position and -1/len/'bogus' on every container, focus-path round trip and restore, contents "
        "insert/assign/replace-all/delete/slice-delete (reversed, extended)/clear, walker insert/delete, Frame header/footer set/remove; depth 3/4 with dedup on the complete focus state; every "
        "state rendered (as the main loop does after each input); pairs (assignment or deletion, then press or arrow key) without a render in between, compared with the run that renders in between.",
        "Also += on the live contents list and a saved path restored through an iterator; the raw focus index of an emptied container is part of the state key. "
        "Trusted: mc/probe.py; 'arrows move focus only onto selectable children' judged on Pile/Columns/GridFlow/Frame; at most 2 new widgets per history.",
        "DESIGN.md §4 C08",
    ),
    "C10": (
        MC,
        "explicit-state BFS over key / click histories on real Edit widgets in lock-step with a list-of-characters reference editor (own preferred-column tracking; row structure read from the widget's layout with an own parser), plus BFS over the numeric variants against a single-row reference editor modulo trimmed leading zeros",
        "~330/850 Edit configurations (caption, initial text incl. wide/combining/newline, width, wrap space/any/clip, alignment, multiline, allow_tab, mask, str and UTF-8 bytes) x 15 keys + a "
        "click on every cell, depth 3/4, text length <= 6, dedup on (text, offset, preferred column, view shift): text/offset model, offset range and character boundary, cursor cell, click "
        "target, change/postchange signals, unhandled keys; IntEdit / IntegerEdit / FloatEdit depth 4/6: alphabet invariant, model modulo leading zeros.",
        "The observer is connected twice and disconnected once. "
        "Trusted: layout row structure (C03), mc/refs/widths.py; up/down accept any position at minimal distance from the preferred column (and the start of a combining cluster).",
        "DESIGN.md §4 C10",
    ),
    "C20": (
        MC,
        "explicit-state BFS over histories of scrolling keys, wheel events, set_scrollpos (positive/negative), resizes, content changes and unrendered two-input sequences on Scrollable / ScrollBar fixtures with unique content rows; every state rendered and compared with the wrapped widget's own full rendering; exhaustive set_scrollpos sweeps for thumb monotonicity",
        "7 contents (Text of 1/3/7 lines, wrapping Text, Pile with Edit, Pile of icons, fixed BigText) x {Scrollable alone, ScrollBar right/left width 1/2} x 7 sizes incl. 1-row, 1-column "
        "and bar-wide views; ops: 7 keys, wheel up/down, 7 positions, resize to every size, content longer/shorter, and pairs of inputs without a render in between; depth 2/3; clauses: slice, "
        "range, reports-p, bar-iff-overflow, bar geometry, thumb-top-iff-p0, thumb-monotone (complete sweep), no-double-use; scrollbar_width / scrollbar_side reassigned and the wrapped widget replaced on the "
        "live ScrollBar; a second BFS (depth 3/4) over ScrollBar(ListBox): keys, wheel, resize, items growing / shrinking in place, walker append / pop.",
        "Also a flow-only form whose focused field grows by a help line, and list walkers whose integer positions are keys (10, 20, ...) rather than counts. "
        "Trusted: unique rows identify p; distinctive thumb/trough characters; weakest readings in the evidence assumptions.",
        "DESIGN.md §4 C20",
    ),
    "C06": (
        MC,
        "explicit-state BFS over histories of observations (render / rows at several sizes and focus values), public mutators, input handling, content edits and release + garbage collection of handed-out canvases, each history compared observation by observation with a from-scratch twin run that empties the canvas cache before every observation",
        "7 fixtures (a Frame of icons that do not invalidate themselves; Frame/ListBox/Columns/AttrMap; Filler/Pile/Columns/Padding/LineBox/GridFlow/placeholder; Overlay/Frame/placeholder; ScrollBar/Scrollable/Pile; nested "
        "Padding/AttrMap/LineBox; same widget twice + no_cache widget + ListBox over a signal-less walker), pre-rendered twice with both canvases alive; 8-19 mutators per fixture, 3-4 "
        "observation points, rows(), drop oldest/newest/all + gc; depth 3/4; dedup on (widget state, live cache entries and dependency edges, canvases held); clauses same-render, "
        "same-rows, handed-out-immutable, cached-canvas-immutable (every canvas found in the cache keeps the content it had when first seen).",
        "Also containers that are empty (falsy) when their ancestors are first cached. "
        "Trusted: CPython refcounting makes release deterministic; the twin shares per-widget layout caches' behaviour; plain attribute assignment without a setter (Padding.left) is not a public mutator.",
        "DESIGN.md §4 C06",
    ),
    "C17": (
        MC,
        "bounded-exhaustive enumeration in three parts through the real code: nested markup shapes over unique glyphs x width x wrap x align x encoding judged per displayed cell; every small attribute mapping at each level of AttrMap / AttrWrap / fill_attr_apply chains judged against map composition; every palette entry form x depth x bright-is-bold x registration order drawn by the raw Screen and decoded by the reference terminal",
        "part 1: ~600/2500 markup shapes (1-3 items, nesting <= 3, narrow/wide/combining/newline/space/empty pieces, tags None/x/y) x widths x 4 wraps x 3 aligns x utf8/euc-jp/iso-8859-1: "
        "innermost tag per glyph, padding None, no attribute run cutting a character, text intact; part 2: all mappings touching <= 2 keys of {None,x,y,z}: 1 level x 4 focus maps x both "
        "render orders, all pairs at 2 levels, 30^3 at 3 levels, sibling canvases, direct fill_attr_apply (caller's mapping untouched); part 3: ~400/900 palette entries + aliases + undefined x "
        "depths 1/16/88/256/2^24 x bright-is-bold x 5 orders of register_palette vs set_terminal_properties.",
        "Also incremental frames after each palette name. "
        "Trusted: mc/refs/vt_ref.py SGR decoding; AttrSpec fields (C18); layout structure (C03) for the exact padding judgement on untrimmed lines.",
        "DESIGN.md §4 C17",
    ),
    "C04": (
        MC,
        "exhaustive enumeration of draw histories on the real raw display Screen whose output is interpreted by a reference VT100/xterm terminal: every frame of the alphabet painted on a cleared screen, every ordered pair of a frame subset drawn consecutively (incremental redraw), draw-clear-draw / draw-same-draw / draw-resize-draw histories, in 20 configurations; every terminal cell compared with the canvas cell after every draw",
        "rows over 14 cell kinds (blank, letter, double-width, DEC line-drawing x default / palette names incl. one whose mono and high-colour variants add standout/underline / undefined name "
        "/ AttrSpec objects) at 3x2 (thorough: 4x2, 2x1, 3x3), cursor none/top-left/bottom-right; depth 1/16/88/256/2^24 x back_color_erase x utf-8/iso-8859-1; clauses cells, attrs (visible part "
        "for blanks), cursor, no-scroll, unknown-sequence, insert-mode-off; HTML back-end: html-text, html-one-cursor, no raise.",
        "Also a top-level SolidCanvas before/after/between text frames and the palette registered from a one-shot generator. "
        "Trusted: mc/refs/vt_ref.py (pending wrap, IRM, SO/SI + G1 designation, EL with bce, SGR); expected renditions via c17.want_for/rendition; a resize makes terminal contents unknown.",
        "DESIGN.md §4 C04",
    ),
    "C13": (
        MC,
        "deviation-bounded schedule exploration of the six real event loops under virtual clocks / selectors / pollers / reactors (every wait is a choice point; trio: every scheduler tick), all programs of a small grammar, each execution judged by one contract acceptor over the recorded event trace",
        "programs: 3 alarms registered out of due order, 2 watches readable together, 0 or 2 idle callbacks, sentinel alarm; callback bodies remove/add alarms, watches and idle callbacks "
        "(incl. add-then-remove a zero-delay alarm, add an idle callback from a callback), raise ExitMainLoop or Boom; every single body in every slot, every (quick: every third) pair, "
        "thorough: a 6^3 lattice of triples; x select/asyncio/tornado/twisted/zmq/trio x all schedules with <= 2/3 deviations (trio 1/2); clauses alarm-once, alarm-not-early, alarm-order, "
        "alarm-removed-never-runs, remove-true-then-false, alarm-eventually, watch-only-while-registered, watch-eventually, idle-after-callback, idle-removed-never-runs, exit-silent, "
        "raise-once (incl. a second run), only-callback-exceptions, terminates. Part 2: every registration order of up to 7/8 alarms with distinct due times, no removal / each alarm removed "
        "before run() / from the earliest other alarm's callback (firing order, times, remove results), callbacks being functions, functools.partial objects and callable instances. Part 3: three watches "
        "(descriptors 0, 8, 9) and two idle callbacks, every subset removed before run(). Part 4: two asyncio / tornado loop objects over one underlying loop. Part 5: SystemExit / KeyboardInterrupt / an "
        "application BaseException raised from alarm, watch and idle callbacks on every loop. A second run() after Boom on select, asyncio, zmq, tornado (no second raise, idle callbacks still served).",
        "Trusted: mc/virt/loops.py environments behave as a legal OS; idle slack 12 ms virtual; trio time tolerance 1 ms (all other loops run on the exact virtual clock); trio explored through its batch-reversal coin only.",
        "DESIGN.md §4 C13",
    ),
    "C12": (
        FE,
        "fault enumeration over scripted MainLoop sessions on a real pty: one clean session per configuration counts the callback-site invocations, then one session per invocation index and exception kind raises exactly there; every session runs in its own forked process under a watchdog, the display output is decoded by the reference terminal",
        "8 scripts (keys; three keys in one read; mouse press+release, alarm; resize, pipe write, watched descriptor; an escape sequence split over two reads then a pause; the application replacing "
        "loop.widget; the screen stopped and restarted from a key handler; a key handler replacing loop.widget with later keys of the same read pending) x select/asyncio/tornado/twisted/trio/zmq x raw Screen with and without "
        "hook_event_loop x pop_ups x bracketed paste + focus reporting x default / custom SIGWINCH, SIGTSTP, SIGCONT handlers; sites: input filter, keypress, mouse_event, unhandled_input, alarm, "
        "watch, pipe, render in the idle redraw; kinds: ExitMainLoop, Exception subclass, SystemExit; clean-run clauses order, redraw-before-wait; fault clauses exit-clean, propagates (same "
        "object), screen-stopped, modes-restored, termios-restored, signals-restored, returns; clean-run clauses also input-exact and topmost-widget. The output file is modelled as fully buffered.",
        "Trusted: mc/refs/vt_ref.py mode tracking; sessions use real loops and real time (4 s watchdog); signals delivered synchronously; evidence digest is not re-executed (timing).",
        "DESIGN.md §4 C12",
    ),
}

PENDING_REASON = "check not built yet in this round (see DESIGN.md Appendix B build order); no claim is made"


def main():
    props = [json.loads(l)["id"] for l in open(os.path.join(ROOT, "properties.jsonl"))]
    checks = []
    for pid in props:
        if pid not in CHECKS:
            continue
        cat, tech, text, note, ref = CHECKS[pid]
        checks.append(
            {
                "property_id": pid,
                "quick_cmd": f"./check {pid} --tier quick",
                "thorough_cmd": f"./check {pid} --tier thorough",
                "evidence_file": f"/verif/evidence/{pid}.json",
                "replay_cmd_template": f"./check {pid} --replay {{path}}",
                "engine": "mc",
                "level_claimed": {"category": cat, "text": text, "design_ref": ref},
                "level_note": note,
                "technique": tech,
            }
        )
    man = {
        "version": 1,
        "setup_cmd": "true",
        "hooks": {
            "guard": "URWID_VERIF",
            "enable": "./check exports URWID_VERIF=1; no source hooks exist in /repo (all seams are constructor parameters, "
            "instance attributes or module globals), checks import urwid from /repo's working tree directly",
            "baseline_off_cmd": "cd /repo && env -u URWID_VERIF /venv/bin/python -m pytest -ra -q -p no:cacheprovider --timeout=900 --continue-on-collection-errors",
            "source_commits": [],
            "add_only": True,
        },
        "engines": [
            {
                "name": "mc",
                "path": "/verif/mc",
                "serves_properties": [c["property_id"] for c in checks],
                "kind_free_text": "hand-written Python explicit-state / deviation-bounded / bounded-exhaustive explorer "
                "running the real urwid code from /repo with lock-step reference models",
            }
        ],
        "checks": checks,
        "notes": "All checks: ./check <ID> --tier quick|thorough; VERIF_SEED only permutes shard order and picks the "
        "replay-determinism slice. known_findings.json lists genuine defects (open = reported as KNOWN-FINDING, fixed = documentation).",
        "not_applicable": [{"property_id": p, "reason": PENDING_REASON} for p in props if p not in CHECKS],
    }
    with open(os.path.join(ROOT, "MANIFEST.json"), "w") as f:
        json.dump(man, f, indent=1)
        f.write("\n")
    try:
        import jsonschema

        jsonschema.validate(man, json.load(open("/root/.vp/MANIFEST.schema.json")))
        print("MANIFEST.json valid;", len(checks), "checks")
    except ImportError:
        print("MANIFEST.json written (jsonschema not available);", len(checks), "checks")


if __name__ == "__main__":
    main()
