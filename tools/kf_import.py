#!/usr/bin/env python3
"""Turn the reviewed violation classes of one run into known_findings.json entries.

usage: tools/kf_import.py <PID> <rules.py> <replay_dir> [--apply]

rules.py defines RULES = [(regex on the signature, group description)], written by hand after a class of
violations has been reproduced and judged a genuine urwid defect.  Every replay file in <replay_dir>
whose signature matches a rule becomes one open entry (signature, group description + the concrete
minimal case and what was observed); signatures that match no rule are printed for manual triage.
Nothing is ever added at check run time; this tool is run by hand and its output committed.
"""
import importlib.util
import json
import os
import re
import sys

ROOT = os.path.dirname(os.path.dirname(os.path.abspath(__file__)))


def main():
    pid, rules_py, rdir = sys.argv[1:4]
    apply = "--apply" in sys.argv
    spec = importlib.util.spec_from_file_location("rules", rules_py)
    mod = importlib.util.module_from_spec(spec)
    spec.loader.exec_module(mod)
    path = os.path.join(ROOT, "known_findings.json")
    data = json.load(open(path))
    have = {e["signature"] for e in data["findings"] if e.get("property") == pid and e.get("status", "open") == "open" and "signature" in e}
    added = 0
    unmatched = []
    for fn in sorted(os.listdir(rdir)):
        rec = json.load(open(os.path.join(rdir, fn)))
        sig = rec["signature"]
        if sig in have:
            continue
        for rx, text in mod.RULES:
            if re.search(rx, sig):
                data["findings"].append({
                    "property": pid,
                    "status": "open",
                    "signature": sig,
                    "group": text,
                    "what": f"{text} — e.g. {rec['detail'][:300]}",
                    "case": rec["case"],
                })
                have.add(sig)
                added += 1
                break
        else:
            unmatched.append((sig, rec["detail"][:200]))
    print(f"{added} new entries; {len(unmatched)} signatures match no rule")
    for sig, d in unmatched:
        print("  UNMATCHED", sig, "::", d)
    if apply and added:
        with open(path, "w") as f:
            json.dump(data, f, indent=1, ensure_ascii=True)
            f.write("\n")
        print("known_findings.json updated")


if __name__ == "__main__":
    main()
