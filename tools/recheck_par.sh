#!/bin/bash
# Re-run every kept seeded change (own property's quick check) with N seeds at a time.  usage: tools/recheck_par.sh [N] [pattern]
cd "$(dirname "$0")/.."
N=${1:-3}
ls seeded | grep -E "${2:-.}" | xargs -P "$N" -I{} bash -c 'n={}; pid=${n%%-*}; out=$(/venv/bin/python tools/try_seed.py "$pid" "seeded/$n" --name "$n" --recheck 2>&1 | grep -E "DETECTED|MISSED|REJECT" | head -1); echo "$n: ${out:-ERROR}"'
