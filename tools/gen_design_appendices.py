#!/usr/bin/env python3
"""Regenerate Appendices C (seeded changes) and E (fix commits) at the end of DESIGN.md."""
import os, subprocess
ROOT = os.path.dirname(os.path.dirname(os.path.abspath(__file__)))
p = os.path.join(ROOT, "DESIGN.md")
s = open(p).read()
marker = "## 9. Appendix C — seeded changes and the checks that catch them"
if marker in s:
    s = s[: s.index(marker)].rstrip() + "\n\n"
table = subprocess.run(["/venv/bin/python", os.path.join(ROOT, "tools", "gen_seed_table.py")], capture_output=True, text=True).stdout
fixes = subprocess.run(["git", "-C", "/repo", "log", "--reverse", "--format=* `%h` %s", "3840344..HEAD"], capture_output=True, text=True).stdout
D = open(os.path.join(ROOT, "tools", "appendix_d.md")).read()
s += marker + "\n\n" + (
    "Written by independent sub-agents that saw only the property text (never /verif); each was confirmed in a scratch worktree:\n"
    "the demo passes on the pristine tree, the 106 pinned tests still pass with the patch, the demo fails with it. The last column\n"
    "is the verdict of the property's own quick check run with `VERIF_REPO=<scratch tree>` (`tools/try_seed.py`, re-run with\n"
    "`tools/recheck_all.sh`); patches are kept rebased onto the current HEAD of /repo.\n\n"
) + table + "\n" + D + "\n## 11. Appendix E — fix commits in /repo (oldest first)\n\n" + fixes
open(p, "w").write(s)
print("appendices regenerated")
