#!/bin/bash
# Run the pinned test suite of a urwid tree (default /repo) and report whether all 106 baseline tests pass.
# usage: tools/baseline.sh [repo_dir]
REPO=${1:-/repo}
OUT=$(mktemp /tmp/baseline.XXXXXX.xml)
( cd "$REPO" && env -u URWID_VERIF PYTHONPATH="$REPO" /venv/bin/python -m pytest -ra -q -p no:cacheprovider --timeout=900 --continue-on-collection-errors --junitxml="$OUT" >/tmp/baseline.$$.log 2>&1 )
/venv/bin/python - "$OUT" <<'PY'
import sys, json, xml.etree.ElementTree as ET
base=set(json.load(open('/root/.vp/BASELINE.json'))['stable_pass'])
root=ET.parse(sys.argv[1]).getroot()
ok=set()
for tc in root.iter('testcase'):
    bad=any(ch.tag in('failure','error','skipped') for ch in tc)
    name=f"{tc.get('classname','')}::{tc.get('name','')}"
    if not bad: ok.add(name)
missing=sorted(base-ok)
print(f"baseline: {len(base&ok)}/{len(base)} stable tests pass")
for m in missing[:20]: print("  MISSING/FAILED:", m)
sys.exit(1 if missing else 0)
PY
rc=$?
rm -f "$OUT" /tmp/baseline.$$.log
exit $rc
