"""Shared machinery: collectors, parallel task runner, BFS history explorer, watchdog."""
from __future__ import annotations

import collections
import concurrent.futures as cf
import hashlib
import json
import multiprocessing
import os
import signal
import sys
import time
import traceback
import typing

JOBS = int(os.environ.get("VERIF_JOBS", "0")) or min(16, os.cpu_count() or 1)
SEED = int(os.environ.get("VERIF_SEED", "0") or 0)


class WatchdogTimeout(BaseException):
    """Raised inside a case that runs longer than its budget (BaseException: urwid must not swallow it)."""


def _on_alarm(signum, frame):
    raise WatchdogTimeout()


class watchdog:
    """with watchdog(seconds): ...   (per-case wall-clock budget, main thread of a worker only)"""

    def __init__(self, seconds: float):
        self.seconds = seconds

    def __enter__(self):
        self.old = signal.signal(signal.SIGALRM, _on_alarm)
        signal.setitimer(signal.ITIMER_REAL, self.seconds)
        return self

    def __exit__(self, *exc):
        signal.setitimer(signal.ITIMER_REAL, 0)
        signal.signal(signal.SIGALRM, self.old)
        return False


def h64(obj) -> int:
    return int.from_bytes(hashlib.blake2b(repr(obj).encode("utf-8", "surrogatepass"), digest_size=8).digest(), "big")


def digest(obj) -> bytes:
    return hashlib.blake2b(repr(obj).encode("utf-8", "surrogatepass"), digest_size=16).digest()


def jsonable(o):
    """Best-effort conversion of a case to JSON (tuples->lists, bytes->{'b': hex}, others->repr)."""
    if isinstance(o, (str, int, float, bool)) or o is None:
        return o
    if isinstance(o, bytes):
        return {"__bytes__": o.hex()}
    if isinstance(o, (list, tuple)):
        return [jsonable(x) for x in o]
    if isinstance(o, (set, frozenset)):
        return {"__set__": sorted((jsonable(x) for x in o), key=repr)}
    if isinstance(o, dict):
        return {str(k) if not isinstance(k, str) else k: jsonable(v) for k, v in o.items()}
    return {"__repr__": repr(o)}


def unjson(o):
    """Inverse of jsonable for the forms checks use (lists become tuples)."""
    if isinstance(o, list):
        return tuple(unjson(x) for x in o)
    if isinstance(o, dict):
        if "__bytes__" in o and len(o) == 1:
            return bytes.fromhex(o["__bytes__"])
        if "__set__" in o and len(o) == 1:
            return frozenset(unjson(x) for x in o["__set__"])
        return {k: unjson(v) for k, v in o.items()}
    return o


class Ctx:
    """Collector for one task (lives in the worker, merged in the parent)."""

    SAMPLE_CAP = 4

    def __init__(self, pid: str = "?", tier: str = "quick"):
        self.pid = pid
        self.tier = tier
        self.viol: dict[str, dict] = {}
        self.counts: collections.Counter = collections.Counter()
        self.samples: list = []
        self.sets: dict[str, set] = collections.defaultdict(set)
        self._h = hashlib.blake2b(digest_size=16)
        self.muted = False

    # -- reporting -------------------------------------------------------
    def violation(self, clause: str, signature: str, case, detail: str = "") -> None:
        if self.muted:
            return
        case_j = jsonable(case)
        size = len(json.dumps(case_j, sort_keys=True))
        rec = self.viol.get(signature)
        if rec is None:
            self.viol[signature] = {
                "property": self.pid,
                "clause": clause,
                "signature": signature,
                "case": case_j,
                "detail": str(detail)[:2000],
                "n": 1,
                "_size": size,
            }
        else:
            rec["n"] += 1
            if size < rec["_size"]:
                rec.update(case=case_j, detail=str(detail)[:2000], _size=size, clause=clause)
        self.obs("V", signature)

    def count(self, key: str, n: int = 1) -> None:
        if not self.muted:
            self.counts[key] += n

    def obs(self, *objs) -> None:
        if not self.muted:
            self._h.update(repr(objs).encode("utf-8", "surrogatepass"))

    def distinct(self, name: str, obj) -> None:
        if not self.muted:
            self.sets[name].add(h64(obj))

    def sample(self, obj) -> None:
        if not self.muted and len(self.samples) < self.SAMPLE_CAP:
            self.samples.append(jsonable(obj))

    # -- transport -------------------------------------------------------
    def result(self) -> dict:
        return {
            "viol": self.viol,
            "counts": dict(self.counts),
            "samples": self.samples,
            "sets": {k: v for k, v in self.sets.items()},
            "digest": self._h.hexdigest(),
        }

    def merge(self, res: dict) -> None:
        for sig, rec in res["viol"].items():
            mine = self.viol.get(sig)
            if mine is None:
                self.viol[sig] = dict(rec)
            else:
                mine["n"] += rec["n"]
                if rec["_size"] < mine["_size"]:
                    n = mine["n"]
                    mine.update(rec)
                    mine["n"] = n
        self.counts.update(res["counts"])
        for s in res["samples"]:
            if len(self.samples) < 2 * self.SAMPLE_CAP:
                self.samples.append(s)
        for k, v in res["sets"].items():
            self.sets[k] |= v


def exc_site(exc: BaseException, repo: str | None = None) -> str:
    """'<ExcType>@<module>.<function>' of the innermost urwid frame (no line numbers: they shift)."""
    from . import env

    repo = repo or env.REPO
    tb = exc.__traceback__
    site = None
    while tb is not None:
        fn = tb.tb_frame.f_code.co_filename
        if os.path.realpath(fn).startswith(repo + os.sep):
            mod = os.path.relpath(os.path.realpath(fn), repo)[:-3].replace(os.sep, ".")
            qual = getattr(tb.tb_frame.f_code, "co_qualname", tb.tb_frame.f_code.co_name)
            site = f"{mod}.{qual}"
        tb = tb.tb_next
    return f"{type(exc).__name__}@{site or 'outside-urwid'}"


# ----------------------------------------------------------------------
# parallel task runner
# ----------------------------------------------------------------------
_WORK: dict = {}


def _worker(idx: int):
    fn = _WORK["fn"]
    tasks = _WORK["tasks"]
    ctx = Ctx(_WORK["pid"], _WORK["tier"])
    ret = None
    try:
        with watchdog(_WORK["task_timeout"]):
            ret = fn(tasks[idx], ctx)
    except WatchdogTimeout:
        ctx.violation("terminates", "harness/task-watchdog", {"task": tasks[idx]}, "task exceeded its wall-clock budget")
    except Exception as e:  # fail closed
        ctx.violation(
            "harness-error",
            f"harness-error/{exc_site(e)}",
            {"task": tasks[idx]},
            "".join(traceback.format_exception(e))[-1800:],
        )
    return idx, ctx.result(), ret


class Runner:
    def __init__(self, pid: str, tier: str, jobs: int = JOBS, seed: int = SEED):
        self.pid = pid
        self.tier = tier
        self.jobs = jobs
        self.seed = seed
        self.ctx = Ctx(pid, tier)
        self.replayed = 0
        self.t0 = time.time()
        self.notes: list[str] = []

    def log(self, *a) -> None:
        print(f"[{self.pid} {time.time() - self.t0:6.1f}s]", *a, file=sys.stderr, flush=True)

    def run_tasks(self, fn, tasks: list, recheck: float = 0.05, task_timeout: float = 900.0, merge: bool = True):
        """Run fn(task, ctx) for every task in forked workers; return list of return values in task order.

        A seed-chosen slice of the tasks is executed a second time and must reproduce the same
        observation digest and return value (replay determinism); any worker death or exception
        is reported as a violation (fail closed)."""
        n = len(tasks)
        if n == 0:
            return []
        _WORK.update(fn=fn, tasks=tasks, pid=self.pid, tier=self.tier, task_timeout=task_timeout)
        order = list(range(n))
        # seed only permutes submission order
        k = self.seed % n if n else 0
        order = order[k:] + order[:k]
        k2 = max(1, min(n, int(n * recheck) if recheck else 0)) if recheck else 0
        again = [order[(i * 7919 + self.seed) % n] for i in range(k2)]
        again = sorted(set(again))
        results: list = [None] * n
        digests: list = [None] * n
        rets: list = [None] * n

        def collect(it, second: bool):
            for idx, res, ret in it:
                if second:
                    self.replayed += 1
                    if res["digest"] != digests[idx] or repr(ret) != repr(rets[idx]):
                        self.ctx.violation(
                            "replay-divergence",
                            "harness/replay-divergence",
                            {"task": tasks[idx]},
                            "second execution of the same task produced different observations",
                        )
                else:
                    digests[idx] = res["digest"]
                    rets[idx] = ret
                    results[idx] = res

        try:
            if self.jobs <= 1:
                collect((_worker(i) for i in order), False)
                collect((_worker(i) for i in again), True)
            else:
                mpctx = multiprocessing.get_context("fork")
                chunk = max(1, min(64, n // (self.jobs * 8) or 1))
                with cf.ProcessPoolExecutor(max_workers=min(self.jobs, n), mp_context=mpctx) as ex:
                    collect(ex.map(_worker, order, chunksize=chunk), False)
                    collect(ex.map(_worker, again, chunksize=1), True)
        except cf.process.BrokenProcessPool as e:
            self.ctx.violation("harness-error", "harness/worker-died", {"tasks": n}, repr(e))
        if merge:
            for res in results:
                if res is not None:
                    self.ctx.merge(res)
        return rets

    # ------------------------------------------------------------------
    def bfs(self, spec, depth: int, chunk: int = 0, max_states: int | None = None) -> dict:
        """Explicit-state breadth-first search over histories of spec.

        spec provides:
          configs(tier) -> list of picklable configs
          build(cfg) -> live state
          ops(cfg, st) -> list of picklable ops enabled in st
          apply(cfg, st, op, ctx, hist) -> bool   (real step + lock-step oracle; False = do not extend)
          key(cfg, st) -> hashable complete canonical form
          check_state(cfg, st, ctx, hist)  (optional: invariant on every state incl. initial)
        A state is the history that reaches it; it is rebuilt on fresh objects by replaying it.
        """
        cfgs = list(spec.configs(self.tier))
        tier = self.tier

        def rebuild(ci, hist, ctx):
            st = spec.build(cfgs[ci])
            ctx.muted = True
            try:
                for i, op in enumerate(hist):
                    spec.apply(cfgs[ci], st, op, ctx, hist[:i])
            finally:
                ctx.muted = False
            return st

        def init_task(task, ctx):
            out = []
            for ci in task:
                st = spec.build(cfgs[ci])
                if hasattr(spec, "check_state"):
                    spec.check_state(cfgs[ci], st, ctx, ())
                out.append((ci, digest(spec.key(cfgs[ci], st))))
            return out

        def expand_task(task, ctx):
            out = []
            for ci, hist in task:
                cfg = cfgs[ci]
                st = rebuild(ci, hist, ctx)
                ops = list(spec.ops(cfg, st))
                first = True
                for op in ops:
                    if not first:
                        st = rebuild(ci, hist, ctx)
                    first = False
                    try:
                        ok = spec.apply(cfg, st, op, ctx, hist)
                        ctx.count("transitions")
                        if ok is False:
                            continue
                        if hasattr(spec, "check_state"):
                            spec.check_state(cfg, st, ctx, hist + (op,))
                        k = digest(spec.key(cfg, st))
                    except WatchdogTimeout:
                        raise
                    except Exception as e:
                        ctx.violation(
                            "harness-error",
                            f"harness-error/{exc_site(e)}",
                            {"cfg": cfg, "hist": hist + (op,)},
                            "".join(traceback.format_exception(e))[-1800:],
                        )
                        continue
                    ctx.obs(op, k)
                    out.append((ci, hist, op, k))
            return out

        def chunks(lst, size):
            return [lst[i : i + size] for i in range(0, len(lst), size)]

        seen: set = set()
        frontier: list = []
        idxs = list(range(len(cfgs)))
        size = chunk or max(1, len(idxs) // (self.jobs * 4) or 1)
        for part in self.run_tasks(init_task, chunks(idxs, size)):
            for ci, k in part or ():
                if (ci, k) not in seen:
                    seen.add((ci, k))
                    frontier.append((ci, ()))
        levels = [len(frontier)]
        transitions = 0
        capped = False
        reached_depth = 0
        for level in range(depth):
            if not frontier:
                break
            size = chunk or max(1, min(200, len(frontier) // (self.jobs * 6) or 1))
            parts = self.run_tasks(expand_task, chunks(frontier, size))
            new = []
            for part in parts:
                for ci, hist, op, k in part or ():
                    transitions += 1
                    if (ci, k) not in seen:
                        seen.add((ci, k))
                        new.append((ci, hist + (op,)))
            reached_depth = level + 1
            frontier = new
            levels.append(len(new))
            self.log(f"bfs level {level + 1}: new states {len(new)}, total {len(seen)}, transitions {transitions}")
            if max_states is not None and len(seen) > max_states and level + 1 < depth:
                capped = True
                break
        return {
            "states": len(seen),
            "transitions": transitions,
            "levels": levels,
            "depth": reached_depth,
            "closed": not frontier,
            "capped": capped,
            "configs": len(cfgs),
        }
