"""Virtual environments for the six urwid event loops (select, asyncio, tornado, twisted, zmq, trio).

Every wait of a loop goes through World.wait(), which behaves like a *legal* operating system:
  * if at least one registered descriptor is readable the wait returns at once, without advancing time, with a
    non-empty subset of them in some order (default: all, ascending; anything else is a deviation);
  * otherwise virtual time advances by exactly the time-out; a wait with nothing readable and no time-out is a deadlock.
Each nondeterministic decision is a numbered choice point; an execution is identified by its choice vector.
"""
from __future__ import annotations

import asyncio
import itertools
import types
from asyncio import base_events, events

from .. import env  # noqa: F401


class Horizon(Exception):
    """the harness stopped the loop (iteration cap or deadlock)"""


class ReplayDivergence(Exception):
    pass


class World:
    def __init__(self, choices=(), max_iters=300):
        self.t = 0.0
        self.readable: set = set()
        self.choices = list(choices)
        self.points: list = []  # (n options, chosen, tag)
        self.events: list = []  # merged trace: ("wait", timeout, returned, t) and whatever the program logs
        self.iters = 0
        self.max_iters = max_iters
        self.horizon = None
        self.stopper = None
        self.on_readable = None  # trio needs to be told

    def now(self):
        return self.t

    def choose(self, n, tag=""):
        if n <= 1:
            return 0
        i = len(self.points)
        c = self.choices[i] if i < len(self.choices) else 0
        if c >= n:
            raise ReplayDivergence(f"choice {i}: {c} of {n} ({tag})")
        self.points.append((n, c, tag))
        return c

    def set_readable(self, fd):
        self.readable.add(fd)
        if self.on_readable:
            self.on_readable(fd)

    def _stop(self, why):
        self.horizon = why
        if self.stopper is not None:
            self.stopper()
            return None
        raise Horizon(why)

    def wait(self, ready, timeout):
        """ready: ascending list of readable registered ids. Returns a tuple of ids to report, or None after advancing time."""
        self.iters += 1
        if self.iters > self.max_iters:
            return self._stop("iteration cap")
        if ready:
            opts = [tuple(ready)]
            for r in range(1, len(ready) + 1):
                for sub in itertools.permutations(ready, r):
                    if sub != tuple(ready):
                        opts.append(sub)
            o = opts[self.choose(len(opts), "ready")]
            self.events.append(("wait", timeout, o, self.t))
            return o
        if timeout is None:
            self.events.append(("wait", None, None, self.t))
            return self._stop("deadlock")
        self.events.append(("wait", timeout, None, self.t))
        self.t += max(timeout, 0.0)
        return None


# ---------------------------------------------------------------- select
def make_select(w: World):
    from urwid.event_loop import select_loop as sl

    class Clock:
        def time(self):
            return w.t

    class Key:
        def __init__(self, fd, data):
            self.fd = fd
            self.fileobj = fd
            self.data = data

    class Sel:
        def __init__(self):
            self.reg = {}

        def __enter__(self):
            return self

        def __exit__(self, *a):
            return False

        def register(self, fd, ev, data=None):
            self.reg[fd] = data

        def unregister(self, fd):
            self.reg.pop(fd, None)

        def close(self):
            pass

        def select(self, timeout=None):
            o = w.wait(sorted(fd for fd in self.reg if fd in w.readable), timeout)
            return [] if o is None else [(Key(fd, self.reg[fd]), 1) for fd in o]

    sl.time = Clock()
    sl.selectors = types.SimpleNamespace(DefaultSelector=Sel, EVENT_READ=1)
    return sl.SelectEventLoop(), (lambda fd: fd), None


# ---------------------------------------------------------------- asyncio / tornado
class VLoop(base_events.BaseEventLoop):
    def __init__(self, w: World):
        super().__init__()
        self.w = w
        self.readers = {}
        self._clock_resolution = 1e-9
        outer = self

        class S:
            def select(self, timeout=None):
                o = w.wait(sorted(fd for fd in outer.readers if fd in w.readable), timeout)
                return [] if o is None else list(o)

        self._selector = S()

    def time(self):
        return self.w.t

    def _process_events(self, evl):
        for fd in evl:
            h = self.readers.get(fd)
            if h is not None and not h._cancelled:
                self._add_callback(h)

    def add_reader(self, fd, cb, *a):
        h = events.Handle(cb, a, self, None)
        old = self.readers.get(fd)
        if old:
            old.cancel()
        self.readers[fd] = h
        return h

    def remove_reader(self, fd):
        h = self.readers.pop(fd, None)
        if h is None:
            return False
        h.cancel()
        return True

    def _write_to_self(self):
        pass


def make_asyncio(w: World):
    from urwid.event_loop.asyncio_loop import AsyncioEventLoop

    loop = VLoop(w)
    return AsyncioEventLoop(loop=loop), (lambda fd: fd), loop.close


def make_tornado(w: World):
    from tornado.platform.asyncio import AsyncIOLoop

    from urwid.event_loop.tornado_loop import TornadoEventLoop

    loop = VLoop(w)
    asyncio.set_event_loop(loop)
    io = AsyncIOLoop(asyncio_loop=loop)
    io.time = lambda: w.t  # IOLoop.time() is the real clock otherwise: call_later() would shorten every delay by the real time between two reads of it

    def close():
        io.close(all_fds=False)
        asyncio.set_event_loop(None)

    return TornadoEventLoop(io), (lambda fd: fd), close


# ---------------------------------------------------------------- twisted
def make_twisted(w: World):
    from twisted.internet.base import ReactorBase

    from urwid.event_loop.twisted_loop import TwistedEventLoop

    class R(ReactorBase):
        def __init__(self):
            self._readers = []
            super().__init__()

        def installWaker(self):
            pass

        def seconds(self):
            return w.t

        def _handleSignals(self):
            pass

        def addReader(self, r):
            if r not in self._readers:
                self._readers.append(r)

        def removeReader(self, r):
            if r in self._readers:
                self._readers.remove(r)

        def removeWriter(self, r):
            pass

        def getReaders(self):
            return list(self._readers)

        def getWriters(self):
            return []

        def removeAll(self):
            rs = self._readers
            self._readers = []
            return rs

        def doIteration(self, timeout):
            byfd = {r.fileno(): r for r in self._readers}
            o = w.wait(sorted(fd for fd in byfd if fd in w.readable), timeout)
            if o is None:
                return
            for fd in o:
                r = byfd[fd]
                if r in self._readers:
                    r.doRead()

    r = R()
    w.stopper = r.crash
    return TwistedEventLoop(reactor=r), (lambda fd: fd), None


# ---------------------------------------------------------------- zmq
def make_zmq(w: World):
    import zmq as realzmq

    from urwid.event_loop import zmq_loop as zl

    class F:
        def __init__(self, fd):
            self.fd = fd

        def fileno(self):
            return self.fd

    class Poller:
        def __init__(self):
            self.reg = []

        def register(self, obj, flags):
            self.reg.append(obj)

        def unregister(self, obj):
            if obj not in self.reg:
                raise KeyError(obj)
            self.reg.remove(obj)

        def poll(self, timeout=None):
            fds = [o.fileno() for o in self.reg]
            o = w.wait(sorted(fd for fd in fds if fd in w.readable), None if timeout is None else timeout / 1000.0)
            return [] if o is None else [(fd, 1) for fd in o]

    class Clock:
        def time(self):
            return w.t

    zl.zmq = types.SimpleNamespace(Poller=Poller, POLLIN=1, POLLOUT=2, error=realzmq.error)
    zl.time = Clock()
    return zl.ZMQEventLoop(), (lambda fd: F(fd)), None


# ---------------------------------------------------------------- trio
def make_trio(w: World):
    import trio
    import trio._core._run as R
    import trio.testing

    from urwid.event_loop import trio_loop as tl

    clock = trio.testing.MockClock(autojump_threshold=0.0003)

    class Rnd:
        def random(self):
            return 0.0 if w.choose(2, "tick") == 1 else 1.0

    R._r = Rnd()

    class Shim:
        def __getattr__(self, n):
            return getattr(trio, n)

        def run(self, fn, *a, **kw):
            kw["clock"] = clock
            return trio.run(fn, *a, **kw)

    tl.trio = Shim()
    evl = tl.TrioEventLoop()
    ev = {}

    async def wait_readable(fd):
        while fd not in w.readable:
            e = ev.setdefault(fd, trio.Event())
            await e.wait()
            ev.pop(fd, None)
        await trio.lowlevel.checkpoint()

    evl._wait_readable = wait_readable

    def on_readable(fd):
        if fd in ev:
            ev[fd].set()

    w.on_readable = on_readable
    w.now = clock.current_time
    return evl, (lambda fd: fd), None


MAKERS = {"select": make_select, "asyncio": make_asyncio, "tornado": make_tornado, "twisted": make_twisted, "zmq": make_zmq, "trio": make_trio}
