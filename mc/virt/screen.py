"""A raw display Screen whose output is captured and interpreted by the reference terminal (mc/refs/vt_ref.py)."""
from __future__ import annotations

from .. import env  # noqa: F401

from urwid.display import raw

from ..refs.vt_ref import Term


class Out:
    def __init__(self):
        self.buf = []

    def write(self, s):
        self.buf.append(s)

    def flush(self):
        pass

    def take(self):
        r = "".join(self.buf)
        del self.buf[:]
        return r


class In:
    pass


def make_screen(colors=16, bright_is_bold=False, bce=True, term="xterm"):
    out = Out()
    scr = raw.Screen(input=In(), output=out)
    scr.signal_init = lambda: None
    scr.signal_restore = lambda: None
    scr.term = term
    scr.bg_bright_is_blink = False
    scr.back_color_erase = bce
    scr.fg_bright_is_bold = not bright_is_bold  # force set_terminal_properties to take effect below
    scr.set_terminal_properties(colors=colors, bright_is_bold=bright_is_bold)
    return scr, out


def start(scr, out, cols, rows, codec="utf-8", bce=True):
    scr.start()
    t = Term(cols, rows, codec=codec, bce=bce)
    t.feed(out.take())
    return t
