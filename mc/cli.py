"""./check <ID> [--tier quick|thorough] [--replay FILE] [--jobs N]"""
from __future__ import annotations

import argparse
import hashlib
import importlib
import json
import os
import sys
import time
import traceback

ROOT = os.path.dirname(os.path.dirname(os.path.abspath(__file__)))
# runs against a scratch tree (seeded changes) must not overwrite the evidence of the real tree
OUT = ROOT
if os.environ.get("VERIF_NO_EVIDENCE") or os.path.realpath(os.environ.get("VERIF_REPO", "/repo")) != "/repo":
    OUT = os.path.join("/tmp", "verif_scratch_out", str(os.getpid()))


def load_known(pid: str) -> dict:
    path = os.path.join(ROOT, "known_findings.json")
    if not os.path.exists(path):
        return {}
    with open(path) as f:
        data = json.load(f)
    out = {}
    for e in data.get("findings", []):
        if e.get("property") == pid and e.get("status", "open") == "open":
            out[e["signature"]] = e
    return out


def write_replay(pid: str, rec: dict) -> str:
    d = os.path.join(OUT, "replays", pid)
    os.makedirs(d, exist_ok=True)
    body = {k: v for k, v in rec.items() if not k.startswith("_")}
    blob = json.dumps(body, sort_keys=True, indent=1, ensure_ascii=True)
    name = hashlib.sha1(rec["signature"].encode()).hexdigest()[:12] + ".json"
    path = os.path.join(d, name)
    with open(path, "w") as f:
        f.write(blob)
    return path


def main(argv=None) -> int:
    ap = argparse.ArgumentParser()
    ap.add_argument("pid")
    ap.add_argument("--tier", default=os.environ.get("VERIF_TIER") or "quick", choices=["quick", "thorough"])
    ap.add_argument("--replay")
    ap.add_argument("--jobs", type=int, default=0)
    args = ap.parse_args(argv)
    pid = args.pid.upper()

    from . import core, env  # noqa: F401  (env: import guard)

    if args.jobs:
        core.JOBS = args.jobs
    mod = importlib.import_module(f"mc.checks.{pid.lower()}")
    known = load_known(pid)

    if args.replay:
        with open(args.replay) as f:
            rec = json.load(f)
        ctx = core.Ctx(pid, args.tier)
        case = core.unjson(rec["case"])
        print(f"replaying {rec['signature']}\n case: {json.dumps(rec['case'])[:1500]}")
        mod.replay(case, ctx)
        if not ctx.viol:
            print("replay: no violation reproduced")
            return 0
        for sig, r in ctx.viol.items():
            tag = "KNOWN-FINDING" if sig in known else "VIOLATION"
            print(f"replay: {tag} {sig}\n  clause={r['clause']}\n  detail={r['detail']}")
        return 1 if any(s not in known for s in ctx.viol) else 0

    R = core.Runner(pid, args.tier, jobs=core.JOBS, seed=core.SEED)
    t0 = time.time()
    coverage: dict = {}
    assumptions: list = []
    try:
        out = mod.run(args.tier, R)
        coverage = dict(out.get("coverage", {}))
        assumptions = list(out.get("assumptions", []))
    except Exception as e:  # fail closed
        R.ctx.violation("harness-error", f"harness-error/{core.exc_site(e)}", {"where": "run"}, traceback.format_exc()[-1800:])
    wall = time.time() - t0

    viol = R.ctx.viol
    unknown = {s: r for s, r in viol.items() if s not in known}
    for sig in sorted(viol):
        if sig in known:
            e = known[sig]
            print(f"KNOWN-FINDING: property={pid} {sig} {e.get('what', '')} (seen {viol[sig]['n']}x)")
    for sig in sorted(known):
        if sig not in viol:
            print(f"note: listed finding not reached by this run: property={pid} {sig}")
    for sig in sorted(unknown):
        path = write_replay(pid, unknown[sig])
        r = unknown[sig]
        print(f"VIOLATION property={pid} replay={path}")
        print(f"  signature={sig} clause={r['clause']} count={r['n']}\n  detail={r['detail'][:600]}")

    coverage.setdefault("samples", R.ctx.samples[:5] or ["(none recorded)"])
    coverage.setdefault("evaluations", int(R.ctx.counts.get("evaluations", 0)))
    coverage["replay_determinism_tasks_rerun"] = R.replayed
    coverage["counters"] = {k: int(v) for k, v in sorted(R.ctx.counts.items())}
    coverage["distinct_sets"] = {k: len(v) for k, v in sorted(R.ctx.sets.items())}
    coverage["known_findings_seen"] = sorted(s for s in viol if s in known)
    coverage["violation_signatures"] = sorted(unknown)
    ev = {
        "property_id": pid,
        "tier": args.tier,
        "seed": core.SEED,
        "level": getattr(mod, "LEVEL", "model_checking"),
        "coverage": coverage,
        "assumptions": assumptions,
        "wall_s": round(wall, 2),
        "violations": len(unknown),
        "repo_head": env.repo_head(),
        "jobs": core.JOBS,
        "notes": R.notes,
    }
    os.makedirs(os.path.join(OUT, "evidence"), exist_ok=True)
    evpath = os.path.join(OUT, "evidence", f"{pid}.json")
    with open(evpath, "w") as f:
        json.dump(ev, f, indent=1, sort_keys=True, ensure_ascii=True)
        f.write("\n")
    try:
        import jsonschema  # type: ignore

        with open("/root/.vp/EVIDENCE.schema.json") as f:
            jsonschema.validate(ev, json.load(f))
    except ImportError:
        pass
    except FileNotFoundError:
        pass
    print(
        f"{pid} {args.tier}: states={coverage.get('states')} transitions={coverage.get('transitions')} "
        f"evaluations={coverage.get('evaluations')} known={len(viol) - len(unknown)} violations={len(unknown)} wall={wall:.1f}s"
    )
    return 1 if unknown else 0


if __name__ == "__main__":
    sys.exit(main())
