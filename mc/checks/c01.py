"""C01 — every widget renders a canvas of exactly the size its container asked for.

Shape E: bounded-exhaustive enumeration of a sizing-typed widget-tree grammar (leaves, every
decoration/container constructor with option menus over typed children, two levels) x every size
valid for a sizing mode the root reports x focus x three encoding modes.  Each render is judged
against the widget's own rows()/pack() and against the reference width model (mc/refs/widths.py).
"""
from __future__ import annotations

import re
import warnings

from .. import env
from ..core import Ctx, exc_site
from ..refs import widths as W

import urwid

ID = "C01"
LEVEL = "model_checking"

MODES = {"utf8": "utf-8", "wide": "euc-jp", "narrow": "iso-8859-1"}
FLOW, BOX, FIXED = urwid.FLOW, urwid.BOX, urwid.FIXED


# ----------------------------------------------------------------------
# leaves
# ----------------------------------------------------------------------
def texts_for(mode):
    if mode == "utf8":
        return [("ascii", "ab cd"), ("wide", "你好a"), ("comb", "éx"), ("nl", "a\nbc"), ("dec", "┌─┐"), ("bytes", "ab cd".encode()),
                ("trailnl", "x\n"), ("empty", ""), ("zwonly", "́"), ("mixed", "a你 b́c"), ("widebytes", "你好".encode())]
    if mode == "wide":
        return [("ascii", "ab cd"), ("wide", "あいa"), ("nl", "a\nbc"), ("dec", "┌─┐"), ("bytes", b"ab cd"), ("widebytes", "あいa".encode("euc-jp")),
                ("trailnl", "x\n"), ("empty", "")]
    return [("ascii", "ab cd"), ("latin", "éa b"), ("nl", "a\nbc"), ("dec", "┌─┐"), ("bytes", b"ab\xe9 d"), ("trailnl", "x\n"), ("empty", "")]


def leaves(mode, tier):
    """list of (name, factory)"""
    T = urwid.Text
    out = []
    wraps = ["space", "any", "clip", "ellipsis"]
    aligns = ["left", "center", "right"]
    n = 0
    for tname, t in texts_for(mode):
        for wi, wrap in enumerate(wraps):
            if tier == "quick" and tname not in ("ascii", "wide", "comb", "latin", "nl") and wi != n % 4:
                n += 1
                continue
            al = aligns[(n + wi) % 3]
            n += 1
            out.append((f"Text[{tname},{wrap},{al}]", (lambda t=t, wrap=wrap, al=al: T(t, align=al, wrap=wrap))))
    wide = {"utf8": "你好", "wide": "あい", "narrow": "éé"}[mode]
    for cap, txt, ml in (("", "ab", False), ("c:", wide, False), ("", "a\nb", True), (wide[0], "x y", False)):
        positions = range(len(txt) + 1) if tier != "quick" else sorted({0, len(txt)})
        for pos in positions:
            out.append((f"Edit[{cap!r},{txt!r},{pos}]", (lambda cap=cap, txt=txt, ml=ml, pos=pos: urwid.Edit(cap, txt, multiline=ml, edit_pos=pos))))
    out.append(("Edit[clip]", lambda: urwid.Edit("c", "abcdef", wrap="clip", edit_pos=6)))
    out.append(("Edit[mask]", lambda: urwid.Edit("", "ab", mask="*")))
    out.append(("IntEdit", lambda: urwid.IntEdit("n", 12)))
    out.append(("Button", lambda: urwid.Button("ok")))
    out.append(("Button[wide]", lambda: urwid.Button(wide)))
    out.append(("CheckBox", lambda: urwid.CheckBox("c")))
    out.append(("CheckBox[mixed]", lambda: urwid.CheckBox("c", "mixed", has_mixed=True)))
    out.append(("RadioButton", lambda: urwid.RadioButton([], "r")))
    out.append(("SelectableIcon", lambda: urwid.SelectableIcon("ic", 1)))
    out.append(("SelectableIcon[wide]", lambda: urwid.SelectableIcon(wide, 1)))
    out.append(("Divider", lambda: urwid.Divider()))
    out.append(("Divider[-,1,1]", lambda: urwid.Divider("-", 1, 1)))
    out.append(("ProgressBar", lambda: urwid.ProgressBar("n", "f", 30)))
    out.append(("ProgressBar[satt]", lambda: urwid.ProgressBar("n", "f", 55, 100, "s")))
    out.append(("SolidFill", lambda: urwid.SolidFill("x")))
    out.append(("BigText", lambda: urwid.BigText("1", urwid.Thin3x3Font())))
    out.append(("BigText[half]", lambda: urwid.BigText("a1", urwid.HalfBlock5x4Font())))
    out.append(("Text[260 lines]", lambda: T("\n".join(f"{i % 10}" for i in range(260)))))  # more rows than any small-integer shortcut
    out.append(("BarGraph", lambda: _bargraph()))
    out.append(("BarGraph[hlines]", lambda: _bargraph([33, 32, 31, 5, 5])))
    out.append(("BarGraph[2-series,hlines]", lambda: _bargraph([50], two=True)))
    out.append(("GraphVScale", lambda: urwid.GraphVScale([(10, "10"), (9, "9"), (5, "5")], 10)))
    out.append(("ListBox", lambda: urwid.ListBox(urwid.SimpleFocusListWalker([T("a"), urwid.Edit("", "b"), T("c\nd")]))))
    out.append(("Text[short words]", lambda: T("ab cd ef gh ij")))  # wraps into more lines as soon as one column is taken away
    # a row of given columns with dividers, the cursor in the last one: narrow sizes hide the columns left of the focus
    out.append(("Columns[2,2,Edit3;d1,f2]", lambda: urwid.Columns([(2, T("l")), (2, T("m")), (3, urwid.Edit("", "x"))], 1, focus_column=2)))
    out.append(("ListBox[empty]", lambda: urwid.ListBox(urwid.SimpleFocusListWalker([]))))
    out.append(("Pile[empty]", lambda: urwid.Pile([])))
    out.append(("Columns[empty]", lambda: urwid.Columns([])))
    out.append(("GridFlow[empty]", lambda: urwid.GridFlow([], 3, 1, 1, "left")))
    return out


def _via_contents(cont, items):
    cont.contents[:] = [(w, cont.options(*o) if o[1] is not None else cont.options(o[0])) for w, o in items]
    return cont


def _scrolled_to_end(s):
    s.set_scrollpos(-1)
    return s


def _quiet(fn):
    with warnings.catch_warnings():
        warnings.simplefilter("ignore")
        return fn()


def _bargraph(hlines=None, two=False):
    if two:
        g = urwid.BarGraph(["bg", "a", "b"], ["hbg", "ha", "hb"])
        g.set_data([(10, 60), (70, 30), (0, 0), (100, 100)], 100, hlines)
        return g
    g = urwid.BarGraph(["bg", "a", "b"])
    if hlines:
        g.set_data([(10,), (70,), (40,)], 100, hlines)  # several lines collapse into one screen row at small heights
    else:
        g.set_data([(1,), (3,), (2,)], 4)
    return g


# ----------------------------------------------------------------------
# constructors: (name, [needs...], build(*children))    need = set of acceptable sizings for that slot
# ----------------------------------------------------------------------
ANY = frozenset((FLOW, BOX, FIXED))
F = frozenset((FLOW,))
B = frozenset((BOX,))
X = frozenset((FIXED,))
FB = frozenset((FLOW, BOX))
FX = frozenset((FLOW, FIXED))


def constructors(tier):
    T = urwid.Text
    S = urwid.SolidFill
    cs = []

    def add(name, need, fn):
        cs.append((name, need, fn))

    # Padding
    for al in ("left", "center", "right", ("relative", 30)):
        an = al if isinstance(al, str) else "rel30"
        add(f"Padding[{an},pack]", FX, lambda c, al=al: urwid.Padding(c, al, "pack"))
        add(f"Padding[{an},3]", FB, lambda c, al=al: urwid.Padding(c, al, 3))
        add(f"Padding[{an},clip]", X, lambda c, al=al: urwid.Padding(c, al, "clip"))
    add("Padding[rel30,rel50,l1r1]", FB, lambda c: urwid.Padding(c, ("relative", 30), ("relative", 50), left=1, right=1))
    add("Padding[center,rel60,min2]", FB, lambda c: urwid.Padding(c, "center", ("relative", 60), min_width=2))
    add("Padding[right,pack,l2]", FX, lambda c: urwid.Padding(c, "right", "pack", left=2))
    add("Padding[left,pack,l1r2]", FX, lambda c: urwid.Padding(c, "left", "pack", left=1, right=2))
    add("Padding[left,1,r3]", FB, lambda c: urwid.Padding(c, "left", 1, right=3))
    # Filler
    for va in ("top", "middle", "bottom", ("relative", 70)):
        vn = va if isinstance(va, str) else "rel70"
        add(f"Filler[{vn},pack]", F, lambda c, va=va: urwid.Filler(c, va))
        add(f"Filler[{vn},2]", B, lambda c, va=va: urwid.Filler(c, va, 2))
    add("Filler[rel70,rel50,t1]", B, lambda c: urwid.Filler(c, ("relative", 70), ("relative", 50), top=1))
    add("Filler[middle,rel40,min2,b1]", B, lambda c: urwid.Filler(c, "middle", ("relative", 40), min_height=2, bottom=1))
    add("Filler[top,height=flow]", F, lambda c: _quiet(lambda: urwid.Filler(c, "top", height="flow")))  # the old spelling of 'pack'
    add("Filler[bottom,pack,t1b1]", F, lambda c: urwid.Filler(c, "bottom", top=1, bottom=1))
    # simple decorations
    add("AttrMap", ANY, lambda c: urwid.AttrMap(c, "a", "b"))
    add("AttrWrap", ANY, lambda c: urwid.AttrWrap(c, "a", "b"))
    add("WidgetDisable", ANY, lambda c: urwid.WidgetDisable(c))
    add("WidgetPlaceholder", ANY, lambda c: urwid.WidgetPlaceholder(c))
    add("LineBox[title]", ANY, lambda c: urwid.LineBox(c, "t"))
    add("LineBox", ANY, lambda c: urwid.LineBox(c))
    add("LineBox[no-sides]", ANY, lambda c: urwid.LineBox(c, lline="", rline=""))
    add("LineBox[no-top]", ANY, lambda c: urwid.LineBox(c, tline="", tlcorner="", trcorner=""))
    add("BoxAdapter[2]", B, lambda c: urwid.BoxAdapter(c, 2))
    add("BoxAdapter[1]", B, lambda c: urwid.BoxAdapter(c, 1))
    add("PopUpLauncher", ANY, lambda c: urwid.PopUpLauncher(c))
    # Pile (companions are typed too: a weighted Text is only legal in a flow Pile, so box Piles get packed / box companions)
    add("Pile[weight,Text]", F, lambda c: urwid.Pile([c, T("z")]))
    add("Pile[Text,weight;f1]", F, lambda c: urwid.Pile([T("z"), c], focus_item=1))
    add("Pile[weight,packText]", B, lambda c: urwid.Pile([c, ("pack", T("z"))]))
    add("Pile[pack,Text]", FX, lambda c: urwid.Pile([("pack", c), T("z")]))
    add("Pile[pack,pack-fixed]", FX, lambda c: urwid.Pile([("pack", c), ("pack", urwid.BigText("1", urwid.Thin3x3Font()))]))
    add("Pile[given2,weightSolid]", B, lambda c: urwid.Pile([(2, c), ("weight", 2, S("s"))]))
    add("Pile[weightSolid,given1;f1]", B, lambda c: urwid.Pile([("weight", 1, S("s")), (1, c)], focus_item=1))
    add("Pile[weight3,weight1Solid]", B, lambda c: urwid.Pile([("weight", 3, c), ("weight", 1, S("s"))]))
    add("Pile[pack,weightSolid]", F, lambda c: urwid.Pile([("pack", c), S("s")]))
    # options written the way Pile.options() / Columns.options() return them (plain strings) and assigned through .contents
    add("Pile[opt-given2,opt-pack]", B, lambda c: _via_contents(urwid.Pile([]), [(c, ("given", 2)), (T("z"), ("pack", None))]))
    add("Pile[opt-pack,opt-weight]", F, lambda c: _via_contents(urwid.Pile([]), [(c, ("pack", None)), (T("z"), ("weight", 1))]))
    add("Columns[opt-given3,opt-weight]", FB, lambda c: _via_contents(urwid.Columns([]), [(c, ("given", 3)), (S("s") if False else T("z"), ("weight", 1))]))
    add("Pile[weight0-flow,Text]", F, lambda c: urwid.Pile([("weight", 0, c), T("z")]))
    add("Pile[x3flow]", F, lambda c: urwid.Pile([T("y"), c, ("pack", T("z\nz"))], focus_item=1))
    add("Pile[x3box]", B, lambda c: urwid.Pile([("pack", T("y")), c, ("pack", T("z\nz"))], focus_item=1))
    # Columns
    add("Columns[weight,Text;d1]", FB, lambda c: urwid.Columns([c, T("z")], 1))
    add("Columns[Text,weight;f1]", FB, lambda c: urwid.Columns([T("zz"), c], 0, focus_column=1))
    add("Columns[pack,Text]", FX, lambda c: urwid.Columns([("pack", c), T("z")]))
    add("Columns[pack,pack;d1]", FX, lambda c: urwid.Columns([("pack", c), ("pack", T("zz"))], 1))
    add("Columns[given3,Text]", FB, lambda c: urwid.Columns([(3, c), T("z\ny")]))
    add("Columns[given3box,Text]", B, lambda c: urwid.Columns([(3, c), T("z\ny")], box_columns=[0]))
    add("Columns[weightbox,Text]", B, lambda c: urwid.Columns([c, T("z\ny")], box_columns=[0]))
    add("Columns[given2,given2;d2,min2]", FB, lambda c: urwid.Columns([(2, T("y")), (2, c)], 2, min_width=2, focus_column=1))
    add("Columns[weight2,weight1;min3]", FB, lambda c: urwid.Columns([("weight", 2, c), ("weight", 1, T("z"))], 1, min_width=3))
    add("Columns[x3]", FB, lambda c: urwid.Columns([(1, T("y")), c, ("pack", T("zz"))], 1, focus_column=1))
    # others
    add("GridFlow[c,Text]", F, lambda c: urwid.GridFlow([c, T("z")], 3, 1, 1, "left"))
    add("GridFlow[Text,c,Text;center]", F, lambda c: urwid.GridFlow([T("y"), c, T("z")], 2, 0, 0, "center", focus=1))
    add("Frame[header]", F, lambda c: urwid.Frame(S("b"), header=c))
    add("Frame[footer;f]", F, lambda c: urwid.Frame(S("b"), footer=c, focus_part="footer"))
    add("Frame[body]", B, lambda c: urwid.Frame(c, header=T("h"), footer=T("f\nf")))
    # header and footer together, each focus part: the part in focus is kept, the other one is trimmed to what is left
    add("Frame[header+footer2;f]", F, lambda c: urwid.Frame(S("b"), header=c, footer=T("f\nf"), focus_part="footer"))
    add("Frame[header3+footer;f]", F, lambda c: urwid.Frame(S("b"), header=T("h\nh\nh"), footer=c, focus_part="footer"))
    add("Frame[header+footer2;h]", F, lambda c: urwid.Frame(S("b"), header=c, footer=T("f\nf"), focus_part="header"))
    add("Frame[body-only]", B, lambda c: urwid.Frame(c))
    add("Overlay[center3,middle2]", B, lambda c: urwid.Overlay(c, S("b"), "center", 3, "middle", 2))
    add("Overlay[left-rel50,top-pack]", F, lambda c: urwid.Overlay(c, S("b"), "left", ("relative", 50), "top", "pack"))
    add("Overlay[right2,bottom-pack,l1]", F, lambda c: urwid.Overlay(c, S("b"), "right", 2, "bottom", "pack", left=1))
    add("Overlay[pack,pack]", X, lambda c: urwid.Overlay(c, S("b"), "center", "pack", "middle", "pack"))
    add("Overlay[rel,rel,min]", B, lambda c: urwid.Overlay(c, S("b"), ("relative", 20), ("relative", 60), ("relative", 80), ("relative", 50), min_width=2, min_height=1))
    add("ListBox[c]", F, lambda c: urwid.ListBox(urwid.SimpleFocusListWalker([c])))
    add("ListBox[Text,c,Text]", F, lambda c: urwid.ListBox(urwid.SimpleFocusListWalker([T("y"), c, T("z\nz")])))
    add("Scrollable", FX, lambda c: urwid.Scrollable(c))
    add("ScrollBar(Scrollable)", FX, lambda c: urwid.ScrollBar(urwid.Scrollable(c)))
    add("ScrollBar(Scrollable)[end]", FX, lambda c: urwid.ScrollBar(_scrolled_to_end(urwid.Scrollable(c))))
    add("ScrollBar(Scrollable)[left,w2]", FX, lambda c: urwid.ScrollBar(urwid.Scrollable(c), side="left", width=2))
    return cs


def quiet_sizing(w):
    with warnings.catch_warnings(record=True) as rec:
        warnings.simplefilter("always")
        s = w.sizing()
    if any(issubclass(r.category, urwid.widget.WidgetWarning) for r in rec):
        return None
    return frozenset(s)


# ----------------------------------------------------------------------
# oracle
# ----------------------------------------------------------------------
def seg_width(mode, text: bytes, cs) -> int:
    if cs == "0" or cs == "U":
        return len(text)
    if mode == "utf8":
        return W.swidth(text.decode("utf-8"))
    if mode == "narrow":
        return len(text)
    return sum(c.width for c in W.chars_of(text, MODES[mode], "wide"))


def size_class(size):
    """sizing mode, plus ':degenerate' for sizes of at most 2 columns or exactly 1 row"""
    if len(size) == 0:
        return "fixed"
    s = "box" if len(size) == 2 else "flow"
    if size[0] <= 2 or (len(size) == 2 and size[1] == 1):
        s += ":degenerate"
    return s


EMPTY_RE = re.compile(r"(Pile|Columns|GridFlow|ListBox)\[empty\]")
TRANSPARENT = ("AttrMap", "AttrWrap", "WidgetDisable", "WidgetPlaceholder", "PopUpLauncher")


def shape(name):
    """'Outer[..](Inner[..](Leaf[..]))' -> 'Outer(Inner(Leaf))'"""
    out = []
    depth = 0
    for ch in name:
        if ch == "[":
            depth += 1
        elif ch == "]":
            depth -= 1
        elif depth == 0:
            out.append(ch)
    r = "".join(out)
    # decorations that hand the size through unchanged do not take part in the signature
    for t in TRANSPARENT:
        while t + "(" in r:
            i = r.index(t + "(")
            j = r.rindex(")")
            r = r[:i] + r[i + len(t) + 1 : j] + r[j + 1 :]
    return r


PACKPAD_RE = re.compile(r"Padding\[\w+,pack")


def culprit(name):
    """the outermost constructor variant (options kept, children dropped): 'Pile[pack,Text](Edit[..])' -> 'Pile[pack,Text]';
    transparent decorations are skipped; a leaf keeps its class and first option ('Text[empty,any,left]' -> 'Text[empty]')"""
    while True:
        head = name.split("(", 1)[0] if not name.startswith("ScrollBar(Scrollable)") else "ScrollBar(Scrollable)" + name[len("ScrollBar(Scrollable)"):].split("(", 1)[0]
        cls = head.split("[", 1)[0]
        if cls in TRANSPARENT and "(" in name:
            name = name[len(head) + 1 : -1]
            continue
        break
    if cls.startswith("ScrollBar"):
        return "ScrollBar"
    if cls in ("LineBox", "ListBox", "GridFlow", "Frame"):
        return cls  # option variants of these classes share their sizing behaviour
    if len(head) == len(name):  # a leaf
        if "[" in head:
            return head.split(",", 1)[0].rstrip("]") + "]"
        return head
    return head


def sizes_for(sz, tier):
    cols = (1, 2, 3, 5) if tier == "quick" else (1, 2, 3, 4, 5, 6, 9)
    rows = (1, 2, 4) if tier == "quick" else (1, 2, 3, 4, 6)
    out = []
    if BOX in sz:
        out += [(c, r) for c in cols for r in rows]
    if FLOW in sz:
        out += [(c,) for c in cols]
    if FIXED in sz:
        out.append(())
    return out


def check_widget(ctx: Ctx, mode, name, path, build, tier, inherited=None):
    """path = replayable description; build() -> fresh widget.
    inherited: {(clause, site): signature} of the child subtree - a failure of the same kind in the parent is attributed
    to the smallest failing subtree (same signature), so one root cause is one finding.
    Returns (reported sizing, kinds of this tree)."""
    try:
        w = build()
    except Exception:
        ctx.count("construction-refused")
        return None, {}
    sz = quiet_sizing(w)
    if sz is None:
        ctx.count("ill-typed-by-urwid-warning")
        return None, {}
    shp = culprit(name)
    kinds: dict = {}
    for size in sizes_for(sz, tier):
        for focus in (False, True):
            check_render(ctx, mode, name, shp, path, build, size, focus, inherited or {}, kinds)
    if not kinds:
        warm_pass(ctx, mode, name, shp, path, build, sizes_for(sz, tier))
    return sz, kinds


def warm_pass(ctx: Ctx, mode, name, shp, path, build, sizes):
    """the same widget instance rendered at every size twice with the canvas cache left alone: a canvas handed to a parent
    must not have been altered by that parent, so the second round still has to agree with rows()/pack()"""
    urwid.CanvasCache.clear()
    w = build()
    for rnd in (0, 1):
        for size in sizes:
            for focus in (False, True):
                ctx.count("evaluations")
                case = {"mode": mode, "tree": path, "name": name, "size": size, "focus": focus, "warm": True}
                try:
                    canv = w.render(size, focus)
                    cols, rows = canv.cols(), canv.rows()
                    if len(size) == 2:
                        exp = tuple(size)
                    elif len(size) == 1:
                        exp = (size[0], w.rows(size, focus))
                    else:
                        exp = tuple(w.pack((), focus))
                except Exception as e:
                    ctx.violation("warm-cache", f"C01/warm-cache/{shp}/{size_class(size)}/{exc_site(e)}", case,
                                  f"{name}: render/rows of the same instance with a warm cache (round {rnd}) raised {type(e).__name__}: {str(e)[:200]}")
                    urwid.CanvasCache.clear()
                    return
                if (cols, rows) != exp:
                    ctx.violation("warm-cache", f"C01/warm-cache/{shp}/{size_class(size)}", case,
                                  f"{name}.render({size}, {focus}) with a warm cache (round {rnd}) returned {cols}x{rows}, rows()/pack() say {exp[0]}x{exp[1]}")
                    urwid.CanvasCache.clear()
                    return
    urwid.CanvasCache.clear()


def check_render(ctx: Ctx, mode, name, shp, path, build, size, focus, inherited=None, kinds=None):
    case = {"mode": mode, "tree": path, "name": name, "size": size, "focus": focus}
    sc = size_class(size)
    inherited = inherited or {}
    if kinds is None:
        kinds = {}

    def V(clause, detail, site=""):
        # one root cause = one finding: a failure of a kind the child subtree already shows is attributed to the child's culprit
        kind = (clause, site)
        who = inherited.get(kind) or shp
        if EMPTY_RE.search(name):
            who = "contains-empty-container"
        elif clause == "flow-size" and who == shp and PACKPAD_RE.match(who) and "(" in name:
            # rows() of a packed Padding depends on what it wraps (known: GridFlow): the child's class is part of the root cause
            who = who + ">" + culprit(name[name.index("(") + 1 : -1]).split("[")[0]
        kinds.setdefault(kind, who)
        ctx.violation(clause, f"C01/{clause}/{who}/{sc}{('/' + site) if site else ''}", case, detail)

    urwid.CanvasCache.clear()
    w = build()
    ctx.count("evaluations")
    try:
        canv = w.render(size, focus)
        content = [list(r) for r in canv.content()]
        cols, rows = canv.cols(), canv.rows()
        cursor = canv.cursor
    except Exception as e:
        V("render-raises", f"{name}.render({size}, {focus}) raised {type(e).__name__}: {str(e)[:300]}", site=exc_site(e))
        ctx.obs(name, size, focus, "raise", type(e).__name__)
        return
    ctx.obs(name, size, focus, cols, rows, cursor, [[(a, cs, bytes(t)) for a, cs, t in r] for r in content])
    ctx.distinct("nontrivial", (mode, name, size, focus))
    try:
        if len(size) == 2:
            exp = (size[0], size[1])
            clause = "box-size"
        elif len(size) == 1:
            urwid.CanvasCache.clear()
            w2 = build()
            exp = (size[0], w2.rows(size, focus))
            clause = "flow-size"
        else:
            urwid.CanvasCache.clear()
            w2 = build()
            exp = tuple(w2.pack((), focus))
            clause = "fixed-size"
    except Exception as e:
        V("rows-pack-raises", f"{name}: rows()/pack() for {size} raised {type(e).__name__}: {str(e)[:300]}", site=exc_site(e))
        return
    if (cols, rows) != exp:
        V(clause, f"{name}.render({size}, {focus}) returned {cols}x{rows}, expected {exp[0]}x{exp[1]}")
        return
    if len(content) != rows:
        V("rows-count", f"{name}: content() has {len(content)} rows, canvas reports {rows}")
    for y, row in enumerate(content):
        try:
            wd = sum(seg_width(mode, bytes(t), cs) for a, cs, t in row)
        except (UnicodeDecodeError, ValueError) as e:
            V("row-width", f"{name} {size}: row {y} is not valid text in {MODES[mode]}: {row!r} ({e})")
            break
        if wd != cols:
            V("row-width", f"{name} {size}: row {y} occupies {wd} columns, canvas is {cols} wide: {[bytes(t) for a, cs, t in row]}")
            break
    if cursor is not None:
        x, y = cursor
        if not (isinstance(x, int) and isinstance(y, int) and 0 <= x < max(cols, 1) and 0 <= y < rows):
            V("cursor-inside", f"{name}.render({size}, {focus}) cursor {cursor} outside {cols}x{rows}")


# ----------------------------------------------------------------------
# tree building from a path: ("leaf", i) | ("con", j, path)
# ----------------------------------------------------------------------
class Grammar:
    def __init__(self, mode, tier):
        self.mode = mode
        self.tier = tier
        self.leaves = leaves(mode, tier)
        self.cons = constructors(tier)

    def build(self, path):
        if path[0] == "leaf":
            return self.leaves[path[1]][1]()
        child = self.build(path[2])
        return self.cons[path[1]][2](child)

    def name(self, path):
        if path[0] == "leaf":
            return self.leaves[path[1]][0]
        return f"{self.cons[path[1]][0]}({self.name(path[2])})"


_G: dict = {}


def grammar(mode, tier):
    k = (mode, tier)
    if k not in _G:
        _G[k] = Grammar(mode, tier)
    return _G[k]


def tree_task(task, ctx: Ctx):
    mode, tier, paths = task
    env.reset(MODES[mode])
    g = grammar(mode, tier)
    out = []
    for path, inherited in paths:
        sz, kinds = check_widget(ctx, mode, g.name(path), path, lambda path=path: g.build(path), tier, dict(inherited))
        out.append((None if sz is None else tuple(sorted(str(s.value) for s in sz)), tuple(sorted(kinds.items()))))
    env.reset("utf-8")
    return out


def typed_children(g, mode, tier, child_paths, child_results):
    """all (('con', j, child), child kinds) with the child's reported sizing meeting the slot's need"""
    out = []
    for j, (cname, need, fn) in enumerate(g.cons):
        for p, (sz, kinds) in zip(child_paths, child_results):
            if sz is None:
                continue
            if {urwid.Sizing(s) for s in sz} & need:
                out.append((("con", j, p), kinds))
    return out


def chunks(lst, n):
    return [lst[i : i + n] for i in range(0, len(lst), n)]


def run(tier, R):
    totals = {}
    for mode in MODES:
        g = grammar(mode, tier)
        l0 = [(("leaf", i), ()) for i in range(len(g.leaves))]
        s0 = [s for part in R.run_tasks(tree_task, [(mode, tier, c) for c in chunks(l0, 4)], recheck=0.05) for s in (part or [])]
        l1 = typed_children(g, mode, tier, [p for p, _ in l0], s0)
        s1 = [s for part in R.run_tasks(tree_task, [(mode, tier, c) for c in chunks(l1, 12)], recheck=0.02) for s in (part or [])]
        # level 2: every constructor over one representative level-1 widget per (constructor, reported sizing set);
        # the representative is the first tree of its class without a failure of its own (so that level 2 is not
        # dominated by inherited leaf failures), else the first one
        reps = {}
        for (p, _), (sz, kinds) in zip(l1, s1):
            if sz is None:
                continue
            k = (p[1], sz)
            if k not in reps or (reps[k][1] and not kinds):
                reps[k] = (p, kinds, sz)
        rp = [v[0] for v in reps.values()]
        rs = [(v[2], v[1]) for v in reps.values()]
        l2 = typed_children(g, mode, tier, rp, rs)
        if tier == "quick":
            l2 = [p for i, p in enumerate(l2) if mode == "utf8" or i % 3 == 0]
        R.run_tasks(tree_task, [(mode, tier, c) for c in chunks(l2, 12)], recheck=0.02)
        totals[mode] = {"leaves": len(l0), "level1": len(l1), "level2": len(l2)}
        R.log(f"{mode}: trees {totals[mode]} renders so far {R.ctx.counts['evaluations']}")
    ev = int(R.ctx.counts["evaluations"])
    nt = len(R.ctx.sets.get("nontrivial", ()))
    cov = {
        "states": nt,
        "transitions": ev,
        "traces_validated_against_impl": ev,
        "evaluations": ev,
        "distinct_nontrivial": nt,
        "rule": "typed tree grammar: leaves (Text over text classes x wrap x align, Edit at cursor positions, Button, CheckBox, RadioButton, SelectableIcon, "
        "Divider, ProgressBar, SolidFill, BigText, BarGraph, ListBox, empty containers), level 1 = every constructor (Padding/Filler option menus, AttrMap, AttrWrap, "
        "WidgetDisable, WidgetPlaceholder, LineBox variants, BoxAdapter, PopUpLauncher, Pile/Columns with given/pack/weight/box_columns/dividers/min_width, GridFlow, "
        "Frame parts, Overlay kinds, ListBox, Scrollable, ScrollBar) over every leaf whose reported sizing fits the slot; level 2 = every constructor over one "
        "representative level-1 tree per (constructor, reported sizing set)" + (" (non-utf8 modes: every third)" if tier == "quick" else "")
        + "; x every size (cols x rows lattice) of every sizing mode the root reports x focus x {utf8, wide=euc-jp, narrow=iso-8859-1}. evaluations = renders; "
        "non-trivial = distinct (mode, tree, size, focus) that rendered without raising",
        "exhaustive": True,
        "trees": totals,
        "skipped": {k: int(v) for k, v in R.ctx.counts.items() if k in ("construction-refused", "ill-typed-by-urwid-warning")},
    }
    return {
        "coverage": cov,
        "assumptions": [
            "a child is placed in a slot only if its reported sizing() contains a mode the slot's documented contract hands it; a tree for which urwid itself "
            "emits a WidgetWarning from sizing() is treated as ill-typed and skipped",
            "texts are restricted to those encodable in the mode's encoding",
            "reference widths: wcwidth for utf8, byte rules (double-byte pair = 2) for wide, 1 per byte for narrow, 1 per byte in the DEC special charset",
            "the canvas cache is cleared before every render (C06 owns caching); rows()/pack() are asked of a freshly built twin widget",
        ],
    }


def replay(case, ctx):
    mode = case["mode"]

    def tup(p):
        return tuple(tup(x) if isinstance(x, (list, tuple)) else x for x in p)

    path = tup(case["tree"])
    env.reset(MODES[mode])
    best = None
    for tier in ("quick", "thorough"):
        g = grammar(mode, tier)
        try:
            if g.name(path) == case["name"]:
                best = g
                break
        except IndexError:
            continue
    if best is None:
        print("replay: the recorded tree name does not match the current grammar")
        return
    name = best.name(path)
    print("tree:", name)
    check_render(ctx, mode, name, culprit(name), path, lambda: best.build(path), tuple(case["size"]), bool(case["focus"]))
    env.reset("utf-8")
