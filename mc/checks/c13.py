"""C13 — every event loop honours the alarm, file-watch, idle and exception contract.

Shape S: deviation-bounded schedule exploration.  Each of the six loops runs real urwid code to
completion under a virtual environment (mc/virt/loops.py) that owns the clock and every wait; each
nondeterministic answer of the environment (which readable descriptors a wait reports and in which
order; trio: whether a scheduler tick reverses its batch) is a numbered choice point.  For every
program of a small grammar (three alarms registered out of due order, two watches, up to two idle
callbacks, callback bodies that remove / add alarms, watches and idle callbacks or raise) all
executions with at most d departures from the default answers are run and judged by one contract
acceptor over the recorded event trace.
"""
from __future__ import annotations

import contextlib
import functools
import io
import itertools
import logging

from .. import env
from ..core import Ctx, exc_site
from ..virt.loops import MAKERS, Horizon, ReplayDivergence, World

from urwid import ExitMainLoop

ID = "C13"
LEVEL = "model_checking"

LOOPS = ["select", "asyncio", "tornado", "twisted", "zmq", "trio"]
SLOTS = ["aE", "aL", "aM", "w7", "w8", "i1", "i2"]
DUE = {"aE": 1.0, "aL": 3.0, "aM": 2.0, "end": 10.0}
BODIES = ["rm_aE", "rm_aM", "rm_aL", "rm_w7", "rm_w8", "rm_i1", "rm_i2", "add_a0", "add_a0_rm", "add_idle", "add_w9", "exit", "boom"]
SLACK = 0.012
TOL = {"trio": 1e-3}


class Boom(Exception):
    pass


def run_program(loopname, prog, choices, second_run=False):
    """-> (points, events, result)"""
    logging.disable(logging.CRITICAL)
    w = World(choices)
    evl, mkfd, closer = MAKERS[loopname](w)
    ev = w.events
    H = {}
    variant, bodies = prog
    bodies = dict(bodies)

    nd = 3 if loopname == "trio" else 6
    state = {"armed": True}

    def make(name):
        kind = bodies.get(name, "nop")

        def f(*_a):
            ev.append(("cb", name, round(w.now(), nd)))
            if name in ("w7", "w8", "w9"):
                w.readable.discard(int(name[1]))
            if name in ("aE", "aM"):
                w.set_readable(7)
                ev.append(("readable", 7))
            if name == "aM":
                w.set_readable(8)
                ev.append(("readable", 8))
            if kind.startswith("rm_a"):
                tgt = kind[3:]
                if tgt in H:
                    r1 = evl.remove_alarm(H[tgt])
                    r2 = evl.remove_alarm(H[tgt])
                    ev.append(("rm_alarm", tgt, r1, r2))
            elif kind.startswith("rm_w"):
                tgt = kind[3:]
                if tgt in H:
                    ev.append(("rm_watch", tgt, evl.remove_watch_file(H[tgt])))
            elif kind.startswith("rm_i"):
                tgt = kind[3:]
                if tgt in H:
                    ev.append(("rm_idle", tgt, evl.remove_enter_idle(H[tgt])))
            elif kind == "add_a0":
                if "a0" not in H:
                    H["a0"] = evl.alarm(0, make("a0"))
                    ev.append(("add_alarm", "a0", round(w.now(), nd)))
            elif kind == "add_a0_rm":
                if "x0" not in H:
                    H["x0"] = evl.alarm(0, make("x0"))
                    ev.append(("add_alarm", "x0", round(w.now(), nd)))
                    r1 = evl.remove_alarm(H["x0"])
                    r2 = evl.remove_alarm(H["x0"])
                    ev.append(("rm_alarm", "x0", r1, r2))
            elif kind == "add_idle":
                if "i3" not in H:
                    H["i3"] = evl.enter_idle(make("i3"))
                    ev.append(("add_idle", "i3"))
            elif kind == "add_w9":
                if "w9" not in H:
                    H["w9"] = evl.watch_file(mkfd(9), make("w9"))
                    ev.append(("add_watch", "w9"))
                    w.set_readable(9)
                    ev.append(("readable", 9))
            elif kind == "exit" and (state["armed"] or name == "end2"):
                raise ExitMainLoop
            elif kind == "boom" and state["armed"]:
                raise Boom(name)

        return f

    # registration order is deliberately not the due order
    H["aE"] = evl.alarm(DUE["aE"], make("aE"))
    H["aL"] = evl.alarm(DUE["aL"], make("aL"))
    H["aM"] = evl.alarm(DUE["aM"], make("aM"))
    H["w7"] = evl.watch_file(mkfd(7), make("w7"))
    H["w8"] = evl.watch_file(mkfd(8), make("w8"))
    if variant == "full":
        H["i1"] = evl.enter_idle(make("i1"))
        H["i2"] = evl.enter_idle(make("i2"))
    bodies["end"] = "exit"
    H["end"] = evl.alarm(DUE["end"], make("end"))
    # both descriptors are readable from the start (and again later): the order in which a wait reports them is a choice
    w.readable.add(7)
    ev.append(("readable", 7))
    w.readable.add(8)
    ev.append(("readable", 8))
    res = "ok"
    res2 = None
    try:
        with contextlib.redirect_stdout(io.StringIO()), contextlib.redirect_stderr(io.StringIO()):
            try:
                evl.run()
            except Horizon as e:
                res = f"HORIZON:{e}"
            except Boom:
                res = "Boom"
            except ReplayDivergence:
                raise
            except BaseException as e:  # noqa: BLE001
                res = f"EXC:{type(e).__name__}@{exc_site(e)}:{str(e)[:80]}"
            if w.horizon and not res.startswith("HORIZON"):
                res = f"HORIZON:{w.horizon}"
            if second_run and res == "Boom":
                # the exception must not be raised a second time
                ev.append(("second-run",))
                state["armed"] = False  # the callbacks that raised stay registered: they must not raise again in the second run
                bodies["end2"] = "exit"
                DUE["end2"] = None
                DUE["mid2"] = None
                try:
                    evl.alarm(0.25, make("mid2"))
                    evl.alarm(0.5, make("end2"))
                    evl.run()
                    res2 = "ok"
                except Boom:
                    res2 = "Boom"
                except BaseException as e:  # noqa: BLE001
                    res2 = f"EXC:{type(e).__name__}"
    finally:
        if closer:
            with contextlib.suppress(Exception):
                closer()
        logging.disable(logging.NOTSET)
    return w.points, list(ev), res, res2


# ----------------------------------------------------------------------
def accept(loopname, prog, events, res, res2):
    """the EventLoop contract over one recorded execution; returns [(clause, feature, detail)]"""
    variant, bodies = prog
    bodies = dict(bodies)
    tol = TOL.get(loopname, 1e-6)
    out = []
    alarms = {n: {"due": d, "fired": 0, "removed": False} for n, d in DUE.items() if d is not None}
    alarms = {n: a for n, a in alarms.items() if n in ("aE", "aL", "aM", "end")}
    watches = {"w7": True, "w8": True}
    idles = {"i1": True, "i2": True} if variant == "full" else {}
    pending_read = {}  # watch name -> index of the readable event not yet served
    first_raise = None
    raisers = []
    now = 0.0
    cb_index = []  # (index, name, t)
    idle_runs = {}  # name -> [indices]
    idle_reg_at = {n: -1 for n in idles}
    idle_removed_at = {}
    for k, e in enumerate(events):
        if e[0] == "second-run":
            break
        if e[0] == "readable":
            wn = f"w{e[1]}"
            if watches.get(wn):
                pending_read.setdefault(wn, k)
        elif e[0] == "add_alarm":
            alarms[e[1]] = {"due": e[2], "fired": 0, "removed": False}
        elif e[0] == "add_idle":
            idles[e[1]] = True
            idle_reg_at[e[1]] = k
        elif e[0] == "add_watch":
            watches[e[1]] = True
        elif e[0] == "rm_alarm":
            a = alarms[e[1]]
            if not a["fired"] and not a["removed"]:
                if (e[2], e[3]) != (True, False):
                    out.append(("remove-true-then-false", f"rm_{e[1]}", f"remove_alarm of the pending alarm {e[1]} returned {e[2]!r}, a second time {e[3]!r}"))
                a["removed"] = True
        elif e[0] == "rm_watch":
            if watches.get(e[1]):
                if e[2] is not True:
                    out.append(("remove-watch-result", f"rm_{e[1]}", f"remove_watch_file of the registered watch {e[1]} returned {e[2]!r}"))
                watches[e[1]] = False
                pending_read.pop(e[1], None)
        elif e[0] == "rm_idle":
            if idles.get(e[1]):
                if e[2] is not True:
                    out.append(("remove-idle-result", f"rm_{e[1]}", f"remove_enter_idle of the registered idle callback {e[1]} returned {e[2]!r}"))
                idles[e[1]] = False
                idle_removed_at[e[1]] = k
        elif e[0] == "cb":
            name, t = e[1], e[2]
            now = t
            cb_index.append((k, name, t))
            if name in alarms:
                a = alarms[name]
                if a["removed"]:
                    out.append(("alarm-removed-never-runs", f"rm_{name}", f"alarm {name} ran at t={t} after it had been removed successfully"))
                a["fired"] += 1
                if a["fired"] > 1:
                    out.append(("alarm-once", name, f"alarm {name} ran {a['fired']} times"))
                if t < a["due"] - tol:
                    out.append(("alarm-not-early", name, f"alarm {name} due at {a['due']} ran at t={t}"))
                for n2, b in alarms.items():
                    if n2 != name and not b["fired"] and not b["removed"] and b["due"] < a["due"] - tol:
                        out.append(("alarm-order", f"{name}-before-{n2}", f"alarm {name} (due {a['due']}) ran at t={t} while {n2} (due {b['due']}) was still pending"))
            elif name in watches or name.startswith("w"):
                if not watches.get(name):
                    out.append(("watch-only-while-registered", f"rm_{name}", f"watch callback {name} ran at t={t} after remove_watch_file had succeeded"))
                pending_read.pop(name, None)
            else:
                if not idles.get(name):
                    out.append(("idle-removed-never-runs", f"rm_{name}", f"idle callback {name} ran at t={t} after it had been removed"))
                idle_runs.setdefault(name, []).append(k)
            if bodies.get(name) in ("exit", "boom"):
                raisers.append(bodies[name])
                if first_raise is None:
                    first_raise = (k, name, bodies[name])
    # ---- how run() ended
    if first_raise is None:
        want = "ok"
    else:
        want = "ok" if first_raise[2] == "exit" else "Boom"
    feat = "+".join(sorted(set(bodies.values()) - {"nop"})) or "plain"
    # several callbacks of one wake-up may raise before the loop actually stops; a loop that serves the rest of the wake-up may let a later
    # Boom win over an earlier ExitMainLoop, but an exception that is not ExitMainLoop is never dropped: a silent end needs the first raiser to be ExitMainLoop
    also = {"Boom"} if len(raisers) > 1 and "boom" in raisers else set()
    if res != want and res not in also:
        if res.startswith("EXC:"):
            out.append(("only-callback-exceptions", res.split(":")[1], f"run() raised {res[4:]}; no callback raised that (expected: {want})"))
        elif res.startswith("HORIZON"):
            out.append(("terminates", feat, f"the loop did not end: {res} (expected: {want})"))
        elif want == "Boom":
            out.append(("raise-once", f"raised-in-{first_raise[1][:1]}", f"callback {first_raise[1]} raised Boom but run() ended with {res!r}"))
        else:
            out.append(("exit-silent", f"raised-in-{first_raise[1][:1]}", f"run() ended with {res!r}, expected a silent end (first raising callback: {first_raise})"))
        return out
    if res2 is not None and res2 != "ok":
        out.append(("raise-once", "second-run", f"after Boom left run() once, a second run() ended with {res2!r}"))
    if res2 == "ok" and ("second-run",) in events:
        # the second run is a run like any other: after its alarm callback the idle callbacks still registered run before the loop sleeps again
        seg = events[events.index(("second-run",)):]
        names = [e[1] for e in seg if e[0] == "cb"]
        if "mid2" in names:
            after = names[names.index("mid2") + 1:]
            # which idle callbacks are registered when mid2 runs (removals and additions of both runs, in order)
            live2 = {"i1": True, "i2": True} if variant == "full" else {}
            passed = False
            for e in events:
                if e[0] == "add_idle" and not passed:
                    live2[e[1]] = True
                elif e[0] == "rm_idle" and e[2] is True:
                    live2[e[1]] = False  # (also when an earlier idle callback of that very pass removes it)
                elif e[0] == "cb" and e[1] == "mid2":
                    passed = True
            for iname, live in live2.items():
                if live and iname not in after:
                    out.append(("idle-after-callback", "second-run", f"second run(): idle callback {iname} did not run after the alarm callback mid2 (callbacks of the second run: {names})"))
    if first_raise is not None and first_raise[1] != "end":
        return out  # the loop was stopped early: liveness clauses do not apply
    # ---- liveness (the loop ran until the sentinel alarm)
    for n, a in alarms.items():
        if not a["fired"] and not a["removed"] and a["due"] < DUE["end"]:
            out.append(("alarm-eventually", n, f"alarm {n} due at {a['due']} never ran before the loop ended at t={now}"))
    for wn, k in pending_read.items():
        if watches.get(wn):
            out.append(("watch-eventually", wn, f"descriptor of {wn} became readable (event {k}) and was never served"))
    # idle: after every alarm / watch callback each registered idle callback runs before the loop next sleeps
    for k, name, t in cb_index:
        if name in idle_reg_at and not name.startswith(("a", "w", "x", "e")):
            continue
        if name in ("end",):
            continue
        # the burst ends at the first later callback whose time is beyond t + SLACK
        end_k = len(events)
        for k2, n2, t2 in cb_index:
            if k2 > k and t2 > t + SLACK:
                end_k = k2
                break
        for iname, reg in list(idles.items()):
            regk = idle_reg_at.get(iname, -1)
            rmk = idle_removed_at.get(iname)
            first_idle = min((r for runs in idle_runs.values() for r in runs if r > k), default=end_k)
            if regk > min(end_k, first_idle):
                continue  # registered after the idle pass of this burst had begun (e.g. by an idle callback)
            if rmk is not None and rmk < end_k:
                continue  # removed during or before the burst
            if not any(k < r < end_k for r in idle_runs.get(iname, [])):
                out.append(("idle-after-callback", f"{iname}-after-{name[:1]}", f"callback {name} ran at t={t} (event {k}); idle callback {iname} was registered but did not run before the loop went quiescent"))
                break
    return out


# ----------------------------------------------------------------------
def programs(tier):
    out = [("full", ()), ("noidle", ())]
    for s in SLOTS:
        for b in BODIES:
            if s in ("i1", "i2") and b in ("add_a0", "add_a0_rm"):
                continue  # an idle callback that schedules a zero-delay alarm never lets the loop go quiescent
            out.append(("full", ((s, b),)))
            if s not in ("i1", "i2") and b in ("add_idle", "rm_aM", "add_a0_rm", "boom", "exit"):
                out.append(("noidle", ((s, b),)))
    pairs = []
    for (s1, s2) in itertools.combinations(SLOTS, 2):
        for b1 in BODIES:
            for b2 in BODIES:
                if (s1 in ("i1", "i2") and b1.startswith("add_a0")) or (s2 in ("i1", "i2") and b2.startswith("add_a0")):
                    continue
                pairs.append(("full", ((s1, b1), (s2, b2))))
    if tier == "quick":
        # every third pair, plus every pair in which both bodies raise (which exception wins is judged on those)
        pairs = [p for i, p in enumerate(pairs) if i % 3 == 0 or all(b in ("exit", "boom") for _s, b in p[1])]
    out += pairs
    if tier != "quick":
        # three bodies: a covering subset
        core = ["rm_aM", "rm_w7", "rm_i2", "add_a0_rm", "add_idle", "boom"]
        for (s1, s2, s3) in itertools.combinations(SLOTS, 3):
            for b1 in core:
                for b2 in core:
                    for b3 in core:
                        if any(sl in ("i1", "i2") and b.startswith("add_a0") for sl, b in ((s1, b1), (s2, b2), (s3, b3))):
                            continue
                        out.append(("full", ((s1, b1), (s2, b2), (s3, b3))))
    return out


def explore(ctx: Ctx, loopname, prog, bound, second_run):
    stack = [([], 0)]
    n = 0
    outcomes = set()
    while stack:
        pre, dev = stack.pop()
        try:
            pts, events, res, res2 = run_program(loopname, prog, pre, second_run)
        except ReplayDivergence as e:
            ctx.violation("replay-divergence", f"C13/replay-divergence/{loopname}", {"loop": loopname, "prog": prog, "choices": pre}, str(e))
            continue
        n += 1
        ctx.count("evaluations")
        trace = tuple(e for e in events if e[0] != "wait")
        outcomes.add((trace, res))
        ctx.obs(loopname, prog, pre, trace, res, res2)
        for clause, feat, detail in accept(loopname, prog, events, res, res2):
            ctx.violation(clause, f"C13/{clause}/{loopname}/{feat}", {"loop": loopname, "prog": prog, "choices": pre},
                          f"{detail}; trace {[e for e in trace if e[0] != 'readable'][:14]} -> {res}")
        for i in range(len(pre), len(pts)):
            if dev + 1 > bound:
                break
            for alt in range(1, pts[i][0]):
                stack.append(([p[1] for p in pts[:i]] + [alt], dev + 1))
    ctx.distinct("outcomes", (loopname, prog, len(outcomes)))
    for o in outcomes:
        ctx.distinct("nontrivial", (loopname, prog, o))
    return n


def loop_task(task, ctx: Ctx):
    loopname, progs, bound, second_run = task
    env.reset("utf-8")
    # replay determinism of the harness itself: the default schedule twice
    a = run_program(loopname, progs[0], [], False)
    b = run_program(loopname, progs[0], [], False)
    strip = lambda evs: [e for e in evs if e[0] != "wait"]  # noqa: E731
    if (strip(a[1]), a[2]) != (strip(b[1]), b[2]):
        ctx.violation("replay-divergence", f"C13/replay-divergence/{loopname}", {"loop": loopname, "prog": progs[0], "choices": []}, "two runs of the default schedule differ")
    for prog in progs:
        explore(ctx, loopname, prog, bound, second_run)


# ---------------------------------------------------------------------- part 2: many alarms, every registration order
def run_alarms(loopname, order, remove, where):
    """register len(order) alarms with delays order[i]*0.5 in that order; remove alarm number `remove` (a delay rank) either before run()
    ('pre') or from the callback of the earliest other alarm ('cb'); -> (fired [(rank, time)], removal results, result)"""
    logging.disable(logging.CRITICAL)
    w = World(())
    evl, _mkfd, closer = MAKERS[loopname](w)
    fired, rm = [], []
    H = {}

    def do_rm():
        for _ in range(2):
            try:
                rm.append(evl.remove_alarm(H[remove]))
            except Exception as e:  # noqa: BLE001
                rm.append(f"EXC:{exc_site(e)}")

    first_other = min((r for r in order if r != remove), default=None)

    def make(rank):
        def f(*_a):
            fired.append((rank, round(w.now(), 3)))
            if where == "cb" and rank == first_other and remove is not None:
                do_rm()

        return f

    def end(*_a):
        raise ExitMainLoop

    for rank in order:
        cb = make(rank)
        # callbacks need not be plain functions: every second one is a functools.partial (no __name__), every third a callable object
        if rank % 3 == 0:
            cb = _Callable(cb)
        elif rank % 2 == 0:
            cb = functools.partial(cb)
        H[rank] = evl.alarm(rank * 0.5, cb)
    evl.alarm(len(order) * 0.5 + 2.0, end)
    if where == "pre" and remove is not None:
        do_rm()
    res = "ok"
    try:
        with contextlib.redirect_stdout(io.StringIO()), contextlib.redirect_stderr(io.StringIO()):
            try:
                evl.run()
            except Horizon as e:
                res = f"HORIZON:{e}"
            except BaseException as e:  # noqa: BLE001
                res = f"EXC:{type(e).__name__}@{exc_site(e)}"
            if w.horizon and not res.startswith("HORIZON"):
                res = f"HORIZON:{w.horizon}"
    finally:
        if closer:
            with contextlib.suppress(Exception):
                closer()
        logging.disable(logging.NOTSET)
    return fired, rm, res


class _Callable:
    def __init__(self, fn):
        self.fn = fn

    def __call__(self, *a):
        return self.fn(*a)


def judge_alarms(loopname, order, remove, where, fired, rm, res):
    out = []
    tol = max(TOL.get(loopname, 1e-6), 2e-3)
    first_other = min((r for r in order if r != remove), default=None)
    expect = sorted(r for r in order if r != remove or (where == "cb" and remove < (first_other or 0)))
    if res != "ok":
        out.append(("run-returns", "many-alarms", f"run() ended with {res}"))
        return out
    if [r for r, _t in fired] != expect:
        out.append(("alarm-order", "many-alarms/" + ("removed" if remove is not None else "plain"),
                    f"alarms with due ranks {list(order)} registered in that order, rank {remove} removed ({where}): fired {[r for r, _ in fired]}, expected {expect}"))
    else:
        late = [(r, t) for r, t in fired if abs(t - r * 0.5) > tol + (SLACK if loopname == "twisted" else 0)]
        if late:
            out.append(("alarm-time", "many-alarms", f"order {list(order)} remove {remove} ({where}): fired at {late}, due at rank*0.5"))
    already = where == "cb" and first_other is not None and remove is not None and remove < first_other
    if remove is not None and (where == "pre" or first_other is not None) and not already:
        # (what removing an alarm that has already fired reports is not specified)
        want = [True, False]
        if rm != want:
            out.append(("remove-result", "many-alarms", f"order {list(order)}: remove_alarm twice on rank {remove} ({where}) returned {rm}, expected {want}"))
    return out


def alarm_task(task, ctx: Ctx):
    loopname, orders = task
    env.reset("utf-8")
    for order in orders:
        cases = [(None, "pre")] + [(r, "pre") for r in order] + [(r, "cb") for r in order if len(order) > 1]
        for remove, where in cases:
            ctx.count("evaluations")
            fired, rm, res = run_alarms(loopname, order, remove, where)
            ctx.distinct("nontrivial", (loopname, "alarms", order, remove, where))
            for clause, feat, detail in judge_alarms(loopname, order, remove, where, fired, rm, res):
                ctx.violation(clause, f"C13/{clause}/{loopname}/{feat}", {"part": "alarms", "loop": loopname, "order": list(order), "remove": remove, "where": where}, detail)


# ---------------------------------------------------------------------- part 3: watches and idle callbacks removed before run()
def run_prerun(loopname, rm_watch, rm_idle):
    """three watches (descriptors 0, 8, 9: all readable from the start) and two idle callbacks registered before run(); the subsets rm_watch / rm_idle are removed
    again before run(); -> (calls, removal results, result)"""
    logging.disable(logging.CRITICAL)
    w = World(())
    evl, mkfd, closer = MAKERS[loopname](w)
    calls, rm = [], []
    H = {}

    def mk_watch(fd):
        def f(*_a):
            calls.append(("w", fd))
            w.readable.discard(fd)

        return f

    def mk_idle(n):
        def f(*_a):
            calls.append(("i", n))

        return f

    def end(*_a):
        raise ExitMainLoop

    for fd in (0, 8, 9):
        H[("w", fd)] = evl.watch_file(mkfd(fd), mk_watch(fd))
        w.readable.add(fd)
    for n in (1, 2):
        H[("i", n)] = evl.enter_idle(mk_idle(n))
    evl.alarm(1.0, end)
    for fd in rm_watch:
        try:
            rm.append((("w", fd), evl.remove_watch_file(H[("w", fd)])))
        except Exception as e:  # noqa: BLE001
            rm.append((("w", fd), f"EXC:{exc_site(e)}"))
    for n in rm_idle:
        try:
            rm.append((("i", n), evl.remove_enter_idle(H[("i", n)])))
        except Exception as e:  # noqa: BLE001
            rm.append((("i", n), f"EXC:{exc_site(e)}"))
    res = "ok"
    try:
        with contextlib.redirect_stdout(io.StringIO()), contextlib.redirect_stderr(io.StringIO()):
            try:
                evl.run()
            except Horizon as e:
                res = f"HORIZON:{e}"
            except BaseException as e:  # noqa: BLE001
                res = f"EXC:{exc_site(e)}"
            if w.horizon and not res.startswith("HORIZON"):
                res = f"HORIZON:{w.horizon}"
    finally:
        if closer:
            with contextlib.suppress(Exception):
                closer()
        logging.disable(logging.NOTSET)
    return calls, rm, res


def judge_prerun(loopname, rm_watch, rm_idle, calls, rm, res):
    out = []
    if res != "ok":
        out.append(("run-returns", "prerun", f"run() ended with {res}"))
        return out
    for what, r in rm:
        if r is not True:
            out.append(("remove-result", f"prerun/{'watch' if what[0] == 'w' else 'idle'}", f"removing {what} before run() returned {r!r}, expected True"))
    for fd in (0, 8, 9):
        n = calls.count(("w", fd))
        if fd in rm_watch and n:
            out.append(("watch-removed-silent", "prerun", f"watch on {fd} was removed before run() but its callback ran {n}x"))
        if fd not in rm_watch and n != 1:
            out.append(("watch-called", "prerun", f"watch on {fd} (readable once) ran {n}x"))
    for n_ in (1, 2):
        n = calls.count(("i", n_))
        if n_ in rm_idle and n:
            out.append(("idle-removed-silent", "prerun", f"idle callback {n_} was removed before run() but ran {n}x"))
        if n_ not in rm_idle and not n and len(rm_watch) < 3:
            out.append(("idle-after-callback", "prerun", f"idle callback {n_} never ran although watch callbacks ran"))
    return out


def prerun_task(task, ctx: Ctx):
    (loopname,) = task
    env.reset("utf-8")
    for k in range(4):
        for rm_watch in itertools.combinations((0, 8, 9), k):
            for j in range(3):
                for rm_idle in itertools.combinations((1, 2), j):
                    ctx.count("evaluations")
                    calls, rm, res = run_prerun(loopname, rm_watch, rm_idle)
                    ctx.distinct("nontrivial", (loopname, "prerun", rm_watch, rm_idle))
                    for clause, feat, detail in judge_prerun(loopname, rm_watch, rm_idle, calls, rm, res):
                        ctx.violation(clause, f"C13/{clause}/{loopname}/{feat}", {"part": "prerun", "loop": loopname, "rm_watch": list(rm_watch), "rm_idle": list(rm_idle)}, detail + f"; calls {calls}")


# ---------------------------------------------------------------------- part 4: two event-loop objects over one underlying loop
def twin_task(task, ctx: Ctx):
    """asyncio / tornado: two urwid event-loop objects created over the same underlying loop, in either order; the one that runs must behave as if alone:
    Boom raised by its alarm leaves its run(), ExitMainLoop ends it silently, and the other object's later run is clean"""
    (loopname,) = task
    env.reset("utf-8")
    for first_created in ("A", "B"):
        for kind in ("boom", "exit"):
            ctx.count("evaluations")
            case = {"part": "twins", "loop": loopname, "created_first": first_created, "kind": kind}
            logging.disable(logging.CRITICAL)
            w = World(())
            try:
                if loopname == "asyncio":
                    from urwid.event_loop.asyncio_loop import AsyncioEventLoop
                    from ..virt.loops import VLoop

                    base = VLoop(w)
                    mk = lambda: AsyncioEventLoop(loop=base)  # noqa: E731
                    closer = base.close
                else:
                    from tornado.platform.asyncio import AsyncIOLoop
                    from urwid.event_loop.tornado_loop import TornadoEventLoop
                    from ..virt.loops import VLoop
                    import asyncio as _a

                    base = VLoop(w)
                    _a.set_event_loop(base)
                    io_ = AsyncIOLoop(asyncio_loop=base)
                    io_.time = lambda: w.t
                    mk = lambda: TornadoEventLoop(io_)  # noqa: E731

                    def closer():
                        io_.close(all_fds=False)
                        _a.set_event_loop(None)

                objs = {}
                for n_ in (("A", "B") if first_created == "A" else ("B", "A")):
                    objs[n_] = mk()
                log = []

                def raiser():
                    log.append("a1")
                    raise Boom("twin") if kind == "boom" else ExitMainLoop()

                def ender():
                    log.append("b1")
                    raise ExitMainLoop

                objs["A"].alarm(0.5, raiser)
                res = []
                for who, fn in (("A", None), ("B", ender)):
                    if fn is not None:
                        objs[who].alarm(0.5, fn)
                    try:
                        with contextlib.redirect_stdout(io.StringIO()), contextlib.redirect_stderr(io.StringIO()):
                            objs[who].run()
                        res.append("ok")
                    except Boom:
                        res.append("Boom")
                    except Horizon as e:
                        res.append(f"HORIZON:{e}")
                    except BaseException as e:  # noqa: BLE001
                        res.append(f"EXC:{exc_site(e)}")
            finally:
                logging.disable(logging.NOTSET)
                with contextlib.suppress(Exception):
                    closer()
            want = ["Boom" if kind == "boom" else "ok", "ok"]
            ctx.obs(loopname, first_created, kind, res, log)
            if res != want:
                ctx.violation("raise-once" if kind == "boom" else "exit-silent", f"C13/{'raise-once' if kind == 'boom' else 'exit-silent'}/{loopname}/two-loop-objects", case,
                              f"two {loopname} event-loop objects over one underlying loop ({first_created} created first): A.run() with an alarm raising {kind}, then B.run() ended by ExitMainLoop gave {res}, expected {want}; callbacks {log}")
            else:
                ctx.distinct("nontrivial", (loopname, "twins", first_created, kind))


# ---------------------------------------------------------------------- part 5: exceptions that are not Exception subclasses
class Quit(BaseException):
    pass


def baseexc_task(task, ctx: Ctx):
    """an alarm / watch / idle callback raises SystemExit, KeyboardInterrupt or an application BaseException: run() re-raises that very object"""
    (loopname,) = task
    env.reset("utf-8")
    for site in ("alarm", "watch", "idle"):
        if loopname == "trio" and site == "idle":
            continue  # (exceptions from idle callbacks under trio: see the known finding)
        for exc_cls in (SystemExit, KeyboardInterrupt, Quit, ExceptionGroup):
            ctx.count("evaluations")
            case = {"part": "baseexc", "loop": loopname, "site": site, "exc": exc_cls.__name__}
            logging.disable(logging.CRITICAL)
            w = World(())
            evl, mkfd, closer = MAKERS[loopname](w)
            # (a group with a single member: the callback raised the group, not its member)
            raised = exc_cls("from " + site) if exc_cls is not ExceptionGroup else ExceptionGroup("from " + site, [ValueError("member")])
            state = {"armed": True}

            def boom(*_a):
                if state["armed"]:
                    state["armed"] = False
                    raise raised

            def end(*_a):
                raise ExitMainLoop

            def nop(*_a):
                w.readable.discard(7)

            if site == "alarm":
                evl.alarm(0.5, boom)
            elif site == "watch":
                evl.watch_file(mkfd(7), lambda *_a: (w.readable.discard(7), boom()))
                w.readable.add(7)
            else:
                evl.enter_idle(boom)
                evl.alarm(0.5, nop)
            evl.alarm(2.0, end)
            res = "returned"
            try:
                with contextlib.redirect_stdout(io.StringIO()), contextlib.redirect_stderr(io.StringIO()):
                    evl.run()
            except Horizon as e:
                res = f"HORIZON:{e}"
            except BaseException as e:  # noqa: BLE001
                same = e is raised or (
                    # (a group may be re-created on its way out: same message and members is the same group)
                    isinstance(raised, ExceptionGroup) and isinstance(e, ExceptionGroup) and e.message == raised.message
                    and [type(x) for x in e.exceptions] == [type(x) for x in raised.exceptions]
                )
                res = "raised-same" if same else f"raised-other:{type(e).__name__}"
            finally:
                logging.disable(logging.NOTSET)
                if closer:
                    with contextlib.suppress(BaseException):
                        closer()
            if w.horizon and res == "returned":
                res = f"HORIZON:{w.horizon}"
            ctx.obs(loopname, site, exc_cls.__name__, res)
            if res != "raised-same":
                ctx.violation("raise-once", f"C13/raise-once/{loopname}/base-exception/{site}", case, f"{exc_cls.__name__} raised by the {site} callback: run() {res}")
            else:
                ctx.distinct("nontrivial", (loopname, "baseexc", site, exc_cls.__name__))


# ---------------------------------------------------------------------- part 6: a callback that takes time
def slow_task(task, ctx: Ctx):
    """alarm S (due 0.1) runs long enough for alarm B (due 0.5) to become overdue and then registers alarm A with delay 0: B is due before A, so the
    order is S, B, A; likewise with A registered with a small positive delay that is still due after B"""
    (loopname,) = task
    env.reset("utf-8")
    for delay_a in (0, 0.05):
        ctx.count("evaluations")
        case = {"part": "slow", "loop": loopname, "delay_a": delay_a}
        logging.disable(logging.CRITICAL)
        w = World(())
        evl, _mkfd, closer = MAKERS[loopname](w)
        log = []

        def a_cb(*_a):
            log.append("A")

        def s_cb(*_a):
            log.append("S")
            w.t += 1.0  # the callback takes a second of (virtual) time
            evl.alarm(delay_a, a_cb)

        def b_cb(*_a):
            log.append("B")

        def end(*_a):
            raise ExitMainLoop

        evl.alarm(0.1, s_cb)
        evl.alarm(0.5, b_cb)
        evl.alarm(5.0, end)
        res = "ok"
        try:
            with contextlib.redirect_stdout(io.StringIO()), contextlib.redirect_stderr(io.StringIO()):
                evl.run()
        except Horizon as e:
            res = f"HORIZON:{e}"
        except BaseException as e:  # noqa: BLE001
            res = f"EXC:{exc_site(e)}"
        finally:
            logging.disable(logging.NOTSET)
            if closer:
                with contextlib.suppress(BaseException):
                    closer()
        ctx.obs(loopname, delay_a, log, res)
        if res != "ok" or log != ["S", "B", "A"]:
            ctx.violation("alarm-order", f"C13/alarm-order/{loopname}/overdue-before-new", case, f"callbacks ran in the order {log} ({res}); B (due 0.5) was overdue when A (delay {delay_a} at t=1.1) was registered, so S, B, A is required")
        else:
            ctx.distinct("nontrivial", (loopname, "slow", delay_a))


def alarm_orders(nmax):
    return [p for n in range(1, nmax + 1) for p in itertools.permutations(range(1, n + 1))]


ALARM_NMAX = {"quick": {"select": 7, "zmq": 7, "asyncio": 5, "tornado": 4, "twisted": 5, "trio": 3},
              "thorough": {"select": 8, "zmq": 8, "asyncio": 7, "tornado": 6, "twisted": 7, "trio": 5}}


SECOND_RUN = {"select": True, "asyncio": True, "zmq": True, "tornado": True, "twisted": False, "trio": False}


def run(tier, R):
    progs = programs(tier)
    tasks = []
    for loopname in LOOPS:
        bound = 2 if tier == "quick" else 3
        sel = progs
        if loopname == "trio":
            bound = 1 if tier == "quick" else 2
            sel = progs[::4] if tier != "quick" else progs[::12]
        if loopname in ("twisted", "tornado") and tier == "quick":
            sel = progs[::2]
        n = 24
        for i in range(0, len(sel), n):
            tasks.append((loopname, sel[i : i + n], bound, SECOND_RUN[loopname]))
    R.run_tasks(loop_task, tasks, recheck=0.02, task_timeout=1800)
    atasks = []
    for loopname in LOOPS:
        orders = alarm_orders(ALARM_NMAX[tier][loopname])
        for i in range(0, len(orders), 400):
            atasks.append((loopname, orders[i : i + 400]))
    R.run_tasks(alarm_task, atasks, recheck=0.02, task_timeout=1800)
    R.run_tasks(prerun_task, [(ln,) for ln in LOOPS], recheck=0.0, task_timeout=600)
    R.run_tasks(twin_task, [("asyncio",), ("tornado",)], recheck=0.0, task_timeout=600)
    R.run_tasks(baseexc_task, [(ln,) for ln in LOOPS], recheck=0.0, task_timeout=600)
    R.run_tasks(slow_task, [(ln,) for ln in LOOPS if ln != "trio"], recheck=0.0, task_timeout=600)  # (trio runs on its own mock clock)
    ev = int(R.ctx.counts["evaluations"])
    nt = len(R.ctx.sets.get("nontrivial", ()))
    cov = {
        "states": nt,
        "transitions": ev,
        "traces_validated_against_impl": ev,
        "evaluations": ev,
        "distinct_nontrivial": nt,
        "rule": f"{len(progs)} programs (3 alarms registered out of due order, 2 watches, 0 or 2 idle callbacks, a sentinel alarm; every single callback body of "
        f"{BODIES} in every slot, and {'every third pair (and every pair of two raising bodies)' if tier == 'quick' else 'every pair'} of bodies in two slots" + (", a 6^3 lattice of three bodies in every slot triple" if tier != "quick" else "") + f") x 6 loops (select, asyncio, tornado, twisted, zmq, trio) x every "
        f"schedule with at most {2 if tier == 'quick' else 3} deviations (trio: {1 if tier == 'quick' else 2}) from the default environment answer (which readable descriptors a wait "
        "reports, in which order; trio: batch reversal per scheduler tick); each execution judged by the contract acceptor. Part 2: every registration order of n alarms with distinct due "
        f"times (n up to {ALARM_NMAX[tier]}), with no removal, each alarm removed before run(), and each alarm removed from the callback of the earliest other alarm: firing order, firing "
        "times and remove_alarm results. Part 3: three readable watches and two idle callbacks registered before run(), every subset of them removed again before run(); alarm callbacks are plain functions, functools.partial objects and callable instances. Part 4: two asyncio / tornado event-loop objects over one underlying loop, created in either order. Part 5: SystemExit / KeyboardInterrupt / an application BaseException raised by an alarm, watch or idle callback on every loop (also a one-member ExceptionGroup). Part 6: a callback that takes a second of virtual time while another alarm becomes overdue, then registers a zero-delay alarm. non-trivial = distinct (loop, program, callback trace, result)",
        "exhaustive": True,
        "bound": {"deviations": 2 if tier == "quick" else 3, "trio_deviations": 1 if tier == "quick" else 2},
        "distinct_outcome_sets": len(R.ctx.sets.get("outcomes", ())),
    }
    return {
        "coverage": cov,
        "assumptions": [
            "the environment is a legal OS: a wait with a readable registered descriptor returns at once with a non-empty subset; otherwise time advances by exactly the time-out",
            "idle slack 12 ms of virtual time (covers twisted's 1/256 s idle emulation); trio time tolerance 1 ms (its mock clock autojumps); every other loop, tornado included, runs on the exact virtual clock",
            "after a callback raised, only the way run() ends is judged; liveness clauses are judged on executions that reach the sentinel alarm; when several callbacks "
            "raised before the loop stopped, run() may raise Boom if any of them raised it, and may end silently only if the first one raised ExitMainLoop",
            "after Boom left run(), a second run() is performed on select, asyncio, zmq and tornado (twisted and trio cannot be restarted by this harness): it must not raise again, and the idle callbacks still registered must run after its alarm callback",
        ],
    }


def replay(case, ctx):
    def tup(p):
        return tuple(tup(x) if isinstance(x, (list, tuple)) else x for x in p)

    loopname = case["loop"]
    if case.get("part") == "slow":
        slow_task((loopname,), ctx)
        return
    if case.get("part") == "baseexc":
        baseexc_task((loopname,), ctx)
        return
    if case.get("part") == "twins":
        twin_task((loopname,), ctx)
        return
    if case.get("part") == "prerun":
        rw, ri = tuple(case["rm_watch"]), tuple(case["rm_idle"])
        calls, rm, res = run_prerun(loopname, rw, ri)
        print("  calls:", calls, "removals:", rm, "result:", res)
        for clause, feat, detail in judge_prerun(loopname, rw, ri, calls, rm, res):
            ctx.violation(clause, f"C13/{clause}/{loopname}/{feat}", case, detail)
        return
    if case.get("part") == "alarms":
        order, remove, where = tuple(case["order"]), case["remove"], case["where"]
        fired, rm, res = run_alarms(loopname, order, remove, where)
        print("  fired:", fired, "remove results:", rm, "result:", res)
        for clause, feat, detail in judge_alarms(loopname, order, remove, where, fired, rm, res):
            ctx.violation(clause, f"C13/{clause}/{loopname}/{feat}", case, detail)
        return
    prog = tup(case["prog"])
    choices = list(case["choices"])
    pts, events, res, res2 = run_program(loopname, prog, choices, SECOND_RUN[loopname])
    for e in events:
        print("   ", e)
    print("  result:", res, res2)
    for clause, feat, detail in accept(loopname, prog, events, res, res2):
        ctx.violation(clause, f"C13/{clause}/{loopname}/{feat}", case, detail)
