"""C09 — cursor position and mouse hit-testing agree with what is drawn.

Shape E: bounded-exhaustive enumeration of typed widget trees whose leaves are self-painting,
recording probes (and recording Edit / SelectableIcon subclasses marked through an AttrMap), every
size of a lattice that satisfies the fit precondition (verified, not assumed: every leaf was rendered
and every cell of every leaf is visible in the top canvas), and every cell of the rendered area:
  cursor-agrees  get_cursor_coords(size) == render(size, True).cursor
  hit            a button-1 press on a cell showing leaf L reaches L with L-local coordinates, and no other leaf
  move-iff       move_cursor_to_coords(size, X, Y) on a cell showing a selectable leaf succeeds iff the leaf accepts its local cell
  move-row       after a successful move the reported (and rendered) cursor is on row Y
Ground truth for "what is drawn" is the rendered canvas itself.
"""
from __future__ import annotations

import itertools

from .. import env
from ..core import Ctx, exc_site
from ..probe import Probe, cell_map

import urwid

ID = "C09"
LEVEL = "model_checking"


# ----------------------------------------------------------------------
# recording real leaves
# ----------------------------------------------------------------------
class _Rec:
    def _init_rec(self, name):
        self.name = name
        self.log = []

    def render(self, size, focus=False):
        canv = super().render(size, focus)
        self.log.append(("render", tuple(size), bool(focus), canv.rows()))
        return canv

    def mouse_event(self, size, event, button, col, row, focus):
        self.log.append(("mouse", tuple(size), event, button, col, row, bool(focus)))
        return super().mouse_event(size, event, button, col, row, focus)



class REdit(_Rec, urwid.Edit):
    def __init__(self, name, *a, **kw):
        urwid.Edit.__init__(self, *a, **kw)
        self._init_rec(name)

    def move_cursor_to_coords(self, size, x, y):
        self.log.append(("move", tuple(size), x, y))
        return super().move_cursor_to_coords(size, x, y)


class ParkedEdit(REdit):
    """a field that parks the terminal cursor on its first cell: overrides the get_cursor_coords half of the (render, get_cursor_coords) pair"""

    def get_cursor_coords(self, size):
        super().get_cursor_coords(size)
        return (0, 0)

    def move_cursor_to_coords(self, size, x, y):
        self.log.append(("move", tuple(size), x, y))
        return False  # the parked cursor does not move


class RLineBox(urwid.LineBox):
    """LineBox that records the sizes it is rendered at (it needs 3 columns / 3 rows: borders + 1)"""

    def __init__(self, *a, **kw):
        super().__init__(*a, **kw)
        self.sizes = []

    def render(self, size, focus=False):
        self.sizes.append(tuple(size))
        return super().render(size, focus)


class RIcon(_Rec, urwid.SelectableIcon):
    def __init__(self, name, *a, **kw):
        urwid.SelectableIcon.__init__(self, *a, **kw)
        self._init_rec(name)

    def mouse_event(self, size, event, button, col, row, focus):  # SelectableIcon has none: record, report unhandled
        self.log.append(("mouse", tuple(size), event, button, col, row, bool(focus)))
        return False



class Leaf:
    """a leaf of a fixture: the widget placed in the tree (possibly an AttrMap marking a real widget), the recorder, twin factory"""

    def __init__(self, name, placed, rec, kind, twin):
        self.name = name
        self.placed = placed
        self.rec = rec
        self.kind = kind
        self.twin = twin


LEAF_KINDS = ["p2", "p1", "pdeny", "edit", "editcap", "icon", "punsel", "editpark"]
LEAF_KINDS_BOX = ["pbox", "pboxdeny"]


def mk_leaf(kind, name) -> Leaf:
    if kind == "p2":
        p = Probe(name, ("flow",), (2, 2), selectable=True, cursor=(0, 0))
        return Leaf(name, p, p, kind, None)
    if kind == "p1":
        p = Probe(name, ("flow",), (2, 1), selectable=True, cursor=(0, 0))
        return Leaf(name, p, p, kind, None)
    if kind == "pdeny":
        p = Probe(name, ("flow",), (2, 3), selectable=True, cursor=(0, 0), accept=lambda x, y, c, r: y != 1)
        return Leaf(name, p, p, kind, None)
    if kind == "punsel":
        p = Probe(name, ("flow",), (2, 1), selectable=False)
        return Leaf(name, p, p, kind, None)
    if kind == "pbox":
        p = Probe(name, ("box",), (2, 2), selectable=True, cursor=(0, 0))
        return Leaf(name, p, p, kind, None)
    if kind == "pboxnocur":
        p = Probe(name, ("box",), (2, 2), selectable=True, cursor=None)
        return Leaf(name, p, p, kind, None)
    if kind == "pboxdeny":
        p = Probe(name, ("box",), (2, 2), selectable=True, cursor=(0, 0), accept=lambda x, y, c, r: x != 1)
        return Leaf(name, p, p, kind, None)
    if kind == "edit":
        mk = lambda: REdit(name, "c:", "ab\ncd", multiline=True)  # noqa: E731
    elif kind == "editcap":
        mk = lambda: REdit(name, "ca\np:", "xyz")  # noqa: E731  caption spans two rows
    elif kind == "editpark":
        mk = lambda: ParkedEdit(name, "", "ab\ncd", multiline=True)  # noqa: E731
    elif kind == "icon":
        mk = lambda: RIcon(name, "ic", 1)  # noqa: E731
    else:
        raise AssertionError(kind)
    w = mk()
    return Leaf(name, urwid.AttrMap(w, {None: (name, "r")}), w, kind, mk)


# ----------------------------------------------------------------------
# fixtures: name -> builder(kind) -> (root, [leaves])
# ----------------------------------------------------------------------
class Fx:
    def __init__(self):
        self.leaves: list = []
        self.containers: list = []
        self.n = 0

    def leaf(self, kind):
        self.n += 1
        lf = mk_leaf(kind, f"L{self.n}")
        self.leaves.append(lf)
        return lf.placed


def containers():
    """list of (name, slot, fn(fx, child_widget) -> widget); slot 'flow' or 'box' = what the varying child must be"""
    P = urwid.Pile
    C = urwid.Columns
    out = []

    def add(name, slot, fn):
        out.append((name, slot, fn))

    add("Pile[c,p2]", "flow", lambda fx, c: P([c, fx.leaf("p2")]))
    add("Pile[p1,c;f1]", "flow", lambda fx, c: P([fx.leaf("p1"), c], focus_item=1))
    add("Pile[punsel,c,p1;f1]", "flow", lambda fx, c: P([fx.leaf("punsel"), c, fx.leaf("p1")], focus_item=1))
    add("Pile[packc,weightbox]", "flow", lambda fx, c: P([("pack", c), fx.leaf("pbox")]))
    add("Pile[given2box,c?]", "box", lambda fx, c: P([(2, c), ("weight", 1, fx.leaf("pbox"))]))
    add("Pile[weight2c,weight1box;f1]", "box", lambda fx, c: P([("weight", 2, c), ("weight", 1, fx.leaf("pbox"))], focus_item=1))
    add("Columns[c,p2;d1]", "flow", lambda fx, c: C([c, fx.leaf("p2")], 1))
    add("Columns[p1,c;d0,f1]", "flow", lambda fx, c: C([fx.leaf("p1"), c], 0, focus_column=1))
    add("Columns[given3c,pdeny;d2]", "flow", lambda fx, c: C([(3, c), fx.leaf("pdeny")], 2))
    add("Columns[punsel,c,p1;d1,f1]", "flow", lambda fx, c: C([fx.leaf("punsel"), c, fx.leaf("p1")], 1, focus_column=1))
    add("Columns[given3c,punsel5;d1]", "flow", lambda fx, c: C([(3, c), (5, fx.leaf("punsel"))], 1))  # a wider label to the right of the field
    add("Columns[packicon,c]", "flow", lambda fx, c: C([("pack", fx.leaf("icon")), c], 1, focus_column=1))
    add("Columns[boxcol,c]", "flow", lambda fx, c: C([(2, fx.leaf("pbox")), c], 1, box_columns=[0], focus_column=1))
    add("Columns[cbox,weightbox]", "box", lambda fx, c: C([("weight", 2, c), fx.leaf("pbox")], 1))
    add("Frame[body,h1,f2]", "box", lambda fx, c: urwid.Frame(c, header=fx.leaf("p1"), footer=fx.leaf("p2")))
    add("Frame[body,h2;focus-header]", "box", lambda fx, c: urwid.Frame(c, header=fx.leaf("p2"), focus_part="header"))
    add("Frame[body,f1;focus-footer]", "box", lambda fx, c: urwid.Frame(c, footer=fx.leaf("p1"), focus_part="footer"))
    add("Frame[boxbody,header=c]", "flow", lambda fx, c: urwid.Frame(fx.leaf("pbox"), header=c, focus_part="header"))
    add("Frame[boxbody,footer=c,h1]", "flow", lambda fx, c: urwid.Frame(fx.leaf("pbox"), header=fx.leaf("p1"), footer=c, focus_part="footer"))
    for va in ("top", "middle", "bottom"):
        add(f"Filler[{va}]", "flow", lambda fx, c, va=va: urwid.Filler(c, va))
    add("Filler[middle,t1b2]", "flow", lambda fx, c: urwid.Filler(c, "middle", top=1, bottom=2))
    add("Filler[rel30,t1]", "flow", lambda fx, c: urwid.Filler(c, ("relative", 30), top=1))
    add("Filler[box,middle,3]", "box", lambda fx, c: urwid.Filler(c, "middle", 3))
    add("Filler[box,bottom,rel60]", "box", lambda fx, c: urwid.Filler(c, "bottom", ("relative", 60)))
    for al in ("left", "center", "right"):
        add(f"Padding[{al},4]", "flow", lambda fx, c, al=al: urwid.Padding(c, al, 4))
    add("Padding[center,4,l1r2]", "flow", lambda fx, c: urwid.Padding(c, "center", 4, left=1, right=2))
    add("Padding[right,rel50]", "flow", lambda fx, c: urwid.Padding(c, "right", ("relative", 50)))
    add("Padding[rel30,rel60,min3]", "flow", lambda fx, c: urwid.Padding(c, ("relative", 30), ("relative", 60), min_width=3))
    add("Padding[box,center,4]", "box", lambda fx, c: urwid.Padding(c, "center", 4))
    add("Overlay[box;center4,middle2]", "box", lambda fx, c: urwid.Overlay(c, urwid.SolidFill("."), "center", 4, "middle", 2))
    add("Overlay[box;right-rel50,bottom-rel50,l1t1]", "box", lambda fx, c: urwid.Overlay(c, urwid.SolidFill("."), "right", ("relative", 50), "bottom", ("relative", 50), left=1, top=1))
    add("Overlay[flow;center4,middle-pack]", "flow", lambda fx, c: urwid.Overlay(c, urwid.SolidFill("."), "center", 4, "middle", "pack"))
    add("Overlay[flow;left3,bottom-pack,r1b1]", "flow", lambda fx, c: urwid.Overlay(c, urwid.SolidFill("."), "left", 3, "bottom", "pack", right=1, bottom=1))
    # a message box without a cursor over a form: the varying child is the bottom widget
    add("Overlay[box;nocursor-top over c]", "box", lambda fx, c: urwid.Overlay(fx.leaf("pboxnocur"), c, "center", 2, "middle", 1))
    add("BoxAdapter[3]", "box", lambda fx, c: urwid.BoxAdapter(c, 3))
    add("LineBox", "any", lambda fx, c: RLineBox(c))
    add("LineBox[title,no-bottom]", "any", lambda fx, c: RLineBox(c, "t", bline="", blcorner="", brcorner=""))
    add("AttrMap", "any", lambda fx, c: urwid.AttrMap(c, "a", "f"))
    add("WidgetPlaceholder", "any", lambda fx, c: urwid.WidgetPlaceholder(c))
    add("GridFlow[c,p1,p1;w3]", "flow", lambda fx, c: urwid.GridFlow([c, fx.leaf("p1"), fx.leaf("p1")], 3, 1, 1, "left"))
    add("GridFlow[p1,c,p1;w4,center,f1]", "flow", lambda fx, c: urwid.GridFlow([fx.leaf("p1"), c, fx.leaf("p1")], 4, 2, 0, "center", focus=1))
    add("ListBox[c]", "flow", lambda fx, c: urwid.ListBox(urwid.SimpleFocusListWalker([c])))
    add("ListBox[p1,c,p2;f1]", "flow", lambda fx, c: _listbox(fx, c, focus=1))
    add("ListBox[p1,c,p2;f1,valign-bottom]", "flow", lambda fx, c: _listbox(fx, c, focus=1, valign="bottom"))
    add("ListBox[p1,c,p2;f2,valign-middle]", "flow", lambda fx, c: _listbox(fx, c, focus=2, valign="middle"))
    add("ListBox[p1,c,p2;body.set_focus(1)]", "flow", lambda fx, c: _listbox(fx, c, body_focus=1))
    add("ListBox[p1,c,p2;f2,del0]", "flow", lambda fx, c: _listbox(fx, c, focus=2, delete=0))
    return out


def _listbox(fx, c, focus=None, valign=None, body_focus=None, delete=None):
    items = [fx.leaf("p1"), c, fx.leaf("p2")]
    lb = urwid.ListBox(urwid.SimpleFocusListWalker(items))
    if focus is not None:
        lb.focus_position = focus
    # a first render fixes the stored offset, as it would be in a running application
    lb.render((6, 8), True)
    if valign is not None:
        lb.set_focus_valign(valign)
    if body_focus is not None:
        lb.body.set_focus(body_focus)
    if delete is not None:
        gone = lb.body[delete]
        del lb.body[delete]
        fx.leaves[:] = [lf for lf in fx.leaves if lf.placed is not gone]
    urwid.CanvasCache.clear()
    for lf in fx.leaves:
        del lf.rec.log[:]
    return lb


def leaf_fits(kind, slot):
    box = kind in LEAF_KINDS_BOX
    if slot == "any":
        return True
    return box == (slot == "box")


class Grammar:
    def __init__(self):
        self.cons = containers()

    def trees(self, tier):
        """paths: (ci, kind) level 1; (cj, (ci, kind)) level 2"""
        out = []
        kinds = LEAF_KINDS + LEAF_KINDS_BOX
        l1 = []
        for ci, (name, slot, fn) in enumerate(self.cons):
            for k in kinds:
                if leaf_fits(k, slot):
                    l1.append((ci, k))
        out += l1
        rep_kinds = ["edit", "pdeny", "pboxdeny"] if tier == "quick" else ["edit", "editcap", "pdeny", "p1", "pboxdeny", "pbox"]
        for cj in range(len(self.cons)):
            for ci in range(len(self.cons)):
                for k in rep_kinds:
                    if leaf_fits(k, self.cons[ci][1]):
                        out.append((cj, (ci, k)))
        return out

    def build(self, path):
        fx = Fx()
        root = self._b(fx, path)
        for lf in fx.leaves:
            del lf.rec.log[:]
        urwid.CanvasCache.clear()
        self.protocol = all(hasattr(w, "move_cursor_to_coords") for w in fx.containers)
        self.last_containers = fx.containers
        return root, fx.leaves

    def _b(self, fx, path):
        ci, sub = path
        name, slot, fn = self.cons[ci]
        child = fx.leaf(sub) if isinstance(sub, str) else self._b(fx, sub)
        w = fn(fx, child)
        fx.containers.append(w)
        return w

    def name(self, path):
        ci, sub = path
        inner = sub if isinstance(sub, str) else self.name(sub)
        return f"{self.cons[ci][0]}({inner})"


G = Grammar()


def quiet_sizing(w):
    import warnings

    with warnings.catch_warnings(record=True) as rec:
        warnings.simplefilter("always")
        s = w.sizing()
    if any(issubclass(r.category, urwid.widget.WidgetWarning) for r in rec):
        return frozenset()
    return s


# ----------------------------------------------------------------------
def regions(canv, leaves):
    """{leaf name: sorted list of (X, Y)} from the canvas; attr is (name, y) for probes, (name, 'r') for marked real leaves"""
    names = {lf.name for lf in leaves}
    reg: dict = {}
    cm = cell_map(canv)
    for Y, row in enumerate(cm):
        for X, (ch, a) in enumerate(row):
            if isinstance(a, tuple) and len(a) == 2 and a[0] in names:
                reg.setdefault(a[0], []).append((X, Y, ch, a[1]))
    return reg, cm


def clipped(canv, depth=0):
    """true when any canvas in the composition tree is larger than the canvas it was placed in (it was trimmed)"""
    for x, y, ch, _pos in getattr(canv, "children", None) or ():
        if x < 0 or y < 0 or x + ch.cols() > canv.cols() or y + ch.rows() > canv.rows():
            return True
        if depth < 40 and clipped(ch, depth + 1):
            return True
    return False


def fit_ok(root, leaves, size, ctx):
    """render and verify the fit precondition; returns (canvas, {name: (x0, y0, c, r)}) or None"""
    try:
        canv = root.render(size, True)
        reg, cm = regions(canv, leaves)
    except Exception:
        return None
    if clipped(canv):
        return None  # some canvas on the way was trimmed: a widget did not get the rows/columns it needs
    for w in G.last_containers:
        if isinstance(w, RLineBox):
            if not w.sizes or any(sz[0] < 3 or (len(sz) == 2 and sz[1] < 3) for sz in w.sizes):
                return None  # no room for the borders: below what the LineBox needs
    geo = {}
    for lf in leaves:
        rs = [e for e in lf.rec.log if e[0] == "render"]
        if len(rs) != 1:
            return None  # hidden (never rendered) or rendered twice (same leaf shown twice): outside the precondition
        lsize = rs[0][1]
        cells = reg.get(lf.name)
        if not cells:
            return None
        x0 = min(c[0] for c in cells)
        y0 = min(c[1] for c in cells)
        x1 = max(c[0] for c in cells)
        y1 = max(c[1] for c in cells)
        c, r = x1 - x0 + 1, y1 - y0 + 1
        if len(cells) != c * r:
            return None  # not a full rectangle: partly covered or clipped
        if isinstance(lf.rec, Probe):
            pc, pr = lf.rec.dims(lsize)
            if (c, r) != (pc, pr) or pc == 0 or pr == 0:
                return None
            # painted local coordinates must agree with the bounding box (cross-check of the ground truth)
            for X, Y, ch, ly in cells:
                if ch - 65 != (X - x0) % 58 or ly != Y - y0:
                    return None
        else:
            if c != lsize[0] or r != rs[0][3]:
                return None  # fewer rows visible than the leaf rendered
        geo[lf.name] = (x0, y0, c, r, lsize)
    return canv, geo, cm


def leaf_at(geo, X, Y):
    for name, (x0, y0, c, r, lsize) in geo.items():
        if x0 <= X < x0 + c and y0 <= Y < y0 + r:
            return name, X - x0, Y - y0
    return None


def lattice(mode, tier):
    cols = range(1, 15)
    rows = range(1, 12)
    if mode == "flow":
        return [(c,) for c in cols]
    return sorted(((c, r) for c in cols for r in rows), key=lambda s: (s[0] + s[1], s))


def check_tree(ctx: Ctx, path, tier):
    name = G.name(path)
    try:
        root, leaves = G.build(path)
    except Exception:
        ctx.count("construction-refused")
        return
    sz = quiet_sizing(root)
    modes = [m for m in ("flow", "box") if urwid.Sizing(m) in sz]
    want = 3 if tier == "quick" else 6
    for mode in modes:
        found = 0
        for size in lattice(mode, tier):
            root, leaves = G.build(path)
            fit = fit_ok(root, leaves, size, ctx)
            if fit is None:
                continue
            found += 1
            check_size(ctx, path, name, mode, size, fit)
            if found >= want:
                break
        if not found:
            ctx.count("no-fitting-size")


def outer_class(name):
    return name.split("[", 1)[0].split("(", 1)[0]


def sig_shape(name):
    """'Pile[..](Columns[..](edit))' -> 'Pile(Columns(edit))'"""
    out = []
    depth = 0
    for ch in name:
        if ch == "[":
            depth += 1
        elif ch == "]":
            depth -= 1
        elif depth == 0:
            out.append(ch)
    return "".join(out)


def bad_moves(leaves):
    """move_cursor_to_coords calls that asked a leaf for a column outside its own width (the 'correspondingly translated cell' is always inside)"""
    out = []
    for lf in leaves:
        for e in lf.rec.log:
            if e[0] == "move" and isinstance(e[2], int) and e[1] and not (0 <= e[2] < max(e[1][0], 1)):
                out.append((lf.name, e[1], e[2], e[3]))
    return out


def check_size(ctx: Ctx, path, name, mode, size, fit):
    canv, geo, cm = fit
    case = {"tree": path, "name": name, "size": size}
    shape = sig_shape(name)

    def V(clause, detail, site="", cell=None):
        c2 = dict(case)
        if cell is not None:
            c2["cell"] = cell
        ctx.violation(clause, f"C09/{clause}/{shape}/{mode}{('/' + site) if site else ''}", c2, detail)

    ctx.count("sizes")
    ctx.distinct("nontrivial", (path, size))
    # -- cursor-agrees on the initial state
    root, leaves = G.build(path)
    cursor_agrees(ctx, V, root, size, "initial")
    warm_walk(ctx, V, path, name, size, geo, leaves)
    if "nocursor-top over" in name:
        return  # the widgets below an Overlay's top widget are drawn but take no input (the Overlay is modal): only the cursor views are compared there
    cols, rows = canv.cols(), canv.rows()
    by = {lf.name: lf for lf in leaves}
    for Y in range(rows):
        for X in range(cols):
            hit = leaf_at(geo, X, Y)
            if hit is None:
                # a cell that shows no leaf (margin, border, divider): whether the move is accepted is not constrained, but an accepted move
                # leaves the cursor on the requested row
                root, leaves = G.build(path)
                if G.protocol:
                    ctx.count("evaluations")
                    try:
                        root.render(size, True)
                        for lf in leaves:
                            del lf.rec.log[:]
                        ok = root.move_cursor_to_coords(size, X, Y)
                        bm = bad_moves(leaves)
                        if bm:
                            V("move-iff", f"{name} {size}: move_cursor_to_coords({X},{Y}) asked a leaf for a column outside its width: {bm}", "column-outside-leaf", cell=(X, Y))
                        if ok is not False and ok is not None and ok:
                            cc = root.get_cursor_coords(size)
                            fl = _focus_leaf(root)
                            if fl is not None and (not hasattr(fl, "move_cursor_to_coords") or not fl.selectable()):
                                pass  # a widget without the method keeps its own fixed cursor (it "accepts" by protocol); an unselectable one has no cursor
                            elif cc is None or cc[1] != Y:
                                V("move-row", f"{name} {size}: move_cursor_to_coords({X},{Y}) (a cell showing no leaf) returned {ok!r} but the cursor is reported at {cc}", "no-leaf-cell", cell=(X, Y))
                        elif ok is None:
                            V("move-iff", f"{name} {size}: move_cursor_to_coords({X},{Y}) returned None (neither True nor False)", "returns-none", cell=(X, Y))
                    except Exception as e:
                        V("event-raises", f"{name} {size}: move_cursor_to_coords({X},{Y}) raised {type(e).__name__}: {e}", site=exc_site(e), cell=(X, Y))
                continue
            lname, lx, ly = hit
            lf0 = by[lname]
            # ---- hit-testing
            if hasattr(lf0.rec, "mouse_event"):
                root, leaves = G.build(path)
                ctx.count("evaluations")
                try:
                    root.render(size, True)
                    for lf in leaves:
                        del lf.rec.log[:]
                    root.mouse_event(size, "mouse press", 1, X, Y, True)
                except Exception as e:
                    V("event-raises", f"{name} {size}: press at ({X},{Y}) raised {type(e).__name__}: {e}", site=exc_site(e), cell=(X, Y))
                else:
                    got = [(lf.name, e[1], e[4], e[5]) for lf in leaves for e in lf.rec.log if e[0] == "mouse"]
                    ctx.obs(name, size, X, Y, got)
                    exp_size = geo[lname][4]
                    if [g[0] for g in got] != [lname]:
                        V("hit", f"{name} {size}: press at ({X},{Y}) shows {lname} local ({lx},{ly}) but mouse_event reached {got}", cell=(X, Y))
                    else:
                        g = got[0]
                        if (g[2], g[3]) != (lx, ly) or tuple(g[1]) != tuple(exp_size):
                            V("hit", f"{name} {size}: press at ({X},{Y}) = {lname} local ({lx},{ly}) size {exp_size}; delivered size {g[1]} col,row ({g[2]},{g[3]})", cell=(X, Y))
            # ---- move_cursor_to_coords
            if not lf0.rec.selectable():
                # a cell of an unselectable leaf (a label): whichever selectable neighbour takes the move is asked for a cell of its own
                root, leaves = G.build(path)
                if G.protocol:
                    ctx.count("evaluations")
                    try:
                        root.render(size, True)
                        for lf in leaves:
                            del lf.rec.log[:]
                        root.move_cursor_to_coords(size, X, Y)
                        bm = bad_moves(leaves)
                        if bm:
                            V("move-iff", f"{name} {size}: move_cursor_to_coords({X},{Y}) (a label's cell) asked a leaf for a column outside its width: {bm}", "column-outside-leaf", cell=(X, Y))
                    except Exception as e:
                        V("event-raises", f"{name} {size}: move_cursor_to_coords({X},{Y}) raised {type(e).__name__}: {e}", site=exc_site(e), cell=(X, Y))
                continue
            root, leaves = G.build(path)
            if not G.protocol:
                continue  # some widget on the way does not implement move_cursor_to_coords: outside the quantifier
            ctx.count("evaluations")
            try:
                root.render(size, True)
                for lf in leaves:
                    del lf.rec.log[:]
                ok = root.move_cursor_to_coords(size, X, Y)
            except Exception as e:
                V("event-raises", f"{name} {size}: move_cursor_to_coords({X},{Y}) raised {type(e).__name__}: {e}", site=exc_site(e), cell=(X, Y))
                continue
            bm = bad_moves(leaves)
            if bm:
                V("move-iff", f"{name} {size}: move_cursor_to_coords({X},{Y}) asked a leaf for a column outside its width: {bm}", "column-outside-leaf", cell=(X, Y))
            # does the leaf accept its local cell?
            lsize = geo[lname][4]
            if isinstance(lf0.rec, Probe):
                p = lf0.rec
                c, r = p.dims(lsize)
                exp = (p.accept is None or p.accept(lx, ly, c, r)) and 0 <= ly < r
            else:
                tw = lf0.twin()
                if not hasattr(tw, "move_cursor_to_coords"):
                    exp = True  # protocol: a widget without the method accepts (its cursor cannot move)
                else:
                    try:
                        exp = tw.move_cursor_to_coords(lsize, lx, ly) is not False
                    except Exception:
                        exp = None
            ctx.obs(name, size, "move", X, Y, ok, exp)
            if exp is None:
                continue
            if bool(ok is not False and ok) != bool(exp):
                V("move-iff", f"{name} {size}: move_cursor_to_coords({X},{Y}) -> {ok!r}; cell shows {lname} local ({lx},{ly}) which the leaf {'accepts' if exp else 'refuses'}", cell=(X, Y))
                continue
            if ok:
                try:
                    cc = root.get_cursor_coords(size)
                    urwid.CanvasCache.clear()
                    rc = root.render(size, True).cursor
                except Exception as e:
                    V("event-raises", f"{name} {size}: after move to ({X},{Y}): {type(e).__name__}: {e}", site=exc_site(e), cell=(X, Y))
                    continue
                fixed_cursor = not hasattr(lf0.rec, "move_cursor_to_coords") and geo[lname][3] > 1
                if (cc is None or cc[1] != Y or rc is None or rc[1] != Y) and not fixed_cursor:
                    V("move-row", f"{name} {size}: move_cursor_to_coords({X},{Y}) succeeded but cursor is reported at {cc}, rendered at {rc}", cell=(X, Y))
                if cc != rc:
                    V("cursor-agrees", f"{name} {size}: after move to ({X},{Y}) get_cursor_coords {cc} != rendered cursor {rc}", cell=(X, Y))


def warm_walk(ctx: Ctx, V, path, name, size, geo, leaves0):
    """one live tree, as in a running application: the cursor is moved from leaf to leaf, every canvas ever rendered stays alive and the canvas
    cache is never emptied; after every move the reported and the rendered cursor must agree"""
    root, leaves = G.build(path)
    if not G.protocol or not hasattr(root, "get_cursor_coords"):
        return
    held = []
    urwid.CanvasCache.clear()
    try:
        held.append(root.render(size, True))
    except Exception:
        return
    targets = []
    for lf in leaves0:
        if lf.name in geo and lf.rec.selectable():
            x0, y0, w, h = geo[lf.name][:4]
            targets.append((lf.name, x0, y0))
            if h > 1:
                targets.append((lf.name, x0, y0 + h - 1))
    steps = [("move", t) for t in targets + targets[::-1]] + [("press", t) for t in targets + targets[::-1]]
    for how, (lname, X, Y) in steps:
        ctx.count("evaluations")
        try:
            if how == "move":
                ok = root.move_cursor_to_coords(size, X, Y)
            else:
                ok = root.mouse_event(size, "mouse press", 1, X, Y, True)
            cc = root.get_cursor_coords(size)
            canv = root.render(size, True)
            rc = canv.cursor
            held.append(canv)
        except Exception as e:
            V("event-raises", f"{name} {size}: live tree, {how} at ({X},{Y}) then get_cursor_coords/render raised {type(e).__name__}: {e}", site=exc_site(e), cell=(X, Y))
            break
        ctx.obs(name, size, "warm", how, X, Y, ok, cc, rc)
        if cc != rc:
            V("cursor-agrees", f"{name} {size}: live tree (earlier canvases alive, cache warm), after {'move_cursor_to_coords' if how == 'move' else 'a button-1 press at'}({X},{Y}) -> {ok!r}: "
              f"get_cursor_coords {cc} != rendered cursor {rc}", "warm" if how == "move" else "warm-press", cell=(X, Y))
            break
    urwid.CanvasCache.clear()


def _focus_leaf(w):
    """the widget at the end of the focus chain (decorations and containers followed down)"""
    seen = 0
    while seen < 50:
        seen += 1
        nxt = None
        if hasattr(w, "focus") and not isinstance(w, (urwid.Edit, urwid.Text)):
            try:
                nxt = w.focus
            except Exception:
                nxt = None
        if nxt is None:
            nxt = getattr(w, "original_widget", None)
        if nxt is None or nxt is w:
            return w
        w = nxt
    return w


def cursor_agrees(ctx, V, root, size, when):
    if not hasattr(root, "get_cursor_coords"):
        return
    ctx.count("evaluations")
    try:
        cc = root.get_cursor_coords(size)
        urwid.CanvasCache.clear()
        rc = root.render(size, True).cursor
    except Exception as e:
        V("event-raises", f"{when}: get_cursor_coords/render raised {type(e).__name__}: {e}", site=exc_site(e))
        return
    ctx.obs("cursor", size, cc, rc)
    if cc != rc:
        V("cursor-agrees", f"{when} {size}: get_cursor_coords {cc} != render(..., True).cursor {rc}")


def tree_task(task, ctx: Ctx):
    tier, paths = task
    env.reset("utf-8")
    for path in paths:
        check_tree(ctx, path, tier)


def fixed_task(task, ctx: Ctx):
    """a Padding sized as a FIXED widget (size ()), alone and as the packed top widget of an Overlay: presses and the cursor are translated by its margins"""
    env.reset("utf-8")
    for left in (0, 2, 4):
        for right in (0, 1):
            for wrap in ("direct", "overlay"):
                ctx.count("evaluations")
                p = Probe("F", ("fixed",), (3, 2), selectable=True, cursor=(1, 1))
                pad = urwid.Padding(p, "left", "pack", left=left, right=right)
                case = {"fixed": True, "left": left, "right": right, "wrap": wrap}
                name = f"Padding[fixed,l{left}r{right}]" + ("/overlay-pack" if wrap == "overlay" else "")

                def V(clause, detail, site=""):
                    ctx.violation(clause, f"C09/{clause}/Padding-fixed/{wrap}{('/' + site) if site else ''}", case, detail)

                try:
                    if wrap == "direct":
                        root, size, ox, oy = pad, (), 0, 0
                    else:
                        root, size, ox, oy = urwid.Overlay(pad, urwid.SolidFill("."), "left", "pack", "top", "pack"), (10, 4), 0, 0
                    urwid.CanvasCache.clear()
                    canv = root.render(size, True)
                    cur = root.get_cursor_coords(size)
                    if canv.cursor != cur or cur != (ox + left + 1, oy + 1):
                        V("cursor-agrees", f"{name}: rendered cursor {canv.cursor}, reported {cur}, the leaf's cursor cell is {(ox + left + 1, oy + 1)}")
                    for y in range(2):
                        for x in range(3):
                            del p.log[:]
                            root.mouse_event(size, "mouse press", 1, ox + left + x, oy + y, True)
                            got = [(e[4], e[5]) for e in p.log if e[0] == "mouse"]
                            if got != [(x, y)]:
                                V("hit", f"{name}: press on the leaf's cell ({x},{y}) (screen {(ox + left + x, oy + y)}) delivered {got}")
                    ctx.distinct("nontrivial", ("fixed-padding", left, right, wrap))
                except Exception as e:
                    V("event-raises", f"{name}: {type(e).__name__}: {e}", site=exc_site(e))


def run(tier, R):
    paths = G.trees(tier)
    n = 6 if tier == "quick" else 4
    tasks = [(tier, paths[i : i + n]) for i in range(0, len(paths), n)]
    R.run_tasks(tree_task, tasks, recheck=0.03)
    R.run_tasks(fixed_task, [("fixed",)], recheck=0.0)
    ev = int(R.ctx.counts["evaluations"])
    nt = len(R.ctx.sets.get("nontrivial", ()))
    cov = {
        "states": nt,
        "transitions": ev,
        "traces_validated_against_impl": ev,
        "evaluations": ev,
        "distinct_nontrivial": nt,
        "rule": f"{len(G.cons)} container/decoration constructors (Pile, Columns, Frame parts, Filler, Padding, Overlay box/flow, BoxAdapter, LineBox, AttrMap, "
        "WidgetPlaceholder, GridFlow, ListBox incl. states after set_focus_valign / body.set_focus / deletion) over 9 leaf kinds (painting probes flow/box, "
        "row- and column-refusing probes, unselectable probe, recording multi-line Edit, Edit with a two-row caption, SelectableIcon), and every constructor over every "
        f"constructor for {3 if tier == 'quick' else 6} representative leaves; per tree and sizing mode the first {3 if tier == 'quick' else 6} sizes of the "
        "lattice (cols 1..14 x rows 1..11, ascending) that satisfy the verified fit precondition; every cell of the rendered area is pressed and, when it shows a "
        "selectable leaf, made the target of move_cursor_to_coords (each on a freshly built tree); plus, per tree and size, one live tree whose cursor is walked over "
        "every selectable leaf and back (by move_cursor_to_coords, then by button-1 presses) with all earlier canvases kept alive and the canvas cache warm, comparing the reported and the rendered cursor after every move. evaluations = presses + moves + cursor comparisons; non-trivial = distinct (tree, fitting size)",
        "exhaustive": True,
        "trees": len(paths),
        "fitting_sizes": int(R.ctx.counts.get("sizes", 0)),
        "trees_without_fitting_size": int(R.ctx.counts.get("no-fitting-size", 0)),
    }
    return {
        "coverage": cov,
        "assumptions": [
            "fit precondition = every leaf rendered exactly once and its painted rectangle fully visible in the top canvas (verified per size; other sizes are skipped)",
            "cells that show no leaf (padding, borders, dividers, filler) are unconstrained for hit-testing and for whether a cursor move is accepted; an accepted move there "
            "must still leave the cursor on the requested row (unless the focus leaf has a fixed cursor or none), and the answer is True or False, never None",
            "a real leaf's acceptance of a local cell is asked of a freshly built twin of that leaf",
            "'left'/'right' column arguments of move_cursor_to_coords are not enumerated",
        ],
    }


def replay(case, ctx):
    if case.get("fixed"):
        fixed_task(("fixed",), ctx)
        return
    env.reset("utf-8")

    def tup(p):
        return tuple(tup(x) if isinstance(x, (list, tuple)) else x for x in p)

    path = tup(case["tree"])
    size = tuple(case["size"])
    name = G.name(path)
    print("tree:", name, "size:", size)
    root, leaves = G.build(path)
    fit = fit_ok(root, leaves, size, ctx)
    if fit is None:
        print("replay: size does not satisfy the fit precondition any more")
        return
    check_size(ctx, path, name, "box" if len(size) == 2 else "flow", size, fit)
