"""C14 — signals reach every connected handler exactly once per emit.

Shape H: BFS over histories of connect / disconnect / disconnect_by_key / emit / kill(weak arg) /
drop(sender) on the real urwid.signals machinery.  Handlers carry behaviours that act *during*
an emit (disconnect self / first / last, connect a new handler, emit recursively, kill a weak
argument).  A boring reference (ordered list of live connections + per-emit frames that note what
changed during the emit) runs in lock-step.
"""
from __future__ import annotations

import gc
import weakref

from .. import env  # noqa: F401
from ..core import Ctx, WatchdogTimeout, exc_site, watchdog

import urwid
from urwid import signals as usig

ID = "C14"
LEVEL = "model_checking"


_FROZEN = False


class Sender1(metaclass=urwid.MetaSignals):
    signals = ["a", "b"]


class Sender2(metaclass=urwid.MetaSignals):
    """alive but falsy, like an empty list walker that sends 'modified'"""

    signals = ["a"]

    def __len__(self):
        return 0


class W:
    def __init__(self, name):
        self.name = name

    def __repr__(self):
        return f"<W {self.name}>"


class WFalsy(W):
    """alive but falsy (an empty container used as weak argument, e.g. an empty list walker)"""

    def __len__(self):
        return 0


BEHAVIOURS = [
    "plain",
    "true",
    "disc_self",
    "disc_self_args",
    "disc_first",
    "disc_last",
    "connect_new",
    "emit_rec",
    "kill_w1",
    "kill_w2",
]
STYLES = ["plain", "weak1", "weak2", "user", "weak1+user", "deprecated", "weak12"]


def style_args(st, style):
    """-> (weak_names, user_args, user_arg)"""
    return {
        "plain": ((), (), None),
        "weak1": (("w1",), (), None),
        "weak2": (("w2",), (), None),
        "weak12": (("w1", "w2"), (), None),
        "user": ((), ("U",), None),
        "weak1+user": (("w1",), ("U", "V"), None),
        "deprecated": ((), (), "D"),
    }[style]


class Conn:
    __slots__ = ("key", "fn", "cid", "beh", "style", "sender", "name", "alive")


class Frame:
    def __init__(self, sender, name, start):
        self.sender = sender
        self.name = name
        self.start = list(start)  # connections alive at start, in order
        self.removed = set()  # cids removed during
        self.added = set()  # cids added during
        self.calls = []  # (cid-of-function-group, args, ret)


class State:
    def __init__(self, cap):
        self.cap = cap
        self.senders = {"S1": Sender1(), "S2": Sender2()}
        self.weak = {"w1": W("w1"), "w2": WFalsy("w2")}
        self.conns: dict = {("S1", "a"): [], ("S1", "b"): [], ("S2", "a"): []}
        self.frames: list[Frame] = []
        self.next_cid = 0
        self.emits = 0
        self.ctx = None
        self.case = None
        self.errors = []
        self.pending_dead = []
        global _FROZEN
        if not _FROZEN:
            gc.collect()
            gc.freeze()  # keep gc.collect() cheap: only objects created by the harness are scanned
            _FROZEN = True

    # ---- model + real operations -------------------------------------
    def live_total(self):
        return sum(len(v) for v in self.conns.values())

    def make_fn(self, cid, beh):
        st_ref = weakref.ref(self)

        def handler(*args):
            st = st_ref()
            fr = st.frames[-1] if st.frames else None
            rec = [cid, tuple(("W", a.name) if isinstance(a, W) else a for a in args), None]
            del args
            if fr is not None:
                fr.calls.append(rec)
            ret = st.behave(cid, beh)
            rec[2] = ret
            return ret

        handler.cid = cid
        handler.beh = beh
        return handler

    def find(self, cid):
        for lst in self.conns.values():
            for c in lst:
                if c.cid == cid:
                    return c
        return None

    def behave(self, cid, beh):
        c = self.find(cid)
        if beh == "plain":
            return None
        if beh == "true":
            return True
        if c is None:
            # connection no longer exists (was removed during this emit but still called): act on nothing
            return None
        lst = self.conns[(c.sender, c.name)]
        if beh == "disc_self":
            self.do_disconnect_key(c)
        elif beh == "disc_self_args":
            self.do_disconnect_args(c.sender, c.name, c.fn, c.style)
        elif beh == "disc_first":
            if lst:
                self.do_disconnect_key(lst[0])
        elif beh == "disc_last":
            if lst:
                self.do_disconnect_key(lst[-1])
        elif beh == "connect_new":
            if self.live_total() < self.cap + 1:
                self.do_connect(c.sender, c.name, "plain", "plain")
        elif beh == "emit_rec":
            if len(self.frames) < 2 and "S1" in self.senders:
                self.do_emit("S1", "b")
        elif beh == "kill_w1":
            self.do_kill("w1")
        elif beh == "kill_w2":
            self.do_kill("w2")
        return None

    def note_removed(self, c):
        for fr in self.frames:
            if (fr.sender, fr.name) == (c.sender, c.name):
                fr.removed.add(c.cid)

    def do_connect(self, sender, name, beh, style, fn=None):
        wn, ua, darg = style_args(self, style)
        if any(w not in self.weak for w in wn):
            return None
        c = Conn()
        c.cid = self.next_cid
        self.next_cid += 1
        c.fn = fn if fn is not None else self.make_fn(c.cid, beh)
        c.beh = c.fn.beh
        c.style = style
        c.sender = sender
        c.name = name
        kwargs = {}
        if wn:
            kwargs["weak_args"] = [self.weak[w] for w in wn]
        if ua:
            kwargs["user_args"] = list(ua)
        if darg is not None:
            c.key = urwid.connect_signal(self.senders[sender], name, c.fn, darg, **kwargs)
        else:
            c.key = urwid.connect_signal(self.senders[sender], name, c.fn, **kwargs)
        # the arguments are those given at connect time: what the caller does with its own lists afterwards does not matter
        for k_ in ("user_args", "weak_args"):
            if k_ in kwargs:
                kwargs[k_].append(self.weak.get("w1") if k_ == "weak_args" and "w1" in self.weak else "LATER")
        self.conns[(sender, name)].append(c)
        for fr in self.frames:
            if (fr.sender, fr.name) == (sender, name):
                fr.added.add(c.cid)
        return c

    def do_disconnect_key(self, c):
        urwid.disconnect_signal_by_key(self.senders[c.sender], c.name, c.key)
        lst = self.conns[(c.sender, c.name)]
        if c in lst:
            lst.remove(c)
            self.note_removed(c)

    def do_disconnect_args(self, sender, name, fn, style):
        wn, ua, darg = style_args(self, style)
        if any(w not in self.weak for w in wn):
            return
        kwargs = {}
        if wn:
            kwargs["weak_args"] = [self.weak[w] for w in wn]
        if ua:
            kwargs["user_args"] = list(ua)
        if darg is not None:
            urwid.disconnect_signal(self.senders[sender], name, fn, darg, **kwargs)
        else:
            urwid.disconnect_signal(self.senders[sender], name, fn, **kwargs)
        lst = self.conns[(sender, name)]
        for c in lst:
            if c.fn is fn and c.style == style:
                lst.remove(c)
                self.note_removed(c)
                break

    def do_kill(self, wname):
        if wname not in self.weak:
            return
        obj = self.weak.pop(wname)
        ref = weakref.ref(obj)
        # model: every connection with this weak argument is gone from now on
        for lst in self.conns.values():
            for c in list(lst):
                if wname in style_args(self, c.style)[0]:
                    lst.remove(c)
                    self.note_removed(c)
        del obj
        # the object may legitimately stay alive until the handler that is being called with it returns:
        # liveness is judged when the outermost operation has finished
        self.pending_dead.append((wname, ref))

    def do_emit(self, sender, name):
        self.emits += 1
        tok = f"x{self.emits}"
        fr = Frame(sender, name, self.conns[(sender, name)])
        self.frames.append(fr)
        weak_objs = {k: ("W", k) for k in self.weak}
        try:
            result = urwid.emit_signal(self.senders[sender], name, tok, 7)
        finally:
            self.frames.pop()
        self.judge(fr, tok, result, weak_objs)
        return result

    # ---- oracle ------------------------------------------------------
    def V(self, clause, feat, detail):
        if self.ctx is not None:
            self.ctx.violation(clause, f"C14/{clause}/{feat}", self.case, detail)

    def judge(self, fr: Frame, tok, result, weak_objs):
        ctx = self.ctx
        start = fr.start
        through = [c for c in start if c.cid not in fr.removed]
        changed = fr.removed | fr.added
        start_cids = {c.cid for c in start}
        feat = "plain-emit"
        if changed:
            kinds = []
            if fr.removed:
                kinds.append("handler-removed-during-emit")
            if fr.added:
                kinds.append("handler-added-during-emit")
            feat = "+".join(kinds)
        by_fn: dict = {}
        for rec in fr.calls:
            by_fn.setdefault(rec[0], []).append(rec)
        # functions are unique per connect op except for 'connect_dup' (same fn object connected twice)
        fn_of = {}
        for lst in (start, [self.find(cid) for cid in fr.added]):
            for c in lst:
                if c is not None:
                    fn_of[c.cid] = c.fn.cid
        # called-once
        need: dict = {}
        for c in through:
            need[c.fn.cid] = need.get(c.fn.cid, 0) + 1
        maybe: dict = {}
        for c in start:
            if c.cid in fr.removed:
                maybe[c.fn.cid] = maybe.get(c.fn.cid, 0) + 1
        for cid in fr.added:
            c = self.find(cid)
            f = c.fn.cid if c is not None else cid
            maybe[f] = maybe.get(f, 0) + 1
        for f, n in need.items():
            got = len(by_fn.get(f, ()))
            if got < n:
                self.V("called-once", feat + "/skipped", f"handler fn#{f} connected throughout the emit was called {got}x, expected {n}x; calls={[(r[0]) for r in fr.calls]}")
            elif got > n + maybe.get(f, 0):
                self.V("called-once", feat + "/called-twice", f"handler fn#{f} called {got}x, expected {n}x")
        for f, recs in by_fn.items():
            if f not in need and f not in maybe:
                self.V("not-before-start", feat, f"handler fn#{f} was called but was not connected to {fr.sender}/{fr.name} when the emit started")
            elif f not in need and len(recs) > maybe[f]:
                self.V("called-once", feat + "/called-twice", f"handler fn#{f} called {len(recs)}x")
        # order (only for functions that appear once among 'through')
        uniq = [c.fn.cid for c in through if need[c.fn.cid] == 1 and c.fn.cid not in maybe]
        seq = [r[0] for r in fr.calls if r[0] in uniq]
        seq_first = []
        for f in seq:
            if f not in seq_first:
                seq_first.append(f)
        if seq_first != [f for f in uniq if f in seq_first]:
            self.V("order", feat, f"call order {seq_first} differs from connection order {uniq}")
        # args
        conn_by_fn = {}
        for c in start:
            conn_by_fn.setdefault(c.fn.cid, c)
        for cid in fr.added:
            c = self.find(cid)
            if c is not None:
                conn_by_fn.setdefault(c.fn.cid, c)
        for f, recs in by_fn.items():
            c = conn_by_fn.get(f)
            if c is None:
                continue
            wn, ua, darg = style_args(self, c.style)
            if any(w not in weak_objs for w in wn):
                self.V("not-before-start", feat + "/dead-weak-arg", f"handler fn#{f} called although its weak argument was dead")
                continue
            exp = tuple(weak_objs[w] for w in wn) + tuple(ua) + (tok, 7) + ((darg,) if darg is not None else ())
            for r in recs:
                if len(r[1]) != len(exp) or any(a is not b and a != b for a, b in zip(r[1], exp)):
                    self.V("args", c.style, f"handler fn#{f} received {r[1]!r}, expected {exp!r}")
        # result
        want = any(bool(r[2]) for r in fr.calls)
        if result is not want and result != want:
            self.V("result", feat, f"emit returned {result!r}, handlers returned {[r[2] for r in fr.calls]}")
        if not isinstance(result, bool):
            self.V("result", "type", f"emit returned non-bool {result!r}")
        if ctx is not None:
            ctx.obs("emit", fr.sender, fr.name, [(r[0], len(r[1]), r[2]) for r in fr.calls], result)
            if fr.calls:
                ctx.distinct("nontrivial", (self.canon(), fr.sender, fr.name))
            ctx.distinct("outcomes", (tuple(c.beh for c in start), tuple(sorted(fr.removed)), tuple(r[0] for r in fr.calls)))

    def canon(self):
        out = []
        for sname in ("S1", "S2"):
            s = self.senders.get(sname)
            if s is None:
                out.append((sname, None))
                continue
            d = getattr(s, usig.Signals._signal_attr, {})
            per = []
            for name in sorted(d):
                lst = []
                first_seen = {}
                for h in d[name]:
                    fn = h[1]
                    grp = first_seen.setdefault(id(fn), len(first_seen))
                    wa = tuple((r().name if r() is not None else "dead") for r in h[3][0])
                    lst.append((getattr(fn, "beh", "?"), grp, h[2], wa, tuple(h[3][1])))
                per.append((name, tuple(lst)))
            out.append((sname, tuple(per)))
        model = tuple((k, tuple((c.beh, c.style) for c in v)) for k, v in sorted(self.conns.items()))
        return (tuple(out), tuple(sorted(self.weak)), model)


CONNECTS = (
    [("S1", "a", b, "plain") for b in BEHAVIOURS]
    + [("S1", "a", b, "weak1") for b in BEHAVIOURS]
    + [("S1", "a", "plain", s) for s in STYLES if s not in ("plain", "weak1")]
    + [("S1", "b", "plain", "plain"), ("S1", "b", "disc_self", "plain"), ("S1", "b", "true", "weak2")]
    + [("S2", "a", "plain", "plain"), ("S2", "a", "disc_self", "weak1")]
)


class Spec:
    def __init__(self, cap):
        self.cap = cap

    def configs(self, tier):
        # "predisc": every sender has been disconnected from before anything was connected to it (the 'disconnect first, then connect' idiom);
        # the canonical state cannot tell that apart from a fresh sender, so it is a start configuration of its own
        return ["signals", "predisc"]

    def build(self, cfg):
        st = State(self.cap)
        if cfg == "predisc":
            for sname, names in (("S1", ("a", "b")), ("S2", ("a",))):
                for nm in names:
                    urwid.disconnect_signal(st.senders[sname], nm, st.make_fn(-1, "plain"))
                    urwid.disconnect_signal_by_key(st.senders[sname], nm, usig.Key())
        # senders that nothing was connected to have no handlers: a table that already holds some is shared with earlier objects
        st.leak = None
        for sname, sender in st.senders.items():
            tab = getattr(sender, usig.Signals._signal_attr, None)
            if tab and any(tab.values()):
                st.leak = f"a brand-new sender {sname} already has handlers for {sorted(k for k, v in tab.items() if v)} (a handler table shared between senders)"
                tab.clear()  # (keeps the run finite: the table would grow with every state built in this process)
        return st

    def ops(self, cfg, st: State):
        ops = []
        total = st.live_total()
        if total < st.cap:
            for c in CONNECTS:
                if c[0] in st.senders:
                    ops.append(("connect", *c))
            for k, lst in sorted(st.conns.items()):
                if lst and k[0] in st.senders:
                    ops.append(("connect_dup", k[0], k[1]))
        for k, lst in sorted(st.conns.items()):
            if k[0] not in st.senders:
                continue
            ops.append(("emit", k[0], k[1]))
            for i in range(len(lst)):
                ops.append(("disc_key", k[0], k[1], i))
                ops.append(("disc_args", k[0], k[1], i))
                ops.append(("disc_wrong", k[0], k[1], i))
            ops.append(("disc_missing", k[0], k[1]))
        for w in sorted(st.weak):
            ops.append(("kill", w))
        if "S2" in st.senders:
            ops.append(("drop", "S2"))
            ops.append(("bad_name", "S2", "b"))
        if "S1" in st.senders:
            ops.append(("bad_name", "S1", "zz"))
        return ops

    def key(self, cfg, st):
        return st.canon()

    def apply(self, cfg, st: State, op, ctx: Ctx, hist):
        try:
            with watchdog(3):
                return self._apply(cfg, st, op, ctx, hist)
        except WatchdogTimeout:
            st.frames.clear()
            ctx.violation("terminates", f"C14/terminates/{op[0]}", {"cfg": cfg, "hist": hist + (op,)}, f"{op!r} did not return within 3 s")
            return False

    def _apply(self, cfg, st: State, op, ctx: Ctx, hist):
        st.ctx = None if ctx.muted else ctx
        st.case = {"hist": hist + (op,)}
        if getattr(st, "leak", None):
            st.V("sender-isolation", cfg, st.leak)
            st.leak = None
        ctx.count("evaluations")
        k = op[0]
        before = st.canon()[0]
        try:
            if k == "connect":
                st.do_connect(op[1], op[2], op[3], op[4])
            elif k == "connect_dup":
                lst = st.conns[(op[1], op[2])]
                st.do_connect(op[1], op[2], lst[0].beh, lst[0].style, fn=lst[0].fn)
            elif k == "emit":
                st.do_emit(op[1], op[2])
            elif k == "disc_key":
                st.do_disconnect_key(st.conns[(op[1], op[2])][op[3]])
            elif k == "disc_args":
                c = st.conns[(op[1], op[2])][op[3]]
                st.do_disconnect_args(op[1], op[2], c.fn, c.style)
            elif k == "disc_wrong":
                # the same callback, but with other arguments than it was connected with: nothing is connected like that
                c = st.conns[(op[1], op[2])][op[3]]
                for alt in (["plain"] if c.style != "plain" else ["weak1", "user"]) + (["weak1"] if c.style == "weak12" else []):
                    if alt == c.style or any(x.fn is c.fn and x.style == alt for x in st.conns[(op[1], op[2])]):
                        continue
                    wn, ua, darg = style_args(st, alt)
                    if any(w not in st.weak for w in wn):
                        continue
                    kwargs = {}
                    if wn:
                        kwargs["weak_args"] = [st.weak[w] for w in wn]
                    if ua:
                        kwargs["user_args"] = list(ua)
                    urwid.disconnect_signal(st.senders[op[1]], op[2], c.fn, **kwargs)
                    if st.canon()[0] != before:
                        st.V("disconnect-missing-noop", f"same-callback-other-args/{c.style}-as-{alt}",
                             f"disconnect_signal(callback, {kwargs}) removed a connection made with style {c.style!r}")
                        break
            elif k == "disc_missing":
                fn = st.make_fn(-1, "plain")
                urwid.disconnect_signal(st.senders[op[1]], op[2], fn)
                urwid.disconnect_signal_by_key(st.senders[op[1]], op[2], usig.Key())
                if st.canon()[0] != before:
                    st.V("disconnect-missing-noop", "changed", "disconnecting a handler that is not connected changed the connections")
            elif k == "kill":
                st.do_kill(op[1])
            elif k == "drop":
                s = st.senders.pop(op[1])
                ref = weakref.ref(s)
                for key in list(st.conns):
                    if key[0] == op[1]:
                        st.conns[key] = []
                del s
                gc.collect()
                if ref() is not None:
                    st.V("no-strong-refs", "sender", "sender still alive after the harness dropped its last reference")
            elif k == "bad_name":
                try:
                    urwid.connect_signal(st.senders[op[1]], op[2], st.make_fn(-2, "plain"))
                except NameError:
                    pass
                except Exception as e:
                    st.V("unknown-name", "other-exception", f"connect to unregistered name raised {e!r}")
                else:
                    st.V("unknown-name", "accepted", f"connect to unregistered signal {op[2]!r} was accepted")
        except Exception as e:
            st.frames.clear()
            st.V("no-raise", f"{k}/{exc_site(e)}", f"{k} raised {e!r}")
            return False
        if st.pending_dead:
            gc.collect()
            for wname, ref in st.pending_dead:
                if ref() is not None:
                    st.V("no-strong-refs", "weak-arg", f"weak argument {wname} still alive after its last reference was dropped")
            del st.pending_dead[:]
        ctx.obs(op, st.canon())
        return True


# ---------------------------------------------------------------------- registration through class hierarchies
def registration_task(task, ctx: Ctx):
    """every class shape with <= 2 bases out of {declares 'a', declares 'b', metaclass but no signals, plain mixin} x own signals None/['c'],
    and every such class subclassed once more (own None/['d']): a name is accepted by connect_signal iff some class of the MRO declares it"""
    import itertools

    (own1_opts,) = task
    M = urwid.MetaSignals

    def bases_pool():
        return {"A": M("A", (), {"signals": ["a"]}), "B": M("B", (), {"signals": ["b"]}), "N": M("N", (), {}), "P": type("P", (), {})}

    for k in (1, 2):
        for names in itertools.permutations("ABNP", k):
            for own1 in own1_opts:
                for own2 in ("-", None, ["d"]):
                    ctx.count("evaluations")
                    pool = bases_pool()
                    case = {"part": "registration", "bases": list(names), "own": own1, "sub": own2}
                    declared = {n.lower() for n in names if n in "AB"} | set(own1 or ())
                    try:
                        ns = {} if own1 is None else {"signals": list(own1)}
                        cls = M("L1", tuple(pool[n] for n in names), ns)
                        if own2 != "-":
                            ns2 = {} if own2 is None else {"signals": list(own2)}
                            cls = M("L2", (cls,), ns2)
                            declared |= set(own2 or ())
                        obj = cls()
                    except Exception as e:  # noqa: BLE001
                        ctx.violation("registration", f"C14/registration/class-creation/{exc_site(e)}", case, f"creating the class raised {type(e).__name__}: {e}")
                        continue
                    for name in ("a", "b", "c", "d", "zz"):
                        calls = []
                        try:
                            urwid.connect_signal(obj, name, lambda *a, _c=calls: _c.append(a))
                            ok = True
                        except NameError:
                            ok = False
                        except Exception as e:  # noqa: BLE001
                            ctx.violation("registration", f"C14/registration/connect-raises/{exc_site(e)}", dict(case, name=name), f"connect_signal raised {type(e).__name__}: {e}")
                            continue
                        ctx.obs(case, name, ok)
                        if ok != (name in declared):
                            shape = "sub" if own2 != "-" else "direct"
                            ctx.violation("registration", f"C14/registration/{'rejected-declared' if not ok else 'accepted-undeclared'}/{shape}/bases={k}", dict(case, name=name),
                                          f"class with bases {names}, own signals {own1}" + (f", subclassed with {own2}" if own2 != '-' else "")
                                          + f": connect_signal(obj, {name!r}) {'accepted' if ok else 'rejected'}; the classes of the MRO declare {sorted(declared)}")
                        elif ok:
                            urwid.emit_signal(obj, name, 7)
                            if calls != [(7,)]:
                                ctx.violation("exactly-once", "C14/registration/emit", dict(case, name=name), f"emit after connect called the handler with {calls}")
                    # defining the subclasses must not have changed what the base classes accept
                    for bname, own in (("A", {"a"}), ("B", {"b"}), ("N", set())):
                        bobj = pool[bname]()
                        for name in ("a", "b", "c", "d"):
                            try:
                                urwid.connect_signal(bobj, name, lambda *a: None)
                                ok = True
                            except NameError:
                                ok = False
                            except Exception:  # noqa: BLE001
                                continue
                            if ok != (name in own):
                                ctx.violation("registration", f"C14/registration/base-class-changed/{'accepts' if ok else 'rejects'}", dict(case, base=bname, name=name),
                                              f"after a class with bases {names} (own signals {own1}) was defined, base class {bname} (declares {sorted(own)}) {'accepts' if ok else 'rejects'} {name!r}")
                    ctx.distinct("nontrivial", ("reg", names, tuple(own1 or ()), str(own2)))


def run(tier, R):
    cap, depth = (3, 5) if tier == "quick" else (4, 4)
    spec = Spec(cap)
    res = R.bfs(spec, depth=depth, max_states=700_000 if tier == "quick" else 3_000_000)  # (the unchanged tree has ~300 000 / ~1 200 000 states: the cap only ends runs on broken trees)
    deep = None
    if tier != "quick":
        # second search: fewer live connections, two steps deeper (depth 5 with 4 connections has > 10^7 states and did not fit the budget)
        deep = R.bfs(Spec(3), depth=7, max_states=4_000_000)
        res = dict(res, states=res["states"] + deep["states"], transitions=res["transitions"] + deep["transitions"], capped=res["capped"] or deep["capped"])
    R.run_tasks(registration_task, [((None,),), ((["c"],),), ((["a"],),)], recheck=0.0)
    cov = {
        "states": res["states"],
        "transitions": res["transitions"],
        "traces_validated_against_impl": res["transitions"],
        "evaluations": res["transitions"],
        "distinct_nontrivial": len(R.ctx.sets.get("nontrivial", ())),
        "distinct_outcomes": len(R.ctx.sets.get("outcomes", ())),
        "rule": ("" if deep is None else f"two searches (<= 4 live connections to depth 4; <= 3 to depth {deep['depth']}): ") + f"BFS depth {depth} from two start configurations (fresh senders; senders already disconnected-from once) over connect(32 variants: behaviour x argument style)/connect same fn twice/disconnect by key/by args/"
        f"missing/emit/kill weak arg/drop sender/unregistered name, <= {cap} live connections; state = complete handler lists read from "
        "the senders + liveness; non-trivial = distinct (state, emit) with >= 1 handler call; outcomes = distinct (behaviours at start, "
        "removed during emit, call sequence); plus every class shape with <= 2 bases out of {declares a, declares b, metaclass without signals, plain mixin} x own signals x one more "
        "level of subclassing: connect_signal accepts a name iff a class of the MRO declares it",
        "exhaustive": not res["capped"],
        "bfs_levels": res["levels"],
        "deep_search": None if deep is None else {"max_live_connections": 3, "depth": deep["depth"], "states": deep["states"], "transitions": deep["transitions"], "levels": deep["levels"]},
        "bound": {"depth": depth, "max_live_connections": cap, "recursion_depth": 1},
    }
    return {
        "coverage": cov,
        "assumptions": [
            "CPython reference counting: dropping the last strong reference triggers weakref callbacks immediately; gc.collect() handles cycles",
            "handlers removed or added while an emit is in progress are unconstrained (0 or 1 call), per the statement",
        ],
    }


def replay(case, ctx):
    if case.get("part") == "registration":
        registration_task(((None, ["c"], ["a"]),), ctx)
        return
    return _replay(case, ctx)


def _replay(case, ctx):
    hist = tuple(tuple(op) for op in case["hist"])
    spec = Spec(4)
    st = spec.build("signals")
    for i, op in enumerate(hist):
        ctx.muted = i < len(hist) - 1
        print("  step", i, op)
        spec.apply("signals", st, op, ctx, hist[:i])
        print("     conns:", {k: [(c.beh, c.style) for c in v] for k, v in st.conns.items() if v})
    ctx.muted = False
