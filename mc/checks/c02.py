"""C02 — canvas composition is equivalent to operating on a plain grid of cells.

Shape E with closure (H over canvas values): leaves -> all unary ops -> all binary ops over a
pool -> all unary ops on the results -> binary ops of those with leaves -> unary ops, each real
canvas compared cell-for-cell (text, attribute, charset flag), size and coordinates with
mc.refs.grid; operands are checked unchanged; finalized canvases must refuse mutation; the
row-by-row delta against a previously drawn canvas must reproduce the new content.
"""
from __future__ import annotations

import itertools

from .. import env
from ..core import Ctx, exc_site
from ..refs import grid as G
from ..refs.widths import swidth

import urwid
from urwid.canvas import CanvasCombine, CanvasError, CanvasJoin, CanvasOverlay, CompositeCanvas, SolidCanvas, TextCanvas

ID = "C02"
LEVEL = "model_checking"


class PopW:
    def __repr__(self):
        return "<popw>"


POPW = PopW()

# name -> (rows of str, attr rows or None (runs in *characters*, converted to bytes), cs rows or None, cursor, popup)
LEAF_SPECS = {
    "ab": (["ab"], None, None, None, None),
    "abc-cur": (["abc"], None, None, (1, 0), None),
    "wide2": (["你a", "b好"], None, None, None, None),
    "attr": (["abcd"], [[("x", 2), ("y", 2)]], None, None, None),
    "wattr": (["你好"], [[("x", 1), ("y", 1)]], None, None, None),
    "mixattr": (["a你b"], [[(None, 1), ("x", 1), ("y", 1)]], None, None, None),
    "tall3": (["a", "b", "c"], None, None, None, None),
    "tall4": (["pq", "rs", "tu", "vw"], [[("x", 2)], [(None, 2)], [("y", 1), ("x", 1)], [(None, 2)]], None, (0, 2), None),
    "two2": (["ef", "gh"], None, None, None, None),
    "comb": (["éx"], None, None, None, None),
    "dec": (["lqk"], [[("y", 3)]], [[("0", 3)]], None, None),
    "decmix": (["aqb"], None, [[(None, 1), ("0", 1), (None, 1)]], None, None),
    "wide-cur": (["好x"], [[("x", 1), (None, 1)]], None, (2, 0), None),
    "popup": (["mno"], None, None, None, (1, 0)),
    "sp": (["  "], [[("x", 2)]], None, None, None),
    "ctl": (["a\tbc\x7fd"], [[("x", 2), (None, 1), ("y", 3)]], None, None, None),  # control characters occupy no column (they stay with the cell before them)
    "widecomb": (["\u304b\u3099x"], [[("y", 2), (None, 1)]], None, None, None),  # double-width KA followed by a combining mark (U+3099)
}
SOLIDS = {"solid": ("s", 3, 2), "solid1": ("#", 1, 1)}


def make_leaf(name):
    if name in SOLIDS:
        ch, c, r = SOLIDS[name]
        canv = SolidCanvas(ch, c, r)
        g = G.Grid([[(ch, None, None)] * c for _ in range(r)])
        return canv, g
    rows, attrs, css, cursor, popup = LEAF_SPECS[name]
    brows = [r.encode("utf-8") for r in rows]
    battr = None
    if attrs is not None:
        battr = []
        for r, runs in zip(rows, attrs):
            out = []
            i = 0
            for a, n in runs:
                out.append((a, len(r[i : i + n].encode("utf-8"))))
                i += n
            battr.append(out)
    maxcol = max(swidth(r) for r in rows)
    canv = TextCanvas(brows, battr, css, cursor=cursor, maxcol=maxcol)
    if popup:
        canv.set_pop_up(POPW, popup[0], popup[1], 4, 2)
    # model
    grows = []
    for ri, r in enumerate(rows):
        cells = []
        amap = []
        if attrs is not None:
            for a, n in attrs[ri]:
                amap += [a] * n
        cmap = []
        if css is not None:
            for c, n in css[ri]:
                cmap += [c] * n
        for ci, ch in enumerate(r):
            from ..refs.widths import cwidth

            w = cwidth(ch)
            a = amap[ci] if ci < len(amap) else None
            c = cmap[ci] if ci < len(cmap) else None
            if w == 0:
                k = -1 if cells[-1][0] is not None else -2  # after a double-width character: attach to its lead cell
                cells[k] = (cells[k][0] + ch, cells[k][1], cells[k][2])
                continue
            cells.append((ch, a, c))
            if w == 2:
                cells.append((None, a, c))
        cells += [G.BLANK] * (maxcol - len(cells))
        grows.append(cells)
    coords = {}
    if cursor:
        coords["cursor"] = cursor
    if popup:
        coords["pop up"] = popup
    return canv, G.Grid(grows, coords)


ATTR_MAPS = [{None: "n", "x": "z"}, {"x": None}, {"x": "y", "y": "x"}]


def unary_ops(cols, rows, full=True):
    ops = [("wrap",)]
    for l in range(-min(cols - 1, 2), 3):
        for r in range(-min(cols - 1, 2), 3):
            if -min(l, 0) - min(r, 0) < cols and (l or r):
                ops.append(("lr", l, r))
    for t in range(-min(rows - 1, 2), 3):
        for b in range(-min(rows - 1, 2), 3):
            if -min(t, 0) - min(b, 0) < rows and (t or b):
                ops.append(("tb", t, b))
    for t in range(0, rows):
        for cnt in (None, *range(1, rows - t + 1)):
            if t or cnt:
                ops.append(("trim", t, cnt))
    for e in range(1, rows):
        ops.append(("trimend", e))
    for i in range(len(ATTR_MAPS)):
        ops.append(("attr", i))
    if not full:
        keep = {("lr", -1, 0), ("lr", 0, -1), ("lr", -1, -1), ("lr", 1, 0), ("lr", -2, 1), ("lr", 0, 1), ("lr", 0, 2), ("lr", 2, 0), ("lr", 1, 1), ("tb", 0, 1), ("tb", 1, 0), ("tb", -1, 0), ("tb", 0, -1), ("tb", 0, 2), ("tb", 1, 1), ("tb", -2, 0), ("attr", 0), ("wrap",)}
        ops = [o for o in ops if o in keep or o[0] in ("trim", "trimend")]
    return ops


def apply_unary(canv, g: G.Grid, op):
    cc = CompositeCanvas(canv)
    k = op[0]
    if k == "wrap":
        return cc, g.copy()
    if k == "lr":
        cc.pad_trim_left_right(op[1], op[2])
        return cc, g.pad_trim_lr(op[1], op[2])
    if k == "tb":
        cc.pad_trim_top_bottom(op[1], op[2])
        return cc, g.pad_trim_tb(op[1], op[2])
    if k == "trim":
        cc.trim(op[1], op[2])
        return cc, g.trim(op[1], op[2])
    if k == "trimend":
        cc.trim_end(op[1])
        return cc, g.trim_end(op[1])
    if k == "attr":
        cc.fill_attr_apply(dict(ATTR_MAPS[op[1]]))
        return cc, g.attr_map(ATTR_MAPS[op[1]])
    raise AssertionError(op)


def struct_sig(canv):
    """Cheap fingerprint of a canvas' internal structure + coords (to notice operand mutation)."""
    sh = getattr(canv, "shards", None)
    if sh is None:
        return ("leaf", canv.cols(), canv.rows(), tuple(sorted((k, v[:2]) for k, v in canv.coords.items())))
    return (
        tuple((r, tuple((cv[0], cv[1], cv[2], cv[3], tuple(sorted(cv[4].items(), key=repr)) if cv[4] else None, id(cv[5])) for cv in cvs)) for r, cvs in sh),
        tuple(sorted((k, v[:2]) for k, v in canv.coords.items())),
    )


class Val:
    """An expression value: real canvas + model grid + history."""

    __slots__ = ("canv", "g", "hist", "kinds")

    def __init__(self, canv, g, hist, kinds):
        self.canv = canv
        self.g = g
        self.hist = hist
        self.kinds = kinds


def build(hist):
    """Rebuild a value from its expression (used by replay and to get fresh objects)."""
    k = hist[0]
    if k == "leaf":
        c, g = make_leaf(hist[1])
        return Val(c, g, hist, ("leaf",))
    if k == "u":
        v = build(hist[2])
        c, g = apply_unary(v.canv, v.g, tuple(hist[1]))
        return Val(c, g, hist, (hist[1][0], *v.kinds))
    if k == "combine":
        vs = [build(h) for h in hist[1]]
        focus = hist[2]
        c = CanvasCombine([(v.canv, i, i == focus) for i, v in enumerate(vs)])
        return Val(c, G.combine([v.g for v in vs]), hist, ("combine",))
    if k == "join":
        vs = [build(h) for h in hist[1]]
        pads = hist[2]
        c = CanvasJoin([(v.canv, i, i == 0, v.canv.cols() + p) for i, (v, p) in enumerate(zip(vs, pads))])
        return Val(c, G.join([(v.g, v.g.ncols() + p) for v, p in zip(vs, pads)]), hist, ("join",))
    if k == "overlay":
        b, t = build(hist[1]), build(hist[2])
        c = CanvasOverlay(CompositeCanvas(t.canv), b.canv, hist[3], hist[4])  # as Overlay.render does
        return Val(c, G.overlay(b.g, t.g, hist[3], hist[4]), hist, ("overlay",))
    raise AssertionError(hist)


def feature(hist):
    """coarse op path for signatures: outermost two op kinds"""
    out = []
    h = hist
    for _ in range(3):
        k = h[0]
        if k == "u":
            out.append(h[1][0])
            h = h[2]
        elif k == "leaf":
            out.append("leaf")
            break
        else:
            out.append(k)
            break
    return ">".join(out)


def has_wide(g: G.Grid):
    return any(ch is None for row in g.rows for ch, _a, _c in row)


def compare(ctx: Ctx, v: Val, operands=(), dup_coords=False):
    """Compare the real canvas of v with its model. Returns True if equal."""
    case = {"expr": v.hist}
    feat = feature(v.hist) + ("/wide" if has_wide(v.g) else "")
    ctx.count("evaluations")
    try:
        got = G.grid_of_content(v.canv.content())
        size = (v.canv.cols(), v.canv.rows())
    except Exception as e:
        ctx.violation("no-raise", f"C02/content-raises/{feat}/{exc_site(e)}", case, repr(e))
        return False
    ok = True
    want_size = (v.g.ncols(), v.g.nrows())
    if v.g.nrows() and size != want_size:
        ctx.violation("size", f"C02/size/{feat}", case, f"canvas reports {size}, grid is {want_size}")
        ok = False
    elif got != v.g.rows:
        diff = next(((y, r, w) for y, (r, w) in enumerate(zip(got, v.g.rows)) if r != w), None)
        clause = "cells"
        if diff and [c[0] for c in diff[1]] == [c[0] for c in diff[2]]:
            clause = "cell-attrs"
        ctx.violation(clause, f"C02/{clause}/{feat}", case, f"row {diff[0] if diff else '?'}: canvas {diff[1] if diff else got} != grid {diff[2] if diff else v.g.rows}")
        ok = False
    # coordinates move with their content (only demanded while inside the result)
    if not dup_coords:
        for name, (x, y) in v.g.coords.items():
            if 0 <= x < want_size[0] and 0 <= y < want_size[1]:
                real = v.canv.coords.get(name)
                if real is None or tuple(real[:2]) != (x, y):
                    ctx.violation("coords", f"C02/coords/{name}/{feat}", case, f"{name} should be at {(x, y)}, canvas has {real}")
                    ok = False
                elif name == "pop up" and real[2][0] is not POPW:
                    ctx.violation("coords", f"C02/coords/popup-data/{feat}", case, "pop-up data lost")
        for name in v.canv.coords:
            if name not in v.g.coords:
                ctx.violation("coords", f"C02/coords/spurious-{name}/{feat}", case, f"canvas has {name} {v.canv.coords[name][:2]} that no operand had")
                ok = False
    ctx.obs(v.hist, size, got)
    return ok


def check_operand(ctx: Ctx, opv: Val, sig_before, after_hist):
    if struct_sig(opv.canv) != sig_before:
        ctx.violation(
            "operands-unchanged",
            f"C02/operands-unchanged/{feature(after_hist)}",
            {"expr": after_hist, "operand": opv.hist},
            "an operand canvas was modified by an operation applied to a composite built from it",
        )
        return False
    return True


def unary_closure(ctx: Ctx, v: Val, full=True, collect=None):
    """Apply every unary op to v (each on a fresh wrapper), compare, check v unchanged."""
    sig0 = struct_sig(v.canv)
    for op in unary_ops(v.g.ncols(), v.g.nrows(), full):
        hist = ("u", op, v.hist)
        try:
            c, g = apply_unary(v.canv, v.g, op)
        except Exception as e:
            ctx.violation("no-raise", f"C02/op-raises/{op[0]}>{feature(v.hist)}/{exc_site(e)}", {"expr": hist}, repr(e))
            continue
        nv = Val(c, g, hist, (op[0], *v.kinds))
        okc = compare(ctx, nv)
        oko = check_operand(ctx, v, sig0, hist)
        if not oko:
            # the operand is corrupted: stop using it
            return
        if okc and collect is not None:
            collect.append(nv)
    # full re-read of the operand at the end (content equality, not only structure)
    try:
        if G.grid_of_content(v.canv.content()) != v.g.rows:
            ctx.violation("operands-unchanged", f"C02/operands-unchanged/content/{feature(v.hist)}", {"expr": v.hist}, "operand content changed after unary operations on wrappers")
    except Exception as e:
        ctx.violation("no-raise", f"C02/content-raises/{feature(v.hist)}/{exc_site(e)}", {"expr": v.hist}, repr(e))


def binary_results(ctx: Ctx, h1, h2, want=("combine", "join", "overlay")):
    """Yield fresh Val for every binary op on (h1, h2)."""
    a, b = build(h1), build(h2)
    ca, ra, cb, rb = a.g.ncols(), a.g.nrows(), b.g.ncols(), b.g.nrows()
    specs = []
    if "combine" in want and ca == cb:
        specs.append(("combine", (h1, h2), 1))
    if "join" in want:
        specs.append(("join", (h1, h2), (0, 0)))
        specs.append(("join", (h1, h2), (1, 0)))
    if "overlay" in want and cb <= ca and rb <= ra and (cb < ca or rb < ra):
        for left in range(0, ca - cb + 1):
            for top in range(0, ra - rb + 1):
                specs.append(("overlay", h1, h2, left, top))
    for hist in specs:
        try:
            v = build(hist)
        except Exception as e:
            ctx.violation("no-raise", f"C02/op-raises/{hist[0]}/{exc_site(e)}", {"expr": hist}, repr(e))
            continue
        yield v


def operands_of(hist):
    if hist[0] in ("combine", "join"):
        return list(hist[1])
    if hist[0] == "overlay":
        return [hist[1], hist[2]]
    return []


def dup_names(v: Val):
    names = []
    for h in operands_of(v.hist):
        names += list(build(h).g.coords)
    return len(names) != len(set(names))


# ---------------------------------------------------------------- tasks
def t_level1(task, ctx: Ctx):
    env.reset("utf-8")
    name = task[1]
    v = build(("leaf", name))
    compare(ctx, v)
    unary_closure(ctx, v, full=True)
    # content() windows on the leaf itself
    cols, rows = v.g.ncols(), v.g.nrows()
    for tl in range(cols):
        for tt in range(rows):
            for c in range(1, cols - tl + 1):
                for r in range(1, rows - tt + 1):
                    for am in (None, ATTR_MAPS[0]):
                        ctx.count("evaluations")
                        try:
                            got = G.grid_of_content(v.canv.content(tl, tt, c, r, am))
                        except Exception as e:
                            ctx.violation("no-raise", f"C02/content-window-raises/{exc_site(e)}", {"leaf": name, "window": [tl, tt, c, r]}, repr(e))
                            continue
                        want = v.g.window(tl, tt, c, r)
                        if am:
                            want = want.attr_map(am)
                        if got != want.rows:
                            ctx.violation("cells", "C02/cells/content-window" + ("/wide" if has_wide(v.g) else ""), {"leaf": name, "window": [tl, tt, c, r], "attr": bool(am)}, f"{got} != {want.rows}")
    # chains of attribute maps (the same map repeated too: a swap applied twice is the identity), on one wrapper and on nested wrappers
    for n in (2, 3):
        for seq in itertools.product(range(len(ATTR_MAPS)), repeat=n):
            for nested, shared in ((False, False), (True, False), (False, True), (True, True)):
                ctx.count("evaluations")
                hist = ("attr-chain", seq, nested, ("leaf", name)) + (("shared-dicts",) if shared else ())
                try:
                    cc = CompositeCanvas(v.canv)
                    g = v.g
                    own = [dict(m) for m in ATTR_MAPS]  # shared: the very same dictionary object is handed over each time
                    for i in seq:
                        if nested:
                            cc = CompositeCanvas(cc)
                        cc.fill_attr_apply(own[i] if shared else dict(ATTR_MAPS[i]))
                        g = g.attr_map(ATTR_MAPS[i])
                    if shared and own != [dict(m) for m in ATTR_MAPS]:
                        ctx.violation("operands-unchanged", "C02/operands-unchanged/attr-mapping", {"expr": hist}, f"fill_attr_apply changed the caller's mapping: {own}")
                    got = G.grid_of_content(cc.content())
                except Exception as e:
                    ctx.violation("no-raise", f"C02/op-raises/attr-chain/{exc_site(e)}", {"expr": hist}, repr(e))
                    continue
                if got != g.rows:
                    rep = "repeated" if any(a == b for a, b in zip(seq, seq[1:])) else "distinct"
                    ctx.violation("cells", f"C02/cells/attr-chain/{rep}/{'nested' if nested else 'same-wrapper'}", {"expr": hist}, f"maps {[ATTR_MAPS[i] for i in seq]}: {got} != {g.rows}")
    # finalized canvases refuse mutation
    fv = build(("u", ("wrap",), ("leaf", name)))
    fv.canv.finalize(POPW, (cols, rows), False)
    for label, fn in (
        ("trim", lambda c: c.trim(0, 1)),
        ("trim_end", lambda c: c.trim_end(1)),
        ("pad_trim_left_right", lambda c: c.pad_trim_left_right(1, 0)),
        ("pad_trim_top_bottom", lambda c: c.pad_trim_top_bottom(0, 1)),
        ("fill_attr", lambda c: c.fill_attr("q")),
        ("fill_attr_apply", lambda c: c.fill_attr_apply({None: "q"})),
        ("overlay", lambda c: c.overlay(CompositeCanvas(make_leaf("solid1")[0]), 0, 0)),
        ("set_cursor", lambda c: c.set_cursor((0, 0))),
        ("set_pop_up", lambda c: c.set_pop_up(POPW, 0, 0, 1, 1)),
        ("finalize", lambda c: c.finalize(POPW, (cols, rows), False)),
    ):
        ctx.count("evaluations")
        try:
            fn(fv.canv)
        except CanvasError:
            pass
        except Exception as e:
            if label == "trim_end" and rows == 1 and isinstance(e, ValueError):
                pass
            else:
                ctx.violation("finalized", f"C02/finalized/{label}/other-exception", {"leaf": name, "mutator": label}, repr(e))
        else:
            ctx.violation("finalized", f"C02/finalized/{label}/accepted", {"leaf": name, "mutator": label}, "mutator accepted on a finalized canvas")
    if G.grid_of_content(fv.canv.content()) != v.g.rows:
        ctx.violation("finalized", "C02/finalized/content-changed", {"leaf": name}, "finalized canvas changed")
    ctx.sample({"level": 1, "leaf": name})


def pool_b():
    out = []
    for name in [*LEAF_SPECS, *SOLIDS]:
        h = ("leaf", name)
        out.append(h)
        v = build(h)
        c, r = v.g.ncols(), v.g.nrows()
        for op in (("lr", -1, 0), ("lr", 0, -1), ("lr", 1, 1), ("tb", -1, 0), ("tb", 1, 0), ("tb", 0, 1), ("attr", 0), ("trim", 1, None)):
            if op[0] == "lr" and c + min(op[1], 0) + min(op[2], 0) < 1:
                continue
            if op[0] in ("tb",) and r + min(op[1], 0) + min(op[2], 0) < 1:
                continue
            if op[0] == "trim" and r < 2:
                continue
            out.append(("u", op, h))
    return out


def t_level2(task, ctx: Ctx):
    env.reset("utf-8")
    _, h1, partners, full = task
    for h2 in partners:
        for v in binary_results(ctx, h1, h2):
            ops = [build(h) for h in operands_of(v.hist)]
            # operands must be unchanged by the binary op (compare them against their own model)
            if not compare(ctx, v, dup_coords=dup_names(v)):
                continue
            ctx.distinct("nontrivial", v.g.key())
            unary_closure(ctx, v, full=full)
    ctx.sample({"level": 2, "left": h1, "partners": len(partners)})


def t_operands(task, ctx: Ctx):
    """operands-unchanged for binary ops: operand canvases are re-read after being used."""
    env.reset("utf-8")
    _, h1, partners = task
    for h2 in partners:
        a, b = build(h1), build(h2)
        sa, sb = struct_sig(a.canv), struct_sig(b.canv)
        results = []
        ca, ra, cb, rb = a.g.ncols(), a.g.nrows(), b.g.ncols(), b.g.nrows()
        try:
            if ca == cb:
                results.append(CanvasCombine([(a.canv, 0, True), (b.canv, 1, False)]))
            results.append(CanvasJoin([(a.canv, 0, True, ca + 1), (b.canv, 1, False, cb)]))
            results.append(CanvasJoin([(b.canv, 0, True, cb), (a.canv, 1, False, ca + 2)]))
            if cb <= ca and rb <= ra:
                results.append(CanvasOverlay(CompositeCanvas(b.canv), a.canv, ca - cb, ra - rb))
            for r in results:
                for op in (("tb", 0, 2), ("tb", 1, 1), ("lr", 1, 1), ("lr", -1, 0), ("attr", 0), ("trim", 0, 1)):
                    if op[0] == "lr" and r.cols() < 2:
                        continue
                    w = CompositeCanvas(r)
                    apply_unary(r, G.Grid([[]]), op) if False else None
                    if op[0] == "tb":
                        w.pad_trim_top_bottom(op[1], op[2])
                    elif op[0] == "lr":
                        w.pad_trim_left_right(op[1], op[2])
                    elif op[0] == "attr":
                        w.fill_attr_apply(dict(ATTR_MAPS[0]))
                    else:
                        w.trim(op[1], op[2])
                    list(w.content())
        except Exception as e:
            ctx.violation("no-raise", f"C02/op-raises/operands/{exc_site(e)}", {"pair": [h1, h2]}, repr(e))
            continue
        ctx.count("evaluations")
        for v, s0 in ((a, sa), (b, sb)):
            if struct_sig(v.canv) != s0 or G.grid_of_content(v.canv.content()) != v.g.rows:
                ctx.violation("operands-unchanged", f"C02/operands-unchanged/binary/{feature(v.hist)}", {"pair": [h1, h2], "operand": v.hist}, "operand changed after being combined/joined/overlaid")


def t_level3(task, ctx: Ctx):
    env.reset("utf-8")
    _, inner_pairs, leaves, full = task
    for h1, h2 in inner_pairs:
        inner = [v.hist for v in binary_results(ctx, h1, h2, want=("combine", "join"))]
        for hi in inner:
            for hl in leaves:
                for x, y in ((hi, hl), (hl, hi)):
                    for v in binary_results(ctx, x, y):
                        if not compare(ctx, v, dup_coords=dup_names(v)):
                            continue
                        ctx.distinct("nontrivial", v.g.key())
                        unary_closure(ctx, v, full=full)
    ctx.sample({"level": 3, "inner_pairs": len(inner_pairs), "leaves": len(leaves)})


def apply_delta(old_rows, delta_rows):
    """old_rows/new rows as lists of (attr, cs, bytes) segments; an int n in a delta row = keep n columns of the old row."""
    out = []
    for old, drow in zip(old_rows, delta_rows):
        cells_old = G.grid_of_content([old])[0]
        row = []
        x = 0
        for seg in drow:
            if isinstance(seg, int):
                row += cells_old[x : x + seg]
                x += seg
            else:
                cells = G.grid_of_content([[seg]])[0]
                row += cells
                x += len(cells)
        out.append(row)
    return out


def t_delta(task, ctx: Ctx):
    """Row-by-row delta against a previously drawn canvas, applied to the old rows, reproduces the new content."""
    env.reset("utf-8")
    _, names, idx, _stride = task
    shared = {n: make_leaf(n) for n in names}

    def comp(expr):
        k = expr[0]
        if k == "leaf":
            return shared[expr[1]]
        if k == "combine":
            parts = [comp(e) for e in expr[1]]
            if len({g.ncols() for _c, g in parts}) != 1:
                raise ValueError("combine needs equal widths")
            return CanvasCombine([(c, i, i == 0) for i, (c, _g) in enumerate(parts)]), G.combine([g for _c, g in parts])
        if k == "join":
            parts = [comp(e) for e in expr[1]]
            return (
                CanvasJoin([(c, i, i == 0, c.cols() + p) for i, ((c, _g), p) in enumerate(zip(parts, expr[2]))]),
                G.join([(g, g.ncols() + p) for (_c, g), p in zip(parts, expr[2])]),
            )
        if k == "overlay":
            (cb, gb), (ct, gt) = comp(expr[1]), comp(expr[2])
            return CanvasOverlay(CompositeCanvas(ct), cb, expr[3], expr[4]), G.overlay(gb, gt, expr[3], expr[4])
        if k == "u":
            c, g = comp(expr[2])
            return apply_unary(c, g, expr[1])
        raise AssertionError(expr)

    exprs = []
    L = [("leaf", n) for n in names]
    for a, b in itertools.permutations(L, 2):
        exprs.append(("join", (a, b), (0, 0)))
        exprs.append(("join", (a, b), (1, 0)))
        exprs.append(("combine", (a, b)))
        exprs.append(("u", ("attr", 0), ("join", (a, b), (0, 0))))
        exprs.append(("u", ("lr", 1, 0), ("combine", (a, b))))
    for a, b, c in itertools.permutations(L, 3):
        exprs.append(("combine", (a, b, c)))
        exprs.append(("combine", (a, ("join", (b, c), (0, 0)))))
        exprs.append(("join", (a, ("combine", (b, c))), (0, 1)))
    built = []
    for e in exprs:
        try:
            c, g = comp(e)
        except ValueError:
            continue
        built.append((e, c, g))

    def geom(c):
        return tuple((r, tuple(cv[2] for cv in cvs)) for r, cvs in c.shards)

    def row_bounds(c):
        out, acc = [], 0
        for r, _cvs in c.shards:
            acc += r
            out.append(acc)
        return out

    def tails(c):
        tot = c.cols()
        return any(sum(cv[2] for cv in cvs) != tot for _r, cvs in c.shards)

    for i, (e_old, c_old, g_old) in enumerate(built):
        if i % task[3] != idx:
            continue
        old_rows = list(c_old.content())
        for e_new, c_new, g_new in built:
            if (c_new.cols(), c_new.rows()) != (c_old.cols(), c_old.rows()):
                continue
            ctx.count("evaluations")
            case = {"old": e_old, "new": e_new, "leaves": names}
            # 'aligned': same shard rows and cview columns in both canvases, no cview spanning several shards
            aligned = geom(c_old) == geom(c_new) and not tails(c_old) and not tails(c_new)
            if aligned:
                dom = "aligned"
            else:
                # which kind of misalignment: shard row boundaries, cview column boundaries within equal rows, cviews spanning several shards
                parts = []
                if row_bounds(c_old) != row_bounds(c_new):
                    parts.append("rows")
                elif geom(c_old) != geom(c_new):
                    parts.append("columns")
                if tails(c_old) or tails(c_new):
                    parts.append("spanning")
                dom = "misaligned-geometry/" + "+".join(parts)
            try:
                delta = list(c_new.content_delta(c_old))
                got = apply_delta(old_rows, delta)
            except Exception as e:
                ctx.violation("delta", f"C02/delta/{dom}/raises" + ("/" + exc_site(e) if aligned else ""), case, repr(e))
                continue
            if got != g_new.rows:
                ctx.violation("delta", f"C02/delta/{dom}/wrong" + (f"/{e_new[0]}-vs-{e_old[0]}" if aligned else ""), case, f"old rows + delta = {got}, new content = {g_new.rows}")
            if aligned:
                ctx.count("delta_aligned_pairs")
            kept = sum(1 for row in delta for seg in row if isinstance(seg, int))
            if kept:
                ctx.distinct("nontrivial", ("delta", e_old, e_new))
            ctx.obs(e_old, e_new, kept)


def t_large(task, ctx: Ctx):
    """blank padding regions wider / taller than any small-integer shortcut: pads of 255..300 on every side, joined and overlaid"""
    env.reset("utf-8")
    for name in ("ab", "wide2", "attr"):
        v = build(("leaf", name))
        for n in (255, 256, 257, 300):
            for op in (("lr", n, 0), ("lr", 0, n), ("lr", n, n), ("tb", n, 0), ("tb", 0, n)):
                ctx.count("evaluations")
                hist = ("u", op, v.hist)
                try:
                    c, g = apply_unary(v.canv, v.g, op)
                except Exception as e:
                    ctx.violation("no-raise", f"C02/op-raises/{op[0]}-large/{exc_site(e)}", {"expr": hist}, repr(e))
                    continue
                nv = Val(c, g, hist, (op[0], *v.kinds))
                if compare(ctx, nv) and op[0] == "lr":
                    # a second operation cutting through the big blank region
                    for op2 in (("lr", -(n // 2), 0), ("lr", 0, -(n // 2)), ("tb", 0, 1)):
                        ctx.count("evaluations")
                        try:
                            c2, g2 = apply_unary(nv.canv, nv.g, op2)
                            compare(ctx, Val(c2, g2, ("u", op2, hist), (op2[0], *nv.kinds)))
                        except Exception as e:
                            ctx.violation("no-raise", f"C02/op-raises/{op2[0]}-large/{exc_site(e)}", {"expr": ("u", op2, hist)}, repr(e))


def t_iterables(task, ctx: Ctx):
    """CanvasCombine / CanvasJoin take any iterable: a generator, iter(list) or reversed(list) gives the same canvas as the list"""
    env.reset("utf-8")
    names = ["ab", "two2", "wide2", "attr", "tall3"]
    for a, b in itertools.product(names, repeat=2):
        for kind in ("combine", "join"):
            for how in ("list", "iter", "generator", "reversed", "tuple"):
                ctx.count("evaluations")
                va, vb = build(("leaf", a)), build(("leaf", b))
                hist = ("iterable", kind, how, a, b)
                try:
                    if kind == "combine":
                        w = max(va.g.ncols(), vb.g.ncols())
                        items = []
                        for v in (va, vb):
                            c = CompositeCanvas(v.canv)
                            c.pad_trim_left_right(0, w - v.g.ncols())
                            items.append((c, None, False))
                        arg = {"list": items, "iter": iter(items), "generator": (x for x in items), "reversed": reversed(items[::-1]), "tuple": tuple(items)}[how]
                        got = G.grid_of_content(CanvasCombine(arg).content())
                        want = G.grid_of_content(CanvasCombine(list(items)).content()) if how != "list" else None
                    else:
                        items = [(va.canv, None, False, va.g.ncols()), (vb.canv, None, False, vb.g.ncols())]
                        arg = {"list": items, "iter": iter(items), "generator": (x for x in items), "reversed": reversed(items[::-1]), "tuple": tuple(items)}[how]
                        got = G.grid_of_content(CanvasJoin(arg).content())
                        want = G.grid_of_content(CanvasJoin(list(items)).content()) if how != "list" else None
                except Exception as e:
                    ctx.violation("no-raise", f"C02/op-raises/{kind}-{how}/{exc_site(e)}", {"expr": hist}, repr(e))
                    continue
                if want is not None and got != want:
                    ctx.violation("cells", f"C02/cells/{kind}-{how}", {"expr": hist}, f"{kind} of a {how}: {got}; of the list: {want}")


def dispatch(task, ctx: Ctx):
    return {"l1": t_level1, "l2": t_level2, "l3": t_level3, "ops": t_operands, "delta": t_delta, "large": t_large, "iterables": t_iterables}[task[0]](task, ctx)


def chunks(lst, n):
    return [lst[i : i + n] for i in range(0, len(lst), n)]


def run(tier, R):
    tasks = []
    leaves = [*LEAF_SPECS, *SOLIDS]
    for name in leaves:
        tasks.append(("l1", name))
    B = pool_b()
    Bq = B if tier == "thorough" else [h for h in B if h[0] == "leaf" or h[1] in (("lr", -1, 0), ("lr", 0, -1), ("tb", 0, 1), ("attr", 0), ("trim", 1, None))]
    for h1 in Bq:
        for part in chunks(Bq, 12 if tier == "quick" else 8):
            tasks.append(("l2", h1, part, tier == "thorough"))
    Lh = [("leaf", n) for n in leaves]
    for h1 in Lh:
        tasks.append(("ops", h1, Lh))
    inner_leaves = Lh if tier == "thorough" else [("leaf", n) for n in ("ab", "wide2", "tall3", "tall4", "two2", "attr", "solid", "wide-cur", "dec", "widecomb")]
    outer_leaves = Lh if tier == "thorough" else [("leaf", n) for n in ("tall4", "tall3", "wide2", "ab", "wattr", "solid1", "abc-cur")]
    pairs = list(itertools.product(inner_leaves, repeat=2))
    for part in chunks(pairs, 2 if tier == "quick" else 1):
        tasks.append(("l3", part, outer_leaves, False))
    dsets = [("ab", "two2", "wide2", "solid"), ("tall3", "tall4", "attr", "wattr", "abc-cur"), ("ab", "sp", "abc-cur", "dec", "wide-cur", "attr", "wattr"),
             ("ab", "sp", "two2")]  # one- and two-row leaves of one width: stacks of the same height whose shared leaf sits on different rows
    if tier == "thorough":
        dsets.append(("ab", "wide2", "tall4", "dec", "wide-cur", "popup"))
    for ds in dsets:
        for i in range(8):
            tasks.append(("delta", ds, i, 8))
    tasks.append(("large",))
    tasks.append(("iterables",))
    R.run_tasks(dispatch, tasks)
    ev = int(R.ctx.counts["evaluations"])
    cov = {
        "states": len(R.ctx.sets.get("nontrivial", ())),
        "transitions": ev,
        "traces_validated_against_impl": ev,
        "evaluations": ev,
        "distinct_nontrivial": len(R.ctx.sets.get("nontrivial", ())),
        "rule": f"{len(leaves)} leaf canvases (text with wide/combining/DEC-charset content, run-length attrs, cursor, pop-up; solid) -> every unary op "
        "(wrap, pad/trim left/right and top/bottom in [-2,2], trim, trim_end, 3 attribute maps) and every chain of 2-3 attribute maps (repeats included, on one wrapper and nested) -> every binary op (combine, join with pad 0/1, overlay "
        f"at every offset) over a pool of {len(Bq)} values followed by every unary op -> binary ops of {len(pairs)} leaf-pair composites with "
        f"{len(outer_leaves)} leaves in both orders followed by unary ops; content() windows on leaves; blank paddings of 255..300 columns / rows; finalize guard; operands re-read; delta for "
        "every same-size pair of composites over shared leaf objects. states = distinct result grids of binary expressions; evaluations = canvases compared",
        "exhaustive": True,
    }
    return {
        "coverage": cov,
        "assumptions": [
            "cell model: mc/refs/grid.py; a half-cut double-width character becomes a space with the character's attribute and no charset flag",
            "coordinates are only compared while the model's coordinate lies inside the result; when two operands carry the same coordinate name it is not compared",
            "expression depth <= 3 binary/unary layers over the stated leaves (not arbitrary depth)",
        ],
    }


def replay(case, ctx):
    env.reset("utf-8")
    if "expr" in case:
        def tup(x):
            return tuple(tup(i) for i in x) if isinstance(x, (list, tuple)) else x

        hist = tup(case["expr"])
        if hist and hist[0] == "attr-chain":
            t_level1(("l1", hist[3][1]), ctx)
            return
        v = build(hist)
        print("model grid:", v.g.rows, v.g.coords)
        print("canvas    :", G.grid_of_content(v.canv.content()), {k: c[:2] for k, c in v.canv.coords.items()})
        compare(ctx, v, dup_coords=dup_names(v))
        if "operand" in case:
            ov = build(tup(case["operand"]))
            unary_closure(ctx, ov, full=True)
    elif "pair" in case:
        t_operands(("ops", tuple(case["pair"][0]), [tuple(case["pair"][1])]), ctx)
    elif "old" in case:
        for i in range(8):
            t_delta(("delta", tuple(case["leaves"]), i, 8), ctx)
    elif "leaf" in case:
        t_level1(("l1", case["leaf"]), ctx)
