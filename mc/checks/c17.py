"""C17 — display attributes travel from markup to the terminal unchanged.

Shape E, three parts, each a bounded-exhaustive enumeration through the real code:
  1 markup -> cells   nested markup trees over unique characters x width x wrap x align x encoding; every
                      displayed character must carry the tag of the innermost markup enclosing it, padding None,
                      and no attribute run may cut a multi-byte character
  2 attribute maps    every mapping touching <= 2 keys at each level of AttrMap / AttrWrap / fill_attr_apply
                      chains (focus maps, repeated renders, sibling cviews); cell attr == outer(inner(attr))
  3 palette -> SGR    every entry form x depth x bright-is-bold x order of registration / property changes,
                      drawn by the real raw Screen into the reference terminal (mc/refs/vt_ref.py)
"""
from __future__ import annotations

import itertools

from .. import env
from ..core import Ctx, exc_site
from ..refs import widths as W
from ..refs.vt_ref import Term
from ..virt.screen import make_screen

import urwid
from urwid.canvas import CompositeCanvas, TextCanvas
from urwid.display.common import AttrSpec

ID = "C17"
LEVEL = "model_checking"

MODES = {"utf8": "utf-8", "wide": "euc-jp", "narrow": "iso-8859-1"}

# ----------------------------------------------------------------------
# part 1: markup -> cells
# ----------------------------------------------------------------------
# piece kinds: letters are assigned when the markup is instantiated so that every visible glyph is unique
PIECES = ["LL", "L L", "W", "LC", "L\nL", "", " ", "WL"]
TAGS = [None, "x", "y"]
NARROW_POOL = "abcdefghijklmnopqrstuvwxyz"
WIDE_POOL = {"utf8": "你好们来去上下", "wide": "あいうえおかき", "narrow": ""}


def shapes(tier):
    """markup shapes: lists of items; item = (tag, piece) | (tag, [ (tag2, piece), piece ]) ..."""
    flat = [(t, p) for p in PIECES for t in TAGS]
    nested = []
    for t in ("x", "y"):
        for p, q in (("LL", "W"), ("W", "LC"), ("L L", ""), ("", "LL")):
            t2 = "y" if t == "x" else "x"
            nested.append((t, [(None, p), (t2, q)]))
            nested.append((t, [(t2, q), (None, p), (t2, "L")]))
            if p:
                nested.append((t, [("NONE", p), (t2, q)]))  # an explicit (None, text) tuple inside a tagged group: its innermost tag is None
                nested.append((t, [(t2, "L"), ("NONE", [(None, p), (t2, q)]), (None, "L")]))
    deep = [("x", [(None, "L"), ("y", [(None, "W"), ("x", "L"), (None, "LC")]), (None, "L")])]
    items = flat + nested + (deep if tier != "quick" else deep[:1])
    out = []
    for item in items:
        out.append([item])
    base = flat if tier != "quick" else [f for f in flat if f[1] in ("LL", "W", "", "L L", "LC")]
    for a in base:
        for b in items:
            out.append([a, b])
    for a in (("x", "LL"), (None, "LL")):
        for b in (("y", ""), (None, "")):
            for c in (("x", "L"), (None, "W"), ("y", "LL")):
                out.append([a, b, c])
    if tier != "quick":
        small = [f for f in flat if f[1] in ("LL", "W", "")]
        for a in small:
            for b in nested[:6] + small:
                for c in small:
                    out.append([a, b, c])
    return out


def swap_tags(shape):
    """the same shape with the tags x and y exchanged"""
    def sw(item):
        tag, body = item
        t2 = {"x": "y", "y": "x"}.get(tag, tag)
        return (t2, [sw(b) for b in body]) if isinstance(body, list) else (t2, body)

    return [sw(it) for it in shape]


def instantiate(shape, mode):
    """-> (markup for urwid, [(glyph string, tag)] in text order). Unique glyphs; None if the mode lacks a character class."""
    ni = iter(NARROW_POOL)
    wi = iter(WIDE_POOL[mode])
    chars = []

    def piece(p, tag):
        s = ""
        for k in p:
            if k == "L":
                c = next(ni)
            elif k == "W":
                c = next(wi, None)
                if c is None:
                    raise StopIteration
            elif k == "C":
                if mode != "utf8":
                    raise StopIteration
                c = "́"
            else:
                c = k
            s += c
            chars.append((c, tag))
        return s

    def build(item, cur):
        tag, body = item
        if tag == "NONE":
            if isinstance(body, list):
                return (None, [build(b, None) for b in body])
            return (None, piece(body, None))
        t = tag if tag is not None else cur
        if isinstance(body, list):
            inner = [build(b, t) for b in body]
            return (tag, inner) if tag is not None else inner
        s = piece(body, t)
        return (tag, s) if tag is not None else s

    try:
        m = [build(it, None) for it in shape]
    except StopIteration:
        return None
    return m, chars


def decode_row(row, codec, mode):
    """cells [(glyph, attr)] of one canvas row; raises UnicodeDecodeError when an attribute run cuts a character"""
    cells = []
    for a, cs, bt in row:
        s = bytes(bt).decode(codec)
        for ch in s:
            if mode == "utf8":
                w = W.cwidth(ch)
            elif mode == "wide":
                w = len(ch.encode(codec))
            else:
                w = 1
            if w == 0:
                if cells:
                    cells.append((ch, a, 0))
                continue
            cells.append((ch, a, w))
    return cells


def check_markup(ctx: Ctx, mode, shape, width, wrap, align):
    inst = instantiate(shape, mode)
    if inst is None:
        return
    markup, chars = inst
    case = {"part": 1, "mode": mode, "shape": shape, "width": width, "wrap": wrap, "align": align}

    def V(clause, detail, feat="", site=""):
        ctx.violation(clause, f"C17/{clause}/{mode}/{wrap}{('/' + feat) if feat else ''}{('/' + site) if site else ''}", case, detail)

    ctx.count("evaluations")
    codec = MODES[mode]
    try:
        t = urwid.Text(markup, align, wrap)
        text, attrs = t.get_text()
    except Exception as e:
        V("markup-raises", f"Text({markup!r}) raised {type(e).__name__}: {e}", site=exc_site(e))
        return
    want_text = "".join(c for c, _ in chars)
    if text != want_text:
        V("text-intact", f"markup {markup!r} decomposed to text {text!r}, expected {want_text!r}")
        return
    # attribute runs of get_text() must cover the text with the innermost tags
    runs = []
    for c, tag in chars:
        n = len(c.encode(codec)) if False else len(c)
        if runs and runs[-1][0] == tag:
            runs[-1][1] += n
        else:
            runs.append([tag, n])
    flat = []
    for a, n in attrs:
        flat += [a] * n
    want_flat = [tag for c, tag in chars for _ in range(len(c))]
    # trailing None run may be omitted
    while want_flat and want_flat[-1] is None and len(flat) < len(want_flat):
        flat.append(None)
    if flat != want_flat:
        V("innermost", f"markup {markup!r}: attribute runs {attrs!r} do not give every character its innermost tag ({want_flat})", "decompose")
        return
    try:
        urwid.CanvasCache.clear()
        canv = t.render((width,))
        rows = [list(r) for r in canv.content()]
    except Exception as e:
        ctx.count("render-raises-(C03/C01)")
        return
    tag_of = {}
    for c, tag in chars:
        if c not in (" ", "\n") and W.cwidth(c) > 0:
            tag_of[c] = tag
    space_tags = {tag for c, tag in chars if c == " "} | {None}
    if wrap in ("clip", "ellipsis"):
        # the blank that replaces a cut double-width character is unconstrained
        space_tags |= {tag for c, tag in chars if W.cwidth(c) == 2}
    ctx.obs(mode, shape, width, wrap, align, [[(a, bytes(b)) for a, cs, b in r] for r in rows])
    shown = 0
    for y, row in enumerate(rows):
        try:
            cells = decode_row(row, codec, mode)
        except UnicodeDecodeError as e:
            V("no-shift", f"row {y}: an attribute run cuts a multi-byte character: {[(a, bytes(b)) for a, cs, b in row]} ({e})", "split-character")
            return
        prev_base_attr = None
        for ch, a, w in cells:
            if w == 0:
                # a combining character travels with its base character
                if a != prev_base_attr and ch == "́":
                    V("innermost", f"row {y}: combining character carries {a!r}, its base character {prev_base_attr!r}", "combining")
                continue
            prev_base_attr = a
            if ch in tag_of:
                shown += 1
                if a != tag_of[ch]:
                    V("innermost", f"row {y}: character {ch!r} is displayed with attribute {a!r}, its innermost markup tag is {tag_of[ch]!r}; markup {markup!r} width {width} align {align}",
                      "wide" if w == 2 else "narrow")
            elif ch == " ":
                if a not in space_tags:
                    V("padding-none", f"row {y}: a blank cell carries {a!r}; blanks of the text carry {sorted(map(str, space_tags))}")
            # anything else is the ellipsis mark: unconstrained
    seen = set()
    for row in rows:
        try:
            seen |= {ch for ch, a, w in decode_row(row, codec, mode)}
        except UnicodeDecodeError:
            pass
    if wrap in ("space", "any") and rows and rows != [[]]:
        fits = width >= 2 or not any(W.cwidth(c) == 2 or (mode == "wide" and len(c.encode(codec)) == 2) for c in tag_of)
        missing = [c for c in tag_of if c not in seen]
        if fits and missing:
            V("text-intact", f"characters {missing} of the markup are not displayed at width {width}; rows {[[(a, bytes(b)) for a, cs, b in r] for r in rows]}; markup {markup!r}",
              "empty-run" if '""' in repr(shape).replace("''", '""') else "")
    if shown:
        ctx.distinct("nontrivial", (1, mode, repr(shape), width, wrap, align))
    # the same widget given the same characters with other tags (the first canvas still alive): the new tags show
    shape2 = swap_tags(shape)
    if shape2 != shape:
        inst2 = instantiate(shape2, mode)
        if inst2 is not None and "".join(c for c, _ in inst2[1]) == want_text:
            markup2, chars2 = inst2
            tag2 = {c: tag for c, tag in chars2 if c not in (" ", "\n") and W.cwidth(c) > 0}
            try:
                t.set_text(markup2)
                rows2 = [list(r) for r in t.render((width,)).content()]
                bad = None
                for y, row in enumerate(rows2):
                    for ch, a, w in decode_row(row, codec, mode):
                        if w and ch in tag2 and a != tag2[ch]:
                            bad = (y, ch, a, tag2[ch])
                            break
                    if bad:
                        break
                if bad:
                    V("innermost", f"after set_text() with the same characters and other tags ({markup2!r} after {markup!r}): row {bad[0]} shows {bad[1]!r} with {bad[2]!r}, its tag is {bad[3]!r}", "retagged")
            except UnicodeDecodeError:
                pass
            except Exception as e:
                V("markup-raises", f"set_text({markup2!r}) / render raised {type(e).__name__}: {e}", site=exc_site(e))
            t.set_text(markup)
    # the canvas seen through a narrower window (what an Overlay or a trim does): every visible column keeps the attribute it has in the full
    # canvas - the blank standing for a cut double-width character carries that character's attribute, not its neighbour's
    if width >= 3:
        full = []
        ok_rows = True
        for row in rows:
            try:
                cols_a = []
                for ch, a, w in decode_row(row, codec, mode):
                    cols_a += [a] * w
                full.append(cols_a)
            except UnicodeDecodeError:
                ok_rows = False
        if ok_rows and all(len(r) == width for r in full):
            for tl, cw_ in ((0, width - 1), (1, width - 1), (1, width - 2), (0, width - 2)):
                if cw_ < 1:
                    continue
                try:
                    win = [list(r) for r in canv.content(tl, 0, cw_, len(rows))]
                    for y, row in enumerate(win):
                        got_w = []
                        for ch, a, w in decode_row(row, codec, mode):
                            got_w += [a] * w
                        if got_w != full[y][tl : tl + cw_]:
                            V("no-shift", f"row {y} seen through columns {tl}..{tl + cw_}: attributes {got_w}, in the full canvas these columns carry {full[y][tl : tl + cw_]}", "window")
                            break
                except UnicodeDecodeError:
                    pass
                except Exception as e:
                    V("markup-raises", f"content({tl}, 0, {cw_}, {len(rows)}) raised {type(e).__name__}: {e}", site=exc_site(e))
    # exact judgement through the layout structure for untrimmed lines: padding cells carry None, text spaces their tag
    if mode != "utf8" or wrap in ("clip", "ellipsis"):
        return  # clipped lines are trimmed at render time: only the glyph rule above applies
    try:
        lay = t.get_line_translation(width)
    except Exception:
        return
    offs_tag = []
    for c, tag in chars:
        offs_tag.append(tag)
    for y, (line, row) in enumerate(zip(lay, rows)):
        lw = sum(s[0] for s in line)
        if lw > width:
            continue
        exp = []
        for seg in line:
            sc, offs = seg[0], seg[1]
            if offs is None:
                exp += [None] * sc
            elif len(seg) == 3 and not isinstance(seg[2], (bytes, str)):
                for p in range(offs, seg[2]):
                    w = W.cwidth(chars[p][0])
                    exp += [chars[p][1]] * w
            elif len(seg) == 3:
                exp += ["?"] * sc
            else:
                exp += ["?"] * sc
        exp += [None] * (width - len(exp))
        got = []
        for ch, a, w in decode_row(row, codec, mode):
            got += [a] * w
        for x, (g, e_) in enumerate(zip(got, exp)):
            if e_ != "?" and g != e_:
                V("padding-none" if e_ is None else "innermost", f"row {y} column {x}: attribute {g!r}, the layout puts {'padding' if e_ is None else 'a character tagged ' + repr(e_)} there; "
                  f"markup {markup!r} width {width} align {align}", "by-layout")
                break


def markup_task(task, ctx: Ctx):
    mode, shapes_, tier = task
    env.reset(MODES[mode])
    widths = (1, 2, 3, 5) if tier == "quick" else (1, 2, 3, 4, 5, 7)
    for shape in shapes_:
        for width in widths:
            for wrap in ("space", "any", "clip", "ellipsis"):
                for align in ("left", "center", "right"):
                    check_markup(ctx, mode, shape, width, wrap, align)
    env.reset("utf-8")


# ----------------------------------------------------------------------
# part 2: attribute maps
# ----------------------------------------------------------------------
DOM = [None, "x", "y", "z"]
VALS = [None, "x", "y", "z", "w"]


def all_maps(maxkeys=2):
    out = [{}]
    for k in DOM:
        for v in VALS:
            if v != k:
                out.append({k: v})
    if maxkeys >= 2:
        for k1, k2 in itertools.combinations(DOM, 2):
            for v1 in VALS:
                for v2 in VALS:
                    if v1 != k1 or v2 != k2:
                        out.append({k1: v1, k2: v2})
    return out


def base_widget():
    return urwid.Text([("x", "a"), ("y", "b"), ("z", "c"), "d"])


def row_attrs(canv, y=0):
    out = []
    for i, row in enumerate(canv.content()):
        if i == y:
            for a, cs, bt in row:
                out += [a] * len(bt)
    return out


def apply_map(m, attrs):
    return [m.get(a, a) for a in attrs]


def mk_level(kind, w, amap, fmap):
    """kind 'map' = AttrMap, 'wrap' = AttrWrap (only {None: v} maps), returns widget"""
    if kind == "wrap":
        return urwid.AttrWrap(w, amap.get(None), None if fmap is None else fmap.get(None))
    return urwid.AttrMap(w, dict(amap), None if fmap is None else dict(fmap))


def check_chain(ctx: Ctx, chain, focus_seq):
    """chain: list of (kind, attr_map, focus_map|None) inner -> outer; focus_seq: renders in order on the same widget"""
    case = {"part": 2, "chain": [(k, sorted(a.items(), key=repr), None if f is None else sorted(f.items(), key=repr)) for k, a, f in chain], "focus_seq": focus_seq}

    def V(clause, detail, feat=""):
        ctx.violation(clause, f"C17/{clause}/{'+'.join(k for k, a, f in chain)}{('/' + feat) if feat else ''}", case, detail)

    ctx.count("evaluations")
    urwid.CanvasCache.clear()
    w = base_widget()
    for kind, amap, fmap in chain:
        w = mk_level(kind, w, amap, fmap)
    base = ["x", "y", "z", None] + [None] * 2
    for n, focus in enumerate(focus_seq):
        try:
            canv = w.render((6,), focus)
            got = row_attrs(canv)
        except Exception as e:
            V("map-raises", f"render raised {type(e).__name__}: {e}")
            return
        exp = list(base)
        for kind, amap, fmap in chain:
            if kind == "wrap":
                # AttrWrap(w, attr, focus_attr): {None: attr}; focus_attr None means no separate focus attribute
                fa = None if fmap is None else fmap.get(None)
                v = fa if (focus and fa is not None) else amap.get(None)
                m = {None: v}
            else:
                m = fmap if (focus and fmap is not None) else amap
            exp = apply_map(m, exp)
        ctx.obs(case["chain"], focus, got)
        if got != exp:
            feat = ("focus" if focus else "nofocus") + ("/rerender" if n else "")
            if any(f == {} for k, a, f in chain):
                feat += "/empty-focus-map"
            V("compose", f"render #{n} focus={focus}: cell attributes {got}, composition of the maps gives {exp}", feat)
            return
    ctx.distinct("nontrivial", (2, repr(case["chain"])))


def maps_task(task, ctx: Ctx):
    kind, lo, hi, tier = task
    env.reset("utf-8")
    M = all_maps(2)
    M1 = all_maps(1)
    FM = [None, {}, {None: "w"}, {"x": "y", "y": "x"}]
    if kind == "level1":
        for amap in M[lo:hi]:
            for fmap in FM:
                for lvl in ("map", "wrap"):
                    if lvl == "wrap" and (set(amap) - {None} or fmap == {} or (fmap and set(fmap) - {None})):
                        continue
                    check_chain(ctx, [(lvl, amap, fmap)], [False, True])
                    check_chain(ctx, [(lvl, amap, fmap)], [True, False])
    elif kind == "level2":
        for inner in M[lo:hi]:
            for outer in M:
                check_chain(ctx, [("map", inner, None), ("map", outer, None)], [False, True])
            for outer in M1:
                for fmap in FM[1:]:
                    check_chain(ctx, [("map", inner, fmap), ("map", outer, None)], [True, False])
                    check_chain(ctx, [("map", inner, None), ("map", outer, fmap)], [False, True, False])
    elif kind == "level3":
        sel = M1 + [{"x": "y", "y": "z"}, {None: "x", "x": None}, {"x": "y", "y": "x"}]
        for a in sel[lo:hi]:
            for b in sel:
                for c in sel:
                    check_chain(ctx, [("map", a, None), ("map", b, None), ("map", c, None)], [False, True])
    elif kind == "siblings":
        # one outer map over a container whose children are separate canvases, one of them with an inner map
        for inner in M[lo:hi]:
            for outer in M1 + [{"x": "y", "y": "z"}]:
                check_siblings(ctx, inner, outer)
    elif kind == "fill":
        for inner in M[lo:hi]:
            for outer in M1 + [{"x": "y", "y": "z"}, {"x": "y", "y": "x"}]:
                check_fill(ctx, inner, outer)


def check_siblings(ctx: Ctx, inner, outer):
    case = {"part": 2, "siblings": True, "inner": sorted(inner.items(), key=repr), "outer": sorted(outer.items(), key=repr)}
    ctx.count("evaluations")
    urwid.CanvasCache.clear()
    left = urwid.AttrMap(base_widget(), dict(inner))
    right = base_widget()
    for cont in (urwid.Columns([(4, left), (4, right)]), urwid.Pile([left, right])):
        top = urwid.AttrMap(cont, dict(outer))
        for n, focus in enumerate((False, True)):
            canv = top.render((8,), focus)
            base = ["x", "y", "z", None]
            e_left = apply_map(outer, apply_map(inner, base))
            e_right = apply_map(outer, base)
            if isinstance(cont, urwid.Columns):
                got = row_attrs(canv, 0)
                exp = e_left + e_right
            else:
                got = row_attrs(canv, 0)[:4] + row_attrs(canv, 1)[:4]
                exp = e_left + e_right
            if got != exp:
                ctx.violation("compose", f"C17/compose/siblings/{type(cont).__name__}", case,
                              f"{type(cont).__name__}[AttrMap(inner) | plain] under an outer map, render #{n}: attributes {got}, expected {exp} (the plain sibling must only see the outer map)")
                return
            # with that canvas still alive (the screen keeps the last one): the container rendered on its own shows no outer map,
            # and a changed outer map shows on the next render
            direct = cont.render((8,), focus)
            got_d = row_attrs(direct, 0) if isinstance(cont, urwid.Columns) else row_attrs(direct, 0)[:4] + row_attrs(direct, 1)[:4]
            exp_d = apply_map(inner, base) + base
            if got_d != exp_d:
                ctx.violation("compose", f"C17/compose/siblings/{type(cont).__name__}/unwrapped-after-wrapped", case,
                              f"{type(cont).__name__} rendered on its own after it was rendered under an outer AttrMap: attributes {got_d}, expected {exp_d}")
                return
            other = {"x": "w"} if outer != {"x": "w"} else {"y": "w"}
            top.set_attr_map(dict(other))
            if focus:
                top.set_focus_map(dict(other))
            canv2 = top.render((8,), focus)
            got2 = row_attrs(canv2, 0) if isinstance(cont, urwid.Columns) else row_attrs(canv2, 0)[:4] + row_attrs(canv2, 1)[:4]
            exp2 = apply_map(other, apply_map(inner, base)) + apply_map(other, base)
            top.set_attr_map(dict(outer))
            top.set_focus_map(dict(outer))
            if got2 != exp2:
                ctx.violation("compose", f"C17/compose/siblings/{type(cont).__name__}/map-changed", case,
                              f"outer map changed from {outer} to {other} (earlier canvas still alive): attributes {got2}, expected {exp2}")
                return
            del canv, direct, canv2
    ctx.distinct("nontrivial", (2, "sib", repr(case)))


def check_fill(ctx: Ctx, inner, outer):
    """fill_attr_apply on canvases directly, twice on copies; the caller's mapping objects must stay untouched"""
    case = {"part": 2, "fill": True, "inner": sorted(inner.items(), key=repr), "outer": sorted(outer.items(), key=repr)}
    ctx.count("evaluations")
    tc = TextCanvas([b"abcd"], [[("x", 1), ("y", 1), ("z", 1), (None, 1)]], maxcol=4)
    i1, o1 = dict(inner), dict(outer)
    c = CompositeCanvas(tc)
    c.fill_attr_apply(i1)
    c2 = CompositeCanvas(c)
    c2.fill_attr_apply(o1)
    got = row_attrs(c2)
    exp = apply_map(outer, apply_map(inner, ["x", "y", "z", None]))
    if got != exp:
        ctx.violation("compose", "C17/compose/fill_attr_apply", case, f"fill_attr_apply(inner) then fill_attr_apply(outer): {got}, expected {exp}")
    got_c = row_attrs(c)
    if got_c != apply_map(inner, ["x", "y", "z", None]):
        ctx.violation("compose", "C17/compose/fill_attr_apply/source-canvas-changed", case,
                      f"fill_attr_apply on a copy changed the canvas it was copied from: {got_c}, expected {apply_map(inner, ['x', 'y', 'z', None])}")
    if i1 != inner or o1 != outer:
        ctx.violation("compose", "C17/compose/fill_attr_apply/mapping-mutated", case, f"fill_attr_apply changed the caller's mapping: inner {inner}->{i1}, outer {outer}->{o1}")
    ctx.distinct("nontrivial", (2, "fill", repr(case)))


# ----------------------------------------------------------------------
# part 3: palette -> SGR
# ----------------------------------------------------------------------
BASIC = ["default", "black", "dark red", "dark green", "brown", "dark blue", "dark magenta", "dark cyan", "light gray", "dark gray", "light red", "light green",
         "yellow", "light blue", "light magenta", "light cyan", "white"]
BASIC_NUM = {n: i - 1 for i, n in enumerate(BASIC)}
STYLES = ["bold", "underline", "standout", "italics", "blink", "strikethrough"]
FLAG = {"bold": "bold", "underline": "underline", "standout": "reverse", "italics": "italics", "blink": "blink", "strikethrough": "strike"}


def palette_entries(tier):
    """(name, foreground, background, mono, fg_high, bg_high)"""
    ents = []
    n = 0
    for fg in BASIC:
        for bg in (BASIC if tier != "quick" else ["default", "black", "dark blue", "light gray", "white", "light red"]):
            n += 1
            ents.append((f"b{n}", fg, bg, None, None, None))
    for k in range(1, 4 if tier == "quick" else 7):
        for combo in itertools.combinations(STYLES, k):
            n += 1
            st = ",".join(combo)
            ents.append((f"s{n}", f"light green,{st}", "dark blue", st, f"#8f0,{st}", "g19"))
            ents.append((f"t{n}", f"{st}", "default", "standout" if "standout" not in combo else "bold", None, None))
    highs = ["h0", "h7", "h8", "h15", "h16", "h87", "h88", "h231", "h255", "#000", "#fff", "#f80", "#08f", "g0", "g50", "g100", "g#80", "#ff8000", "#0080ff", "#123456"]
    for i, h in enumerate(highs):
        n += 1
        ents.append((f"h{n}", "yellow", "dark red", "underline", h, highs[(i * 7 + 3) % len(highs)]))
        ents.append((f"i{n}", "white,bold", "black", None, f"{h},underline", None))
    return ents


def want_for(entry, colors):
    """the (foreground, background) description the palette specifies for this depth"""
    name, fg, bg, mono, fgh, bgh = entry
    if colors == 1:
        return (mono or "default", "default", 1)
    if colors == 16:
        return (fg, bg, 16)
    fh = fgh if fgh is not None else fg
    bh = bgh if bgh is not None else bg

    def large_h(d):
        d = d.split(",")[0]
        return d.startswith("h") and d[1:].isdigit() and int(d[1:]) > 15

    if colors == 88:
        if large_h(fh) or large_h(bh):
            return (fg, bg, 16)
        return (fh, bh, 88)
    return (fh, bh, colors)


def rendition(spec: AttrSpec, bright_is_bold):
    """(acceptable fg set, bg, flags) a terminal should show for this AttrSpec"""
    flags = set()
    for st in STYLES:
        if getattr(spec, st):
            flags.add(FLAG[st])
    rgb = spec.get_rgb_values()
    fgs = set()
    extra_bold = False
    if spec.foreground_true:
        fgs = {("rgb",) + tuple(rgb[0:3])}
    elif spec.foreground_high:
        fgs = {("i", spec.foreground_number)}
    elif spec.foreground_basic:
        n = spec.foreground_number
        if n > 7 and bright_is_bold:
            fgs = {("i", n - 8)}
            extra_bold = True
        else:
            fgs = {("i", n)}
    else:
        fgs = {None}
    if spec.background_true:
        bg = ("rgb",) + tuple(rgb[3:6])
    elif spec.background_high:
        bg = ("i", spec.background_number)
    elif spec.background_basic:
        bg = ("i", spec.background_number)
    else:
        bg = None
    if extra_bold:
        flags.add("bold")
    return fgs, bg, frozenset(flags)


def check_palette(ctx: Ctx, entries, colors, bright, order):
    """order: 'props-first' | 'palette-first' | 'bright-later' | 'depth-later' | 'alias'"""
    case0 = {"part": 3, "colors": colors, "bright_is_bold": bright, "order": order}
    if order == "props-first":
        scr, out = make_screen(colors, bright)
        for e in entries:
            scr.register_palette_entry(*e)
    elif order == "palette-first":
        scr, out = make_screen(16 if colors != 16 else 256, not bright)
        for e in entries:
            scr.register_palette_entry(*e)
        scr.set_terminal_properties(colors=colors, bright_is_bold=bright)
    elif order == "bright-later":
        scr, out = make_screen(colors, not bright)
        for e in entries:
            scr.register_palette_entry(*e)
        scr.set_terminal_properties(bright_is_bold=bright)
    elif order == "depth-later":
        scr, out = make_screen(16 if colors != 16 else 88, bright)
        for e in entries:
            scr.register_palette_entry(*e)
        scr.set_terminal_properties(colors=colors)
    elif order == "redefine":
        # one list in which every name is defined, aliased, and then defined again: the alias keeps the first definition, the name gets the second
        scr, out = make_screen(colors, bright)

        def form(e, name=None):
            e = (name or e[0], *e[1:])
            if e[4] is not None:
                return tuple(e)
            return tuple(e[:4]) if e[3] is not None else tuple(e[:3])

        lst = []
        expect = {}
        for e1, e2 in zip(entries, entries[1:] + entries[:1]):
            lst += [form(e1), ("alias:" + e1[0], e1[0]), form(e2, e1[0])]
            expect[e1[0]] = e2
            expect["alias:" + e1[0]] = e1
        scr.register_palette(lst)
    else:  # alias
        scr, out = make_screen(colors, bright)
        def form(e):
            if e[4] is not None:
                return tuple(e)
            return tuple(e[:4]) if e[3] is not None else tuple(e[:3])

        # (an iterable, as documented: a generator here)
        scr.register_palette(x for x in [form(e) for e in entries] + [("alias:" + e[0], e[0]) for e in entries])
    cols = 4
    scr.start()
    out.take()
    names = [e[0] for e in entries] + (["alias:" + e[0] for e in entries] if order in ("alias", "redefine") else [])
    by_name = {e[0]: e for e in entries}
    if order == "redefine":
        by_name = expect
    for name in names + ["<undefined>", None]:
        ctx.count("evaluations")
        term = Term(cols, 1)
        canv = TextCanvas([b"ab  "], [[(name, 2), (None, 2)]], maxcol=cols)
        try:
            scr.clear()
            scr.draw_screen((cols, 1), canv)
        except Exception as e:
            ctx.violation("draw-raises", f"C17/draw-raises/{exc_site(e)}", dict(case0, name=name), f"draw_screen with attribute {name!r} raised {type(e).__name__}: {e}")
            continue
        term.feed(out.take())
        glyph, fg, bg, flags = term.g[0][0]
        if name in ("<undefined>", None):
            spec = AttrSpec("default", "default")
            what = "default"
        else:
            ent = by_name[name] if order == "redefine" else by_name[name[6:] if name.startswith("alias:") else name]
            fgd, bgd, depth = want_for(ent, colors)
            spec = AttrSpec(fgd, bgd, depth)
            what = f"{fgd!r}/{bgd!r} at {depth}"
        fgs, ebg, eflags = rendition(spec, bright)
        ctx.obs(colors, bright, order, name, fg, bg, sorted(flags))
        feat = ("alias" if (name or "").startswith("alias:") else ("undefined" if name == "<undefined>" else "entry")) + f"/depth{colors}/{order}"
        if glyph != "a":
            ctx.violation("sgr-decodes", f"C17/sgr-decodes/glyph/{feat}", dict(case0, name=name), f"cell shows {glyph!r} instead of 'a'")
        elif fg not in fgs or bg != ebg or flags != eflags:
            sub = "fg" if fg not in fgs else ("bg" if bg != ebg else "flags")
            ctx.violation("sgr-decodes" if name != "<undefined>" else "undefined-default", f"C17/sgr-decodes/{sub}/{feat}", dict(case0, name=name, entry=by_name.get(name)),
                          f"attribute {name!r} ({what}) decodes on the terminal to fg={fg} bg={bg} flags={sorted(flags)}; the palette specifies fg in {sorted(map(str, fgs))} bg={ebg} flags={sorted(eflags)}")
        else:
            ctx.distinct("nontrivial", (3, colors, bright, order, name))
        # the plain cells after the attributed ones must be back to the default rendition
        g2 = term.g[0][2]
        if g2[1:] != (None, None, frozenset()):
            ctx.violation("sgr-decodes", f"C17/sgr-decodes/leak/{feat}", dict(case0, name=name), f"the unattributed cell after {name!r} shows fg={g2[1]} bg={g2[2]} flags={sorted(g2[3])}")
        # two more frames on the same screen, the second one an incremental update whose changed row starts with unattributed text
        # (the terminal is still in whatever rendition the previous frame ended with)
        try:
            scr.draw_screen((cols, 1), TextCanvas([b"abcd"], [[(None, 2), (name, 2)]], maxcol=cols))
            term.feed(out.take())
            scr.draw_screen((cols, 1), TextCanvas([b"xbcd"], [[(None, 2), (name, 2)]], maxcol=cols))
            term.feed(out.take())
        except Exception as e:
            ctx.violation("draw-raises", f"C17/draw-raises/{exc_site(e)}", dict(case0, name=name, frames=3), f"incremental draw_screen with attribute {name!r} raised {type(e).__name__}: {e}")
            continue
        g0, g3 = term.g[0][0], term.g[0][2]
        if g0[0] != "x" or g0[1:] != (None, None, frozenset()):
            ctx.violation("sgr-decodes", f"C17/sgr-decodes/leak/incremental/{feat}", dict(case0, name=name, frames=3),
                          f"after an incremental update the unattributed cell 0 shows {g0[0]!r} fg={g0[1]} bg={g0[2]} flags={sorted(g0[3])} (the row ends in {name!r})")
        if g3[0] != "c" or g3[1] not in fgs or g3[2] != ebg or g3[3] != eflags:
            ctx.violation("sgr-decodes", f"C17/sgr-decodes/incremental/{feat}", dict(case0, name=name, frames=3),
                          f"after an incremental update the cell carrying {name!r} shows {g3[0]!r} fg={g3[1]} bg={g3[2]} flags={sorted(g3[3])}")
        # the bottom-right cell alone in its attribute run: urwid writes it one column early and inserts its left neighbour
        try:
            scr.clear()
            term = Term(cols, 1)
            scr.draw_screen((cols, 1), TextCanvas([b"wxyz"[:cols].ljust(cols, b"q")], [[(None, cols - 1), (name, 1)]], maxcol=cols))
            term.feed(out.take())
        except Exception as e:
            ctx.violation("draw-raises", f"C17/draw-raises/{exc_site(e)}", dict(case0, name=name, frames="last-cell"), f"draw_screen with {name!r} on the last cell raised {type(e).__name__}: {e}")
            continue
        gy, gz = term.g[0][cols - 2], term.g[0][cols - 1]
        if gy[1:] != (None, None, frozenset()):
            ctx.violation("sgr-decodes", f"C17/sgr-decodes/leak/last-row-insert/{feat}", dict(case0, name=name, frames="last-cell"),
                          f"the unattributed cell left of the bottom-right cell ({name!r}) shows {gy[0]!r} fg={gy[1]} bg={gy[2]} flags={sorted(gy[3])}")
        if gz[1] not in fgs or gz[2] != ebg or gz[3] != eflags:
            ctx.violation("sgr-decodes", f"C17/sgr-decodes/last-cell/{feat}", dict(case0, name=name, frames="last-cell"),
                          f"the bottom-right cell carrying {name!r} shows {gz[0]!r} fg={gz[1]} bg={gz[2]} flags={sorted(gz[3])}")
    scr.stop()


def check_two_screens(ctx: Ctx, colors, bright):
    """two screen objects with different palettes in one process: each resolves a name through its own palette, whatever the other one
    registered, in whichever order they were created, registered and had their terminal properties set"""
    for order in ("A-registers-first", "B-registers-first"):
        ctx.count("evaluations")
        case = {"part": 3, "two_screens": True, "colors": colors, "bright_is_bold": bright, "order": order}
        sa, oa = make_screen(16, bright)
        sb, ob = make_screen(16, bright)
        ea = [("alert", "light red", "dark blue", "bold", "#f00", "#00f"), ("both", "yellow", "black", None, "#ff0", "g19")]
        eb = [("body", "light green", "default", None, "#0f0", "default"), ("both", "white", "dark red", "underline", "#fff", "#800")]
        for scr, ents in ((sa, ea), (sb, eb)) if order.startswith("A") else ((sb, eb), (sa, ea)):
            for e in ents:
                scr.register_palette_entry(*e)
        # only now the depth changes: the escape tables are rebuilt from each screen's palette
        sb.set_terminal_properties(colors=colors, bright_is_bold=bright)
        sa.set_terminal_properties(colors=colors, bright_is_bold=bright)
        for who, scr, out, mine, theirs in (("A", sa, oa, ea, eb), ("B", sb, ob, eb, ea)):
            scr.start()
            out.take()
            own = {e[0]: e for e in mine}
            for name in ("alert", "body", "both"):
                term = Term(4, 1)
                try:
                    scr.clear()
                    scr.draw_screen((4, 1), TextCanvas([b"ab  "], [[(name, 2), (None, 2)]], maxcol=4))
                except Exception as e:
                    ctx.violation("draw-raises", f"C17/draw-raises/two-screens/{exc_site(e)}", dict(case, screen=who, name=name), repr(e))
                    continue
                term.feed(out.take())
                glyph, fg, bg, flags = term.g[0][0]
                if name in own:
                    fgd, bgd, depth = want_for(own[name], colors)
                    spec = AttrSpec(fgd, bgd, depth)
                else:
                    spec = AttrSpec("default", "default")
                fgs, ebg, eflags = rendition(spec, bright)
                if fg not in fgs or bg != ebg or flags != eflags:
                    ctx.violation("sgr-decodes" if name in own else "undefined-default", f"C17/sgr-decodes/two-screens/{'own' if name in own else 'other-screens-name'}/depth{colors}", dict(case, screen=who, name=name),
                                  f"screen {who} draws {name!r} ({'its own entry' if name in own else 'registered on the other screen only'}) as fg={fg} bg={bg} flags={sorted(flags)}; expected fg in {sorted(map(str, fgs))} bg={ebg} flags={sorted(eflags)}")
                else:
                    ctx.distinct("nontrivial", (3, "two", colors, bright, order, who, name))
            scr.stop()


def palette_task(task, ctx: Ctx):
    colors, bright, order, lo, hi, tier = task
    env.reset("utf-8")
    if order == "two-screens":
        check_two_screens(ctx, colors, bright)
        return
    ents = palette_entries(tier)[lo:hi]
    check_palette(ctx, ents, colors, bright, order)


# ----------------------------------------------------------------------
def run(tier, R):
    tasks = []
    for mode in MODES:
        sh = shapes(tier)
        n = 12
        for i in range(0, len(sh), n):
            tasks.append((mode, sh[i : i + n], tier))
    R.run_tasks(markup_task, tasks, recheck=0.03)
    n1 = int(R.ctx.counts["evaluations"])
    R.log(f"part 1: {n1} markup renders")
    M = all_maps(2)
    t2 = []
    for lo in range(0, len(M), 12):
        t2.append(("level1", lo, lo + 12, tier))
        t2.append(("level2", lo, lo + 12, tier))
        t2.append(("siblings", lo, lo + 12, tier))
        t2.append(("fill", lo, lo + 12, tier))
    for lo in range(0, 30, 3):
        t2.append(("level3", lo, lo + 3, tier))
    R.run_tasks(maps_task, t2, recheck=0.03)
    n2 = int(R.ctx.counts["evaluations"]) - n1
    R.log(f"part 2: {n2} map chains")
    ents = palette_entries(tier)
    t3 = []
    for colors in (1, 16, 88, 256, 2**24):
        for bright in (False, True):
            for order in ("props-first", "palette-first", "bright-later", "depth-later", "alias", "redefine"):
                for lo in range(0, len(ents), 60):
                    t3.append((colors, bright, order, lo, lo + 60, tier))
            t3.append((colors, bright, "two-screens", 0, 0, tier))
    R.run_tasks(palette_task, t3, recheck=0.03)
    ev = int(R.ctx.counts["evaluations"])
    n3 = ev - n1 - n2
    R.log(f"part 3: {n3} palette names drawn")
    nt = len(R.ctx.sets.get("nontrivial", ()))
    cov = {
        "states": nt,
        "transitions": ev,
        "traces_validated_against_impl": ev,
        "evaluations": ev,
        "distinct_nontrivial": nt,
        "rule": f"part 1: {len(shapes(tier))} markup shapes (1-3 items, nesting depth <= 3, pieces over narrow / wide / combining / newline / space / empty, tags None/x/y, unique glyphs) "
        "x widths x 4 wrap modes x 3 alignments x {utf8, euc-jp, iso-8859-1}; part 2: every attribute mapping touching <= 2 keys of {None,x,y,z} (values incl. a fresh name) as "
        "AttrMap / AttrWrap at one level with 4 focus maps and both render orders, every pair at two levels, a 30^3 lattice at three levels, sibling canvases under one outer "
        f"map, direct fill_attr_apply; part 3: {len(ents)} palette entries (all basic fg x bg, style subsets, mono, high-colour forms h/#/g/#rrggbb) + aliases + undefined name x depths "
        "1/16/88/256/2^24 x bright-is-bold x 5 orders of registration vs set_terminal_properties, each drawn by the raw Screen and decoded by the reference terminal. "
        "non-trivial = distinct cases in which a tagged character / mapped cell / named attribute was actually displayed",
        "exhaustive": True,
        "parts": {"markup": n1, "maps": n2, "palette": n3},
    }
    return {
        "coverage": cov,
        "assumptions": [
            "every visible glyph of a markup is unique, so the glyph identifies its tag; the ellipsis mark and the blank replacing a cut double-width character are unconstrained",
            "AttrSpec fields are trusted (C18); with bright-is-bold a bright basic foreground may be shown as bold + the dark colour",
            "mc/refs/vt_ref.py decodes SGR (incl. 38/48;5 and ;2)",
        ],
    }


def replay(case, ctx):
    def tup(p):
        return tuple(tup(x) if isinstance(x, (list, tuple)) else x for x in p)

    part = case.get("part")
    if part == 1:
        env.reset(MODES[case["mode"]])

        def shp(x):
            if isinstance(x, (list, tuple)) and len(x) == 2 and (x[0] is None or isinstance(x[0], str)) and isinstance(x[1], (list, tuple, str)):
                return (x[0], [shp(i) for i in x[1]] if isinstance(x[1], (list, tuple)) else x[1])
            return x

        shape = [shp(i) for i in case["shape"]]
        check_markup(ctx, case["mode"], shape, case["width"], case["wrap"], case["align"])
        env.reset("utf-8")
    elif part == 2:
        env.reset("utf-8")
        if case.get("siblings"):
            check_siblings(ctx, dict(tup(case["inner"])), dict(tup(case["outer"])))
        elif case.get("fill"):
            check_fill(ctx, dict(tup(case["inner"])), dict(tup(case["outer"])))
        else:
            chain = [(k, dict(tup(a)), None if f is None else dict(tup(f))) for k, a, f in case["chain"]]
            check_chain(ctx, chain, list(case["focus_seq"]))
    else:
        env.reset("utf-8")
        ents = palette_entries("thorough")
        name = case.get("name")
        base = name[6:] if isinstance(name, str) and name.startswith("alias:") else name
        sel = [e for e in ents if e[0] == base] or ents[:3]
        check_palette(ctx, sel, case["colors"], case["bright_is_bold"], case["order"])
