"""C11 — screen-width arithmetic is consistent for text in every encoding.

Shape E.  Part 1: every Unicode scalar value individually (exhaustive within the planes of the tier).
Part 2: every string of <= L characters over class representatives, built from tokens whose
boundaries and widths are known by construction (that *is* the reference: a list of
(offset, width) per character), x every boundary pair x every target column x encodings.
"""
from __future__ import annotations

import itertools
import warnings

import wcwidth

from .. import env
from ..core import Ctx, exc_site

import urwid
from urwid import str_util as su
from urwid import util

ID = "C11"
LEVEL = "model_checking"

warnings.simplefilter("ignore")

# (name, str form, width)
UCHARS = [
    ("a", "a", 1),
    ("e-acute", "é", 1),
    ("cjk", "你", 2),
    ("combining", "́", 0),
    ("emoji", "\U0001f600", 2),
    ("zwj", "‍", 0),
    ("dec-line", "─", 1),
    ("ctrl", "\x01", 0),
]
# wide-mode byte tokens (double-byte pair = 2 columns, single = 1)
WTOKENS = [
    ("a", b"a", 1),
    ("at", b"@", 1),
    ("euc", b"\xa4\xa2", 2),
    ("gbk-8140", b"\x81\x40", 2),
    ("big5-a440", b"\xa4\x40", 2),
    ("pair-a17e", b"\xa1\x7e", 2),
    ("pair-fefe", b"\xfe\xfe", 2),
]
NTOKENS = [("a", b"a", 1), ("e9", b"\xe9", 1), ("80", b"\x80", 1), ("at", b"@", 1), ("a4", b"\xa4", 1)]
BAD_UTF8 = [b"a", b"\xc3\xa9", b"\xe4\xbd\xa0", b"\xc3", b"\xe4\xbd", b"\x80", b"\xff", b"\xc0\x80", b"\xf0\x9f\x98",
            # the last scalar value, the first sequence past it, the largest 4-byte form, a surrogate, a 5-byte lead
            b"\xf4\x8f\xbf\xbf", b"\xf4\x90\x80\x80", b"\xf7\xbf\xbf\xbf", b"\xed\xa0\x80", b"\xf8\x88\x80\x80\x80"]
BAD_WIDE = [b"a", b"@", b"\xa4\xa2", b"\xa4", b"\x81", b"\x7f", b"\x80"]

DEC = "▮◆▒␉␌␍␊°±␤␋┘┐┌└┼⎺⎻─⎼⎽├┤┴┬│≤≥π≠£·"
ALT = "_`abcdefghijklmnopqrstuvwxyz{|}~"
DECMAP = dict(zip(DEC, ALT))


def wc(c):
    w = wcwidth.wcwidth(c)
    return w if w > 0 else 0


# ------------------------------------------------------------------ part 1
def scalar_task(task, ctx: Ctx):
    _, lo, hi = task
    su.set_byte_encoding("utf8")
    for o in range(lo, hi):
        if 0xD800 <= o <= 0xDFFF:
            continue
        c = chr(o)
        b = c.encode("utf-8")
        w = wc(c)
        case = {"part": 1, "cp": o}
        ctx.count("evaluations")

        def V(clause, detail, o=o, case=case):
            plane = o >> 16
            ctx.violation(clause, f"C11/{clause}/scalar/plane{plane}/w{w}", case, detail)

        try:
            if su.get_char_width(c) != w or su.get_width(o) != w:
                V("width-table", f"get_char_width(U+{o:04X})={su.get_char_width(c)} table={w}")
            if su.calc_width(c, 0, 1) != w:
                V("width-table", f"calc_width(str)={su.calc_width(c, 0, 1)} table={w}")
            if su.calc_width(b, 0, len(b)) != w:
                V("str-bytes-agree", f"calc_width(bytes)={su.calc_width(b, 0, len(b))} table={w}")
            if su.decode_one(b, 0) != (o, len(b)):
                V("decode", f"decode_one={su.decode_one(b, 0)}")
            if len(b) > 1 and su.decode_one_right(b, len(b) - 1) != (o, -1):
                V("decode", f"decode_one_right={su.decode_one_right(b, len(b) - 1)}")
            if su.is_wide_char(c, 0) != (w == 2) or su.is_wide_char(b, 0) != (w == 2):
                V("is-wide", f"is_wide_char str={su.is_wide_char(c, 0)} bytes={su.is_wide_char(b, 0)} table width {w}")
            for col in (0, 1, 2, 3):
                ps = su.calc_text_pos(c, 0, 1, col)
                pb = su.calc_text_pos(b, 0, len(b), col)
                es = (1, w) if w <= col else (0, 0)
                eb = (len(b), w) if w <= col else (0, 0)
                if ps != es:
                    V("pos", f"calc_text_pos(str, col={col})={ps} expected {es}")
                if pb != eb:
                    V("pos", f"calc_text_pos(bytes, col={col})={pb} expected {eb}")
            s2 = b"a" + b + b"a"
            if su.move_next_char(s2, 1, len(s2)) != 1 + len(b):
                V("next-prev-inverse", f"move_next_char over U+{o:04X} -> {su.move_next_char(s2, 1, len(s2))}")
            if su.move_prev_char(s2, 0, 1 + len(b)) != 1:
                V("next-prev-inverse", f"move_prev_char over U+{o:04X} -> {su.move_prev_char(s2, 0, 1 + len(b))}")
            t2 = "a" + c + "a"
            if su.move_next_char(t2, 1, 3) != 2 or su.move_prev_char(t2, 0, 2) != 1:
                V("next-prev-inverse", "str next/prev")
            if w:
                ctx.distinct("nontrivial", ("cp", o))
        except Exception as e:
            ctx.violation("no-raise", f"C11/no-raise/scalar/{exc_site(e)}", case, repr(e))
    ctx.obs(task)
    ctx.sample({"part": 1, "range": [lo, hi]})


# ------------------------------------------------------------------ part 2
def build(tokens, form):
    """-> (text, boundaries list of offsets len n+1, widths list len n)"""
    bounds = [0]
    widths = []
    parts = []
    for _name, val, w in tokens:
        if form == "utf8bytes":
            val = val.encode("utf-8")
        parts.append(val)
        bounds.append(bounds[-1] + len(val))
        widths.append(w)
    text = (b"" if form != "str" else "").join(parts)
    return text, bounds, widths


def check_string(ctx: Ctx, mode, form, tokens):
    """All boundary pairs / columns on one string whose character structure is known."""
    text, bounds, widths = build(tokens, form)
    n = len(widths)
    names = [t[0] for t in tokens]
    case = {"part": 2, "mode": mode, "form": form, "tokens": names}
    classes = "widths{" + ",".join(str(w) for w in sorted(set(widths))) + "}"
    pre = [0]
    for w in widths:
        pre.append(pre[-1] + w)

    def V(clause, fn, detail):
        ctx.violation(clause, f"C11/{clause}/{mode}/{form}/{fn}/{classes}", case, detail)

    bset = set(bounds)
    try:
        for i in range(n + 1):
            if i < n:
                iw = su.is_wide_char(text, bounds[i])
                if iw != (widths[i] == 2):
                    V("is-wide", "is_wide_char", f"{text!r} offs {bounds[i]} -> {iw}, width {widths[i]}")
            for j in range(i, n + 1):
                s, e = bounds[i], bounds[j]
                W = pre[j] - pre[i]
                ctx.count("evaluations")
                cw = su.calc_width(text, s, e)
                if cw != W:
                    V("additive", "calc_width", f"calc_width({text!r},{s},{e})={cw}, sum of character widths {W}")
                if i < j:
                    nx = su.move_next_char(text, s, e)
                    if nx != bounds[i + 1]:
                        V("next-prev-inverse", "move_next_char", f"move_next_char({text!r},{s},{e})={nx}, next boundary {bounds[i + 1]}")
                    pv = su.move_prev_char(text, s, e)
                    if pv != bounds[j - 1]:
                        V("next-prev-inverse", "move_prev_char", f"move_prev_char({text!r},{s},{e})={pv}, previous boundary {bounds[j - 1]}")
                for col in range(0, W + 2):
                    pos, actual = su.calc_text_pos(text, s, e, col)
                    ctx.obs(pos, actual)
                    if pos not in bset or not s <= pos <= e:
                        V("pos-boundary", "calc_text_pos", f"calc_text_pos({text!r},{s},{e},{col})={(pos, actual)}: offset not on a character boundary {bounds}")
                        continue
                    k = bounds.index(pos)
                    if actual != pre[k] - pre[i]:
                        V("pos-width", "calc_text_pos", f"calc_text_pos({text!r},{s},{e},{col})={(pos, actual)} but width up to {pos} is {pre[k] - pre[i]}")
                    if actual > col:
                        V("pos-le-col", "calc_text_pos", f"calc_text_pos({text!r},{s},{e},{col})={(pos, actual)} beyond the requested column")
                    # closest: no longer prefix fits with strictly more columns used
                    for k2 in range(k + 1, j + 1):
                        w2 = pre[k2] - pre[i]
                        if w2 <= col and w2 > actual:
                            V("pos-closest", "calc_text_pos", f"calc_text_pos({text!r},{s},{e},{col})={(pos, actual)} but offset {bounds[k2]} gives column {w2} <= {col}")
                            break
                        if w2 > col:
                            break
                # trimming
                for sc in range(0, W + 1):
                    for ec in range(sc + 1, W + 1):  # empty column ranges are degenerate: nothing is demanded
                        sp, ep, pl, pr = util.calc_trim_text(text, s, e, sc, ec)
                        ctx.count("evaluations")
                        if sp not in bset or ep not in bset or not s <= sp <= ep <= e or pl not in (0, 1) or pr not in (0, 1):
                            V("trim-boundary", "calc_trim_text", f"calc_trim_text({text!r},{s},{e},{sc},{ec})={(sp, ep, pl, pr)} boundaries {bounds}")
                            continue
                        got = pl + (pre[bounds.index(ep)] - pre[bounds.index(sp)]) + pr
                        if got != ec - sc:
                            V("trim-width", "calc_trim_text", f"calc_trim_text({text!r},{s},{e},{sc},{ec})={(sp, ep, pl, pr)} total width {got} != {ec - sc}")
                        # straddle flags
                        sl = any(widths[k] == 2 and pre[k] - pre[i] + 1 == sc for k in range(i, j))
                        sr = any(widths[k] == 2 and pre[k] - pre[i] + 1 == ec for k in range(i, j))
                        if ec == sc:
                            continue  # empty range: flags unconstrained (nothing is shown)
                        if bool(pl) != sl:
                            V("trim-flags", "calc_trim_text/left", f"calc_trim_text({text!r},{s},{e},{sc},{ec})={(sp, ep, pl, pr)} left straddle is {sl}")
                        if bool(pr) != sr:
                            V("trim-flags", "calc_trim_text/right", f"calc_trim_text({text!r},{s},{e},{sc},{ec})={(sp, ep, pl, pr)} right straddle is {sr}")
        if form != "str" and n:
            Wt = pre[n]
            attr = [(k, bounds[k + 1] - bounds[k]) for k in range(n)]
            cs = [(None, len(text))]
            for sc in range(0, Wt + 1):
                for ec in range(sc + 1, Wt + 1):
                    t, a, c = util.trim_text_attr_cs(text, attr, cs, sc, ec)
                    la = sum(r for _, r in a)
                    lc = sum(r for _, r in c)
                    if la != len(t) or lc != len(t):
                        V("trim-runs", "trim_text_attr_cs", f"trim_text_attr_cs({text!r},{sc},{ec}) text {t!r} attr run {la} cs run {lc}")
                    if su.calc_width(t, 0, len(t)) != ec - sc:
                        V("trim-width", "trim_text_attr_cs", f"trim_text_attr_cs({text!r},{sc},{ec}) -> {t!r} width {su.calc_width(t, 0, len(t))}")
        if any(widths):
            ctx.distinct("nontrivial", (mode, form, tuple(names)))
    except Exception as e:
        ctx.violation("no-raise", f"C11/no-raise/{mode}/{form}/{exc_site(e)}", case, repr(e))


def check_invalid(ctx: Ctx, mode, parts):
    text = b"".join(parts)
    case = {"part": "invalid", "mode": mode, "bytes": text}
    n = len(text)
    try:
        for s in (0,):  # arbitrary offsets would cut valid characters: that is a caller error, not an input
            for e in (n,):
                ctx.count("evaluations")
                wd = su.calc_width(text, s, e)
                # the two walks over the whole string must agree on its width, however the invalid bytes are counted
                pos_all, col_all = su.calc_text_pos(text, s, e, 2 * (e - s) + 2)
                if pos_all != e or col_all != wd:
                    ctx.violation("width-additive", f"C11/width-vs-position/{mode}/invalid-bytes", case, f"calc_width({text!r}) = {wd} but calc_text_pos walks the same bytes to offset {pos_all} in {col_all} columns")
                for col in range(0, (e - s) + 2):
                    pos, actual = su.calc_text_pos(text, s, e, col)
                    if not s <= pos <= e or actual > col or actual < 0:
                        ctx.violation("pos-le-col", f"C11/pos-range/{mode}/invalid-bytes", case, f"calc_text_pos({text!r},{s},{e},{col})={(pos, actual)}")
                if s < e:
                    nx = su.move_next_char(text, s, e)
                    # a leading UTF-8 continuation byte has no start byte to step back to: not demanded
                    pv = su.move_prev_char(text, s, e) if (mode != "utf8" or text[s] & 0xC0 != 0x80) else e - 1
                    if not s < nx or not pv < e:
                        ctx.violation("next-prev-inverse", f"C11/next-prev-progress/{mode}/invalid-bytes", case, f"next({s},{e})={nx} prev={pv} on {text!r}")
                    su.is_wide_char(text, s)
                util.calc_trim_text(text, s, e, 0, e - s)
        ctx.obs(text)
    except Exception as ex:
        ctx.violation("no-raise", f"C11/no-raise/{mode}/invalid-bytes/{exc_site(ex)}", case, repr(ex))


def check_target(ctx: Ctx, enc, s):
    """apply_target_encoding: DEC characters -> alternate-charset byte with a '0' run."""
    case = {"part": "target", "encoding": enc, "text": s}
    mode = util.get_encoding_mode()
    ctx.count("evaluations")
    try:
        out, cs = util.apply_target_encoding(s)
    except Exception as e:
        ctx.violation("no-raise", f"C11/no-raise/target/{enc}/{exc_site(e)}", case, repr(e))
        return
    total = sum(r for _, r in cs)
    if total != len(out):
        ctx.violation("target-encoding", f"C11/target-runs/{enc}", case, f"{s!r} -> {out!r} runs {cs} (sum {total} != {len(out)})")
        return
    flat = []
    for tag, r in cs:
        flat += [tag] * r
    exp_b = b""
    exp_cs = []
    for ch in s:
        if mode != "utf8" and ch in DECMAP:
            exp_b += DECMAP[ch].encode("ascii")
            exp_cs.append("0")
        else:
            b = ch.encode(enc, "replace")
            exp_b += b
            exp_cs += [None] * len(b)
    if out != exp_b or flat != exp_cs:
        kinds = "+".join(sorted({"dec" if c in DECMAP else ("ascii" if ord(c) < 128 else "other") for c in s}))
        ctx.violation("target-encoding", f"C11/target-encoding/{enc}/{kinds}", case, f"{s!r} -> {out!r} {cs}; expected {exp_b!r} with cs {exp_cs}")
    ctx.obs(enc, s, out, cs)
    if any(c in DECMAP for c in s):
        ctx.distinct("nontrivial", ("target", enc, s))


def string_task(task, ctx: Ctx):
    kind = task[0]
    if kind == "strings":
        _, mode, form, alphabet, first, maxlen = task
        env.reset({"utf8": "utf-8", "wide": "euc-jp", "narrow": "iso-8859-1"}[mode])
        for L in range(0, maxlen):
            for rest in itertools.product(alphabet, repeat=L):
                check_string(ctx, mode, form, (first, *rest))
        ctx.sample({"mode": mode, "form": form, "first": first[0], "maxlen": maxlen})
    elif kind == "invalid":
        _, mode, pool, first, maxlen = task
        env.reset({"utf8": "utf-8", "wide": "euc-jp", "narrow": "iso-8859-1"}[mode])
        for L in range(0, maxlen):
            for rest in itertools.product(pool, repeat=L):
                check_invalid(ctx, mode, (first, *rest))
    elif kind == "target":
        _, enc, first, maxlen = task
        env.reset(enc)
        alpha = ["a", "é", "你", "─", "┌", "◆", "́", "~", "·", "π"]
        for L in range(0, maxlen):
            for rest in itertools.product(alpha, repeat=L):
                check_target(ctx, enc, first + "".join(rest))
        if first == "a":
            for ch in DEC:
                check_target(ctx, enc, ch)
                check_target(ctx, enc, "x" + ch + ch + "y" + ch)
    env.reset("utf-8")


ENC_NAMES = ["utf-8", "utf8", "euc-jp", "euc-kr", "euc-tw", "euctw", "cn-gb", "gbk", "big5", "uhc", "iso-8859-1", "ascii", "cp437", "koi8-r", "no-such-codec", ""]
SAMPLE = ["a", "\u00e9", "\u4f60", "\u2500", "\u00e9a\u4f60"]


def enc_state():
    """everything width arithmetic and target encoding depend on, observed through the public functions"""
    from urwid import str_util as su
    from urwid import util as uu

    out = [su.get_byte_encoding(), uu.get_encoding()]
    for t in SAMPLE:
        try:
            enc, cs = uu.apply_target_encoding(t)
            out.append((bytes(enc), tuple(cs), uu.calc_width(enc, 0, len(enc))))
        except Exception as e:  # noqa: BLE001
            out.append(("EXC", type(e).__name__))
    # the same raw byte strings in every encoding: a result remembered from an earlier encoding would show here
    for b in RAW:
        n = len(b)
        for fn in (lambda: su.calc_width(b, 0, n), lambda: su.calc_text_pos(b, 0, n, 1), lambda: su.move_next_char(b, 0, n), lambda: su.move_prev_char(b, 0, n),
                   lambda: su.is_wide_char(b, 0), lambda: uu.calc_trim_text(b, 0, n, 0, 2), lambda: su.calc_string_text_pos(b.decode("latin-1"), 0, n, 1)):
            try:
                out.append(fn())
            except Exception as e:  # noqa: BLE001
                out.append(("EXC", type(e).__name__))
    return out


RAW = [b"\xe4\xbd\xa0", b"\xa4\xa2a", b"a\xc3\xa9", b"\x81@", b"\xa1\xc4"]


def norm(x):
    import json

    return json.loads(json.dumps(x, default=lambda o: o.hex() if isinstance(o, (bytes, bytearray)) else repr(o)))


def fresh_state(e2):
    """enc_state() after set_encoding(e2) in a brand-new interpreter: nothing can be left over from another encoding there"""
    import json
    import os
    import subprocess
    import sys

    root = os.path.dirname(os.path.dirname(os.path.dirname(os.path.abspath(__file__))))
    code = ("import sys, json; sys.path.insert(0, %r); from mc import env; from mc.checks import c11; import urwid.util as uu; "
            "uu.set_encoding(sys.argv[1]); print(json.dumps(c11.norm(c11.enc_state())))" % root)
    p = subprocess.run([sys.executable, "-c", code, e2], capture_output=True, text=True, timeout=120)
    if p.returncode:
        raise RuntimeError(f"fresh interpreter failed: {p.stderr[-400:]}")
    return json.loads(p.stdout.strip().splitlines()[-1])


def encoding_history_task(task, ctx: Ctx):
    """set_encoding must be a function of its argument: the state after set_encoding(e1); set_encoding(e2) equals the state
    after set_encoding(e2) alone (no part of the configuration may survive from an earlier call)"""
    _, e2s = task
    import urwid.util as uu

    for e2 in e2s:
        fresh = fresh_state(e2)
        for e1 in ENC_NAMES:
            ctx.count("evaluations")
            uu.set_encoding(e1)
            enc_state()  # use every function under e1 first
            uu.set_encoding(e2)
            got = norm(enc_state())
            ctx.obs(e1, e2, got[:2])
            if got != fresh:
                k = next(i for i, (a, b) in enumerate(zip(got, fresh)) if a != b)
                what = "target" if k == 1 else ("mode" if k == 0 else ("text" if k < 2 + len(SAMPLE) else "raw-bytes"))
                ctx.violation("encoding-history", f"C11/encoding-history/{what}", {"part": "enc-history", "e1": e1, "e2": e2},
                              f"set_encoding({e1!r}), use, set_encoding({e2!r}) gives {got[k]!r} (observation {k}); a fresh interpreter after set_encoding({e2!r}) alone gives {fresh[k]!r}")
            else:
                ctx.distinct("nontrivial", ("enc", e1, e2))
    # names are case-insensitive (locales report them in upper case): the same state whatever the letter case
    for e2 in e2s:
        if not e2 or e2 == "no-such-codec":
            continue
        uu.set_encoding(e2.lower())
        base = norm(enc_state())
        for variant in (e2.upper(), e2.title()):
            ctx.count("evaluations")
            uu.set_encoding("ascii")
            uu.set_encoding(variant)
            got = norm(enc_state())
            # (the reported target name may keep the spelling it was given)
            a, b = list(got), list(base)
            a[1] = str(a[1]).lower().replace("_", "-")
            b[1] = str(b[1]).lower().replace("_", "-")
            if a != b:
                k = next(i for i, (x, y) in enumerate(zip(a, b)) if x != y)
                ctx.violation("encoding-history", f"C11/encoding-name-case/{'mode' if k == 0 else 'other'}", {"part": "enc-case", "name": variant},
                              f"set_encoding({variant!r}) gives {got[k]!r} (observation {k}), set_encoding({e2.lower()!r}) gives {base[k]!r}")
    env.reset("utf-8")


def run(tier, R):
    R.run_tasks(encoding_history_task, [("enc", [e]) for e in ENC_NAMES])
    tasks = []
    planes = list(range(17))
    for p in planes:
        for lo in range(p << 16, (p + 1) << 16, 0x1000):
            tasks.append(("scalar", lo, lo + 0x1000))
    R.run_tasks(scalar_task, tasks)
    n1 = int(R.ctx.counts["evaluations"])
    L = 5 if tier == "quick" else 6
    t2 = []
    for first in UCHARS:
        t2.append(("strings", "utf8", "str", UCHARS, first, L))
        t2.append(("strings", "utf8", "utf8bytes", UCHARS, first, L))
        t2.append(("strings", "wide", "str", UCHARS, first, 3))
        t2.append(("strings", "narrow", "str", UCHARS, first, 3))
    for first in WTOKENS:
        t2.append(("strings", "wide", "bytes", WTOKENS, first, L))
    for first in NTOKENS:
        t2.append(("strings", "narrow", "bytes", NTOKENS, first, L))
    for first in BAD_UTF8:
        t2.append(("invalid", "utf8", BAD_UTF8, first, 3 if tier == "quick" else 4))
    for first in BAD_WIDE:
        t2.append(("invalid", "wide", BAD_WIDE, first, 3 if tier == "quick" else 4))
    for enc in ("utf-8", "iso-8859-1", "euc-jp", "ascii"):
        for first in ["a", "─", "é", "你", "◆"]:
            t2.append(("target", enc, first, 3 if tier == "quick" else 4))
    R.run_tasks(string_task, t2)
    ev = int(R.ctx.counts["evaluations"])
    cov = {
        "states": len(R.ctx.sets.get("nontrivial", ())),
        "transitions": ev,
        "traces_validated_against_impl": ev,
        "evaluations": ev,
        "distinct_nontrivial": len(R.ctx.sets.get("nontrivial", ())),
        "rule": f"part 0: every ordered pair of 16 encoding names (incl. names without a Python codec) through set_encoding: the resulting state must not depend on the earlier call; part 1: every Unicode scalar value of planes {planes} ({n1} code points), str and UTF-8 paths; part 2: every string of <= {L} "
        "characters over 8 str classes (ascii, latin-1, CJK, combining, emoji, ZWJ, DEC line, control) as str and UTF-8 bytes, over 7 wide-mode "
        "byte tokens (ascii, '@', EUC, GBK 81 40, Big5 a4 40, a1 7e, fe fe) and 5 narrow-mode bytes, x every boundary pair x every target column "
        "x every trim range; invalid/truncated byte strings (no-raise + range only); apply_target_encoding over strings of DEC/ASCII/CJK/Latin-1 "
        "characters in 4 target encodings. evaluations = (string, start, end) triples and trim ranges; non-trivial = distinct strings/code points "
        "with positive width",
        "exhaustive": True,
        "scalar_values_checked": n1,
    }
    return {
        "coverage": cov,
        "assumptions": [
            "the Unicode width table is the installed wcwidth package (negative widths clipped to 0)",
            "character boundaries and widths of the test strings are known by construction from their tokens",
            "calc_text_pos: 'closest' means no longer prefix fits with strictly more columns (trailing zero-width characters unconstrained)",
            "trim flags are unconstrained for empty column ranges",
        ],
    }


def replay(case, ctx):
    part = case.get("part")
    if part == 1:
        scalar_task(("scalar", case["cp"], case["cp"] + 1), ctx)
    elif part == 2:
        table = {"str": UCHARS, "utf8bytes": UCHARS, "bytes": WTOKENS if case["mode"] == "wide" else NTOKENS}[case["form"]]
        by = {t[0]: t for t in table}
        env.reset({"utf8": "utf-8", "wide": "euc-jp", "narrow": "iso-8859-1"}[case["mode"]])
        check_string(ctx, case["mode"], case["form"], tuple(by[n] for n in case["tokens"]))
    elif part == "invalid":
        env.reset({"utf8": "utf-8", "wide": "euc-jp", "narrow": "iso-8859-1"}[case["mode"]])
        check_invalid(ctx, case["mode"], (case["bytes"],))
    elif part == "enc-history":
        encoding_history_task(("enc", [case["e1"]]), ctx)
    elif part == "target":
        env.reset(case["encoding"])
        check_target(ctx, case["encoding"], case["text"])
    env.reset("utf-8")
