"""C18 — colour specifications round-trip and degrade to the nearest colour.

Shape E: the finite colour-description domain is enumerated completely (not sampled) and every
AttrSpec is judged against independent xterm tables and a nearest-entry reference.
"""
from __future__ import annotations

import itertools

from .. import env  # noqa: F401
from ..core import Ctx, exc_site

from urwid.display.common import AttrSpec, AttrSpecError

ID = "C18"
LEVEL = "model_checking"

# ---- independent reference tables (xterm: XTerm-col.ad, 256colres.h, 88colres.h) ----
BASIC_NAMES = [
    "black", "dark red", "dark green", "brown", "dark blue", "dark magenta", "dark cyan", "light gray",
    "dark gray", "light red", "light green", "yellow", "light blue", "light magenta", "light cyan", "white",
]  # fmt: skip
BASIC_RGB = [
    (0, 0, 0), (205, 0, 0), (0, 205, 0), (205, 205, 0), (0, 0, 238), (205, 0, 205), (0, 205, 205), (229, 229, 229),
    (127, 127, 127), (255, 0, 0), (0, 255, 0), (255, 255, 0), (92, 92, 255), (255, 0, 255), (0, 255, 255), (255, 255, 255),
]  # fmt: skip
CUBE = {256: [0, 95, 135, 175, 215, 255], 88: [0, 139, 205, 255]}
GRAY = {256: [8 + 10 * i for i in range(24)], 88: [46, 92, 115, 139, 162, 185, 208, 231]}
STYLES = ["bold", "italics", "underline", "blink", "standout", "strikethrough"]
DEPTHS = [1, 16, 88, 256, 2**24]


def palette(depth):
    d = 88 if depth == 88 else 256
    c = CUBE[d]
    return BASIC_RGB + [(r, g, b) for r in c for g in c for b in c] + [(v, v, v) for v in GRAY[d]]


PAL = {88: palette(88), 256: palette(256)}


def nearest(values, lo, hi, slack=0.5):
    """indices of entries of values at minimal distance from some point of [lo, hi] (+ rounding slack)"""
    def dist(v):
        return 0 if lo <= v <= hi else min(abs(v - lo), abs(v - hi))

    best = min(dist(v) for v in values)
    # every candidate that is nearest to *some* point of the interval
    out = set()
    pts = {lo, hi, (lo + hi) / 2}
    for p in list(pts) + [v for v in values if lo <= v <= hi]:
        m = min(abs(v - p) for v in values)
        out |= {i for i, v in enumerate(values) if abs(v - p) <= m + slack}
    out |= {i for i, v in enumerate(values) if dist(v) <= best}
    return out


def expect_color(desc, depth):
    """Reference parse of a *canonical-form* colour description.
    -> None (invalid at this depth) | ('default',) | ('basic', {n}) | ('high', {numbers}) | ('true', {rgb ints})"""
    if desc in ("", "default"):
        return ("default",)
    if desc in BASIC_NAMES:
        return ("basic", {BASIC_NAMES.index(desc)}) if depth >= 16 else None
    if depth < 88:
        return None
    d = 88 if depth == 88 else 256
    size = len(CUBE[d])
    ncol = len(PAL[d])
    nums = None
    if desc.startswith("h") and desc[1:].isdigit() and str(int(desc[1:])) == desc[1:]:
        n = int(desc[1:])
        nums = {n} if n < ncol else None
        if depth == 2**24:
            nums = {n} if n < 256 else None
    elif desc.startswith("#") and len(desc) == 4 and all(c in "0123456789abcdefABCDEF" for c in desc[1:]):
        comps = [int(c, 16) * 17 for c in desc[1:]]
        idx = [nearest(CUBE[d], v, v) for v in comps]
        nums = {16 + (r * size + g) * size + b for r in idx[0] for g in idx[1] for b in idx[2]}
    elif desc.startswith("#") and len(desc) == 7 and all(c in "0123456789abcdefABCDEF" for c in desc[1:]):
        if depth == 2**24:
            return ("true", {int(desc[1:], 16)})
        # 256/88: one hex digit per component is kept, then the nearest cube step is taken
        comps = [int(desc[i : i + 2], 16) for i in (1, 3, 5)]
        idx = []
        for v in comps:
            digit = v // 16
            acc = nearest(CUBE[d], digit * 16, digit * 16 + 15) | nearest(CUBE[d], digit * 17, digit * 17)
            if v in CUBE[d]:
                acc = {CUBE[d].index(v)}  # exact palette values are preserved
            idx.append(acc)
        nums = {16 + (r * size + g) * size + b for r in idx[0] for g in idx[1] for b in idx[2]}
    elif desc.startswith("g#") and len(desc) == 4 and all(c in "0123456789abcdefABCDEF" for c in desc[2:]):
        v = int(desc[2:], 16)
        nums = gray_nums(d, v, v, exact=v)
    elif desc.startswith("g") and desc[1:].isdigit() and str(int(desc[1:])) == desc[1:] and int(desc[1:]) <= 100:
        n = int(desc[1:])
        v = n * 255 / 100
        nums = gray_nums(d, v, v, exact=None)
    else:
        return None
    if nums is None:
        return None
    if depth == 2**24:
        return ("true", {(PAL[256][n][0] << 16) + (PAL[256][n][1] << 8) + PAL[256][n][2] for n in nums})
    return ("high", nums)


def gray_nums(d, lo, hi, exact):
    size = len(CUBE[d])
    vals = [0, *GRAY[d], 255]
    white = 16 + size**3 - 1
    gstart = 16 + size**3
    idx = nearest(vals, lo, hi, slack=0.0 if exact is not None else 1.0)
    if exact is not None and exact in vals:
        idx = {vals.index(exact)}
    out = set()
    for i in idx:
        if i == 0:
            out.add(16)
        elif i == len(vals) - 1:
            out.add(white)
        else:
            out.add(gstart + i - 1)
    return out


def rgb_of(kind, num, depth):
    if kind == "default":
        return (None, None, None)
    if kind == "true":
        return ((num >> 16) & 255, (num >> 8) & 255, num & 255)
    return PAL[88 if depth == 88 else 256][num]


# ---- domains ------------------------------------------------------------
def all_colors():
    out = ["default", ""] + BASIC_NAMES
    out += [f"h{i}" for i in range(256)]
    out += [f"#{i:03x}" for i in range(4096)]
    out += [f"g{i}" for i in range(101)]
    out += [f"g#{i:02x}" for i in range(256)]
    return out


COVER_FG = ["default", "", "black", "light gray", "white", "h0", "h15", "h16", "h87", "h255", "#000", "#5af", "#fff", "g0", "g50", "g100", "g#80", "#5f87af", "#123456"]
COVER_BG = ["default", "", "black", "light gray", "dark gray", "h0", "h42", "h200", "#06f", "g35", "g#ff", "#d7005f"]


def style_orders(tier):
    out = [()]
    for k in (1, 2, 3):
        out += list(itertools.permutations(STYLES, k))
    for k in (4, 5, 6):
        out += list(itertools.combinations(STYLES, k))
    if tier == "thorough":
        out += list(itertools.permutations(STYLES, 4))
    return out


def kind_of(desc):
    if desc in ("", "default"):
        return "default"
    if desc in BASIC_NAMES:
        return "basic"
    if desc.startswith("h"):
        return "hN"
    if desc.startswith("g#"):
        return "g#XX"
    if desc.startswith("g"):
        return "gN"
    if desc.startswith("#") and len(desc) == 4:
        return "#rgb"
    if desc.startswith("#") and len(desc) == 7:
        return "#rrggbb"
    return "other"


def check_valid(ctx: Ctx, fgcol, styles, pos, bg, depth):
    """One construction of a spec the reference considers well-formed (validity at this depth is judged too)."""
    parts = list(styles)
    if fgcol != "" or not parts:
        parts.insert(min(pos, len(parts)), fgcol)
    fg = ",".join(parts)
    case = {"fg": fg, "bg": bg, "depth": depth}
    efg = expect_color(fgcol, depth)
    ebg = expect_color(bg, depth)
    if depth == 1 and ebg is not None and ebg[0] != "default":
        ebg = None
    dname = f"depth{depth if depth < 2**24 else 'true'}"
    feat = dname
    ctx.count("evaluations")

    def V(clause, detail, extra=""):
        ctx.violation(clause, f"C18/{clause}/{feat}{extra}", case, detail)

    try:
        a = AttrSpec(fg, bg, depth)
    except AttrSpecError as e:
        if efg is not None and ebg is not None:
            V("valid-accepted", f"valid specification rejected: {e}", f"/fg={kind_of(fgcol)}/bg={kind_of(bg)}")
        ctx.obs(fg, bg, depth, "AttrSpecError")
        return
    except Exception as e:
        V("own-error", f"construction raised {e!r}", f"/{kind_of(fgcol)}|{kind_of(bg)}/" + exc_site(e))
        return
    if efg is None or ebg is None:
        V("invalid-rejected", f"specification beyond depth {depth} or invalid was accepted: {a!r}", f"/fg={kind_of(fgcol)}/bg={kind_of(bg)}")
        return
    try:
        f2, b2, col = a.foreground, a.background, a.colors
        rgb = a.get_rgb_values()
        rep = repr(a)
        hsh = hash(a)
    except Exception as e:
        V("describe-raises", f"describing {case} raised {e!r}", "/" + exc_site(e))
        return
    ctx.obs(fg, bg, depth, f2, b2, col, rgb)
    ctx.distinct("outcomes", (f2, b2, col))
    # parse result
    for side, exp, basic, high, true, num in (
        ("fg", efg, a.foreground_basic, a.foreground_high, a.foreground_true, a.foreground_number),
        ("bg", ebg, a.background_basic, a.background_high, a.background_true, a.background_number),
    ):
        kind = "basic" if basic else "high" if high else "true" if true else "default"
        if kind != exp[0] or (kind != "default" and num not in exp[1]):
            clause = "nearest" if kind == exp[0] else "parse"
            V(clause, f"{side} {fg if side == 'fg' else bg!r} -> {kind} {num}, reference {exp}", f"/{side}={kind_of(fgcol if side == 'fg' else bg)}")
        else:
            want_rgb = rgb_of(kind, num, depth)
            got = rgb[:3] if side == "fg" else rgb[3:]
            if tuple(got) != tuple(want_rgb):
                V("rgb-tables", f"{side} {kind} {num}: get_rgb_values {got}, xterm table {want_rgb}", f"/{side}={kind}/other-side={(ebg if side == 'fg' else efg)[0]}")
    # styles
    for s in STYLES:
        if getattr(a, s) != (s in styles):
            V("styles", f"flag {s} is {getattr(a, s)} for {fg!r}")
    # round trip
    try:
        b = AttrSpec(f2, b2, depth)
    except Exception as e:
        V("roundtrip", f"AttrSpec({f2!r}, {b2!r}, {depth}) raised {e!r}")
        return
    if not (b == a) or b != a:
        V("roundtrip", f"AttrSpec({f2!r}, {b2!r}, {depth}) = {b!r} != {a!r}")
    elif hash(b) != hsh:
        V("roundtrip", "equal specifications have different hashes")
    if (b.foreground, b.background) != (f2, b2):
        V("idempotent", f"descriptions change on re-parse: {(f2, b2)} -> {(b.foreground, b.background)}")
    # min depth
    kinds = {efg[0], ebg[0]}
    if kinds <= {"default"}:
        want = 1
    elif kinds <= {"default", "basic"}:
        want = 16
    else:
        want = depth
    if col != want:
        V("min-depth", f"colors reports {col}, smallest depth expressing {fg!r}/{bg!r} (declared {depth}) is {want}", f"/needs{want}/reports{col}")
    if col > want:
        pass
    if kinds - {"default"}:
        ctx.distinct("nontrivial", (f2, b2, depth))


MALFORMED_ALPHA = ["#", "g", "h", "0", "f", "x", ",", " ", "-", "+", "_", "1"]  # int() accepts signs, blanks and underscores
LONG_ALPHA = {"quick": ["0", "f", "-", "x", "\u0663"], "thorough": ["0", "f", "-", "+", "_", " ", "x", "\u0663"]}  # '#' + six of these
MUST_REJECT = [
    "g#12345", "h123456", "g123456", "#gggggg", "#ggg", "h256", "h-1", "g101", "g#100", "g#gg", "bold,bold", "underline,bold,underline", "dark red,dark blue",
    "h1,h2", "#fff,black", "nonsense", "dark  red", "darkred", "h", "g", "#", "g#", "#12345", "#1234567", "gx", "hx", "#12", "h1000",
]  # fmt: skip


def check_malformed(ctx: Ctx, s, as_bg, depth, must_reject):
    fg, bg = ("default", s) if as_bg else (s, "default")
    case = {"fg": fg, "bg": bg, "depth": depth, "malformed": True}
    feat = f"depth{depth if depth < 2**24 else 'true'}/{'bg' if as_bg else 'fg'}"
    ctx.count("evaluations")
    try:
        a = AttrSpec(fg, bg, depth)
    except AttrSpecError:
        ctx.obs(s, as_bg, depth, "rejected")
        return
    except Exception as e:
        ctx.violation("own-error", f"C18/own-error/{feat}/{exc_site(e)}", case, f"AttrSpec({fg!r}, {bg!r}, {depth}) raised {e!r} instead of AttrSpecError")
        return
    if must_reject:
        ctx.violation("invalid-rejected", f"C18/invalid-rejected/{feat}/must-reject", case, f"{s!r} accepted as {a!r}")
        return
    try:
        f2, b2 = a.foreground, a.background
        a.colors, a.get_rgb_values(), repr(a)
        b = AttrSpec(f2, b2, depth)
    except Exception as e:
        ctx.violation("describe-raises", f"C18/describe-raises/{feat}/{exc_site(e)}", case, f"accepted {s!r} but describing raised {e!r}")
        return
    ctx.obs(s, as_bg, depth, f2, b2)
    if b != a or hash(b) != hash(a):
        ctx.violation("roundtrip", f"C18/roundtrip/{feat}/accepted-odd-form", case, f"{a!r} rebuilt as {b!r}")


# ---- task plumbing -------------------------------------------------------
def task_fn(task, ctx: Ctx):
    kind = task[0]
    if kind == "fgall":
        _, depth, cols = task
        for c in cols:
            for bg in COVER_BG:
                check_valid(ctx, c, (), 0, bg, depth)
    elif kind == "bgall":
        _, depth, cols = task
        for c in cols:
            for fg in ("default", "white", "h100", "#0af"):
                check_valid(ctx, fg, ("bold",) if fg == "white" else (), 0, c, depth)
    elif kind == "styles":
        _, depth, fgcol, orders = task
        for st in orders:
            for pos in range(len(st) + 1):
                for bg in ("default", "dark blue", "#06f"):
                    check_valid(ctx, fgcol, st, pos, bg, depth)
    elif kind == "lattice":
        _, depth, rs, n = task
        step = 255 / (n - 1)
        vals = sorted({round(i * step) for i in range(n)} | {0x5F, 0x87, 0xAF, 0xD7, 0x8B, 0xCD})
        for r in rs:
            for g in vals:
                for b in vals:
                    d = f"#{r:02x}{g:02x}{b:02x}"
                    check_valid(ctx, d, (), 0, "default", depth)
                    check_valid(ctx, "default", (), 0, d, depth)
    elif kind == "crossdepth":
        _, fgs = task
        for fg in fgs:
            for bg in ("default", "black", "light gray", "h42", "#06f", "#d7005f"):
                specs = []
                for depth in DEPTHS:
                    for f2 in (fg, fg + ",bold" if fg else "bold"):
                        try:
                            specs.append((depth, f2, AttrSpec(f2, bg, depth)))
                        except AttrSpecError:
                            pass
                for (d1, fa, a), (d2, fb, b) in itertools.combinations(specs, 2):
                    ctx.count("evaluations")
                    eq = a == b
                    case = {"pair": [[fa, bg, d1], [fb, bg, d2]]}
                    if eq != (b == a) or eq == (a != b):
                        ctx.violation("eq-consistent", "C18/eq-consistent/cross-depth", case, f"{a!r}=={b!r} is {eq}, reverse {b == a}, != {a != b}")
                    if eq and hash(a) != hash(b):
                        ctx.violation("roundtrip", "C18/equal-hash/cross-depth", case, f"{a!r} (depth {d1}) == {b!r} (depth {d2}) but their hashes differ")
                    if eq and (a.foreground, a.background) != (b.foreground, b.background):
                        ctx.violation("roundtrip", "C18/equal-describe/cross-depth", case, f"equal specs describe differently: {a!r} vs {b!r}")
                    ctx.obs(fa, fb, bg, d1, d2, eq)
    elif kind == "uppercase":
        # hexadecimal digits may be written in upper case: the same specification as in lower case, at every depth that can express it
        _, depth = task
        for lo in ("#fa0", "#0cf", "g#a0", "g#ff", "#ff8700", "#0a1b2c", "#abcdef"):
            up = lo[0] + lo[1:].upper() if not lo.startswith("g#") else "g#" + lo[2:].upper()
            for as_bg in (False, True):
                ctx.count("evaluations")
                case = {"fg": up, "depth": depth, "uppercase": True, "as_bg": as_bg}
                res = []
                for spec_s in (lo, up):
                    try:
                        res.append(AttrSpec("default", spec_s, depth) if as_bg else AttrSpec(spec_s, "default", depth))
                    except AttrSpecError:
                        res.append("rejected")
                    except Exception as e:  # noqa: BLE001
                        res.append(f"EXC:{exc_site(e)}")
                if res[0] != res[1] and not (isinstance(res[0], str) and isinstance(res[1], str) and res[0] == res[1]):
                    ctx.violation("roundtrip", f"C18/uppercase-hex/depth{depth if depth < 2**24 else 'true'}", case, f"{lo!r} gives {res[0]!r} but {up!r} gives {res[1]!r}")
    elif kind == "subclass":
        # applications subclass AttrSpec: equal specifications have equal hashes whatever their class, and copy_modified() keeps the class
        class Sub(AttrSpec):
            pass

        _, fgs = task
        for fa in fgs:
            for bg in ("default", "dark blue", "h17", "#123456"):
                for depth in DEPTHS:
                    ctx.count("evaluations")
                    try:
                        a, b = AttrSpec(fa, bg, depth), Sub(fa, bg, depth)
                    except AttrSpecError:
                        continue
                    case = {"subclass": True, "fg": fa, "bg": bg, "depth": depth}
                    c = b.copy_modified()
                    pairs = [("AttrSpec vs subclass", a, b), ("subclass vs its copy_modified()", b, c), ("AttrSpec vs copy_modified()", a, a.copy_modified())]
                    # (repr() is documented as executable but is not part of the statement: a specification declared at 2**24 colours prints without
                    # its depth; only equal-implies-same-hash is judged on the rebuilt object)
                    try:
                        pairs.append(("AttrSpec vs eval(repr())", a, eval(repr(a), {"AttrSpec": AttrSpec})))  # noqa: S307
                    except Exception:  # noqa: BLE001
                        pass
                    if type(c) is not Sub:
                        ctx.violation("roundtrip", "C18/roundtrip/copy_modified-class", case, f"copy_modified() of a subclass instance returned a {type(c).__name__}")
                    for label, x, y in pairs:
                        if x == y and hash(x) != hash(y):
                            ctx.violation("roundtrip", f"C18/equal-hash/{label.split(' vs ')[1].split('(')[0].strip().replace(' ', '-')}", case, f"{label}: equal but hashes differ ({x!r})")
                        if (x == y) != (y == x):
                            ctx.violation("eq-consistent", "C18/eq-consistent/subclass", case, f"{label}: x == y is {x == y}, y == x is {y == x}")
                    ctx.obs(fa, bg, depth, a == b)
    elif kind == "malformed":
        _, depth, strings = task
        for s in strings:
            # '#' + six characters is a colour only if all six are hexadecimal digits
            t = s.strip()  # (settings are separated by commas and stripped of blanks before they are parsed)
            bad_long = "," not in s and len(t) == 7 and t[0] == "#" and any(ch not in "0123456789abcdefABCDEF" for ch in t[1:])
            for as_bg in (False, True):
                check_malformed(ctx, s, as_bg, depth, bad_long)
    elif kind == "mustreject":
        _, depth = task
        for s in MUST_REJECT:
            for as_bg in (False, True):
                if as_bg and "," in s and all(p.strip() in STYLES for p in s.split(",")):
                    continue
                check_malformed(ctx, s, as_bg, depth, True)
        # several colours in one foreground: every ordered pair of a covering set (with and without a setting between)
        pool = [c for c in COVER_FG if c] + ["dark red", "yellow"]
        for c1, c2 in itertools.product(pool, pool):
            check_malformed(ctx, f"{c1},{c2}", False, depth, True)
            check_malformed(ctx, f"{c1},bold,{c2}", False, depth, True)
        # dup settings in any order, two colours
        for s1, s2 in itertools.product(STYLES, STYLES):
            if s1 == s2:
                check_malformed(ctx, f"{s1},white,{s2}", False, depth, True)
        try:
            AttrSpec("default", "default", 17)
        except AttrSpecError:
            pass
        except Exception as e:
            ctx.violation("own-error", "C18/own-error/bad-depth", {"depth": 17}, repr(e))
        else:
            ctx.violation("invalid-rejected", "C18/invalid-rejected/bad-depth", {"depth": 17}, "depth 17 accepted")
    ctx.sample(task[:2]) if len(ctx.samples) < 1 else None
    return None


def chunks(lst, n):
    return [lst[i : i + n] for i in range(0, len(lst), n)]


def run(tier, R):
    tasks = []
    cols = all_colors()
    for depth in DEPTHS:
        for part in chunks(cols, 600):
            tasks.append(("fgall", depth, part))
            tasks.append(("bgall", depth, part))
        orders = style_orders(tier)
        for fgcol in COVER_FG:
            for part in chunks(orders, 120):
                tasks.append(("styles", depth, fgcol, part))
        n = 9 if tier == "quick" else 33
        step = 255 / (n - 1)
        rvals = sorted({round(i * step) for i in range(n)} | {0x5F, 0x87, 0xAF, 0xD7, 0x8B, 0xCD})
        for part in chunks(rvals, 3):
            tasks.append(("lattice", depth, part, n))
        maxlen = 3 if tier == "quick" else 4
        strings = ["".join(t) for k in range(1, maxlen + 1) for t in itertools.product(MALFORMED_ALPHA, repeat=k)]
        if depth >= 88:
            strings += ["#" + "".join(t) for t in itertools.product(LONG_ALPHA[tier], repeat=6)]
        for part in chunks(strings, 400 if tier == "quick" else 4000):
            tasks.append(("malformed", depth, part))
        tasks.append(("mustreject", depth))
        tasks.append(("uppercase", depth))
    for part in chunks(COVER_FG + BASIC_NAMES, 5):
        tasks.append(("crossdepth", part))
        tasks.append(("subclass", part))
    R.run_tasks(task_fn, tasks)
    ev = int(R.ctx.counts["evaluations"])
    cov = {
        "states": len(R.ctx.sets.get("outcomes", ())),
        "transitions": ev,
        "traces_validated_against_impl": ev,
        "evaluations": ev,
        "distinct_nontrivial": len(R.ctx.sets.get("nontrivial", ())),
        "rule": "complete enumeration: every colour description (default, '', 16 names, h0..h255, #000..#fff, g0..g100, g#00..g#ff) as fg x 12 covering "
        "bgs and as bg x 4 fgs, 19 covering fgs x every subset of the six styles (all orders up to 3 settings"
        + (" and 4" if tier == "thorough" else "")
        + f") x colour position x 3 bgs, #rrggbb lattice {9 if tier == 'quick' else 33}^3 + palette steps, all strings of length <= "
        f"{3 if tier == 'quick' else 4} over {MALFORMED_ALPHA} as fg and bg, '#' + every 6 characters over {LONG_ALPHA[tier]} at depths >= 88, must-reject list; all at depths 1,16,88,256,2^24. states = distinct "
        "(foreground, background, colors) descriptions observed; non-trivial = distinct accepted specs with a non-default colour",
        "exhaustive": True,
    }
    return {
        "coverage": cov,
        "assumptions": [
            "reference tables are xterm's: XTerm-col.ad basic colours, 256colres.h (cube 00 5f 87 af d7 ff, gray 8+10i), 88colres.h",
            "'#rgb' digit d means component d*17; '#rrggbb' at 256/88 colours is accepted when the chosen cube step is nearest to any "
            "value sharing the component's high hex digit (the documented one-digit reduction), exact palette values must be preserved",
            "nearest: ties and half-unit rounding slack accept either neighbour",
        ],
    }


def replay(case, ctx):
    if case.get("malformed"):
        s, as_bg = (case["bg"], True) if case["fg"] == "default" else (case["fg"], False)
        check_malformed(ctx, s, as_bg, case["depth"], False)
        if not ctx.viol:
            check_malformed(ctx, s, as_bg, case["depth"], True)
        return
    if "pair" in case:
        task_fn(("crossdepth", [case["pair"][0][0].replace(",bold", "")]), ctx)
        return
    if "fg" not in case:
        return
    parts = [p for p in case["fg"].split(",")]
    styles = tuple(p for p in parts if p in STYLES)
    colparts = [p for p in parts if p not in STYLES]
    fgcol = colparts[0] if colparts else ""
    pos = parts.index(fgcol) if fgcol in parts else 0
    check_valid(ctx, fgcol, styles, pos, case["bg"], case["depth"])
