"""C20 — Scrollable shows the right slice and ScrollBar reflects the position.

Shape H: explicit-state BFS over histories of scrolling keys, wheel events, set_scrollpos (positive
and negative), resizes and content changes on Scrollable / ScrollBar(Scrollable) / ScrollBar(ListBox)
fixtures whose every content row is unique, so the slice shown identifies the position.  Every
state is rendered (as the main loop does after each input) and compared with the wrapped widget's
own full rendering; plus an exhaustive set_scrollpos sweep per (fixture, size) for thumb monotonicity.
"""
from __future__ import annotations

from .. import env
from ..core import Ctx, exc_site
from ..refs import widths as W

import urwid

ID = "C20"
LEVEL = "model_checking"

THUMB = "█"
TROUGH = "░"
SIZES = [(5, 1), (5, 2), (5, 4), (3, 3), (1, 2), (8, 3), (2, 2)]
KEYS = ["up", "down", "page up", "page down", "home", "end", "x"]
POSITIONS = [-100, -2, -1, 0, 1, 2, 100]

CONTENTS = ["t1", "t3", "t7", "twrap", "pile", "icons", "fixed", "helpfield"]
BARS = [None, ("right", 1), ("left", 1), ("right", 2)]


class HelpField(urwid.Widget):
    """a flow-only form field that shows a help line below itself while it is in focus: its height depends on the focus flag"""

    _sizing = frozenset([urwid.FLOW])
    _selectable = True

    def __init__(self, plain, focused=None):
        super().__init__()
        self.plain, self.focused = plain, focused or plain

    def rows(self, size, focus=False):
        return (self.focused if focus else self.plain).count("\n") + 1

    def render(self, size, focus=False):
        return urwid.Text(self.focused if focus else self.plain).render(size)

    def keypress(self, size, key):
        return key


def mk_inner(kind, variant=0):
    T = urwid.Text
    if kind == "helpfield":
        return urwid.Pile([HelpField("p0\np1"), HelpField("h2", "h2\nh3"), HelpField("p4\np5" if not variant else "p4")], focus_item=1)
    if kind == "t1":
        return T("a0" if not variant else "a0\nb1\nb2\nb3")
    if kind == "t3":
        return T("a0\na1\na2" if not variant else "a0")
    if kind == "t7":
        return T("\n".join(f"a{i}" for i in range(7 if not variant else 3)))
    if kind == "twrap":
        return T("a0 b1 c2 d3 e4 f5 g6" if not variant else "a0 b1")
    if kind == "pile":
        items = [T("p0\np1"), urwid.Edit("", "e0\ne1", multiline=True), T("p4\np5\np6")]
        if variant:
            items.append(T("q7\nq8"))
        return urwid.Pile(items)
    if kind == "icons":
        return urwid.Pile([urwid.SelectableIcon(f"i{i}", 0) for i in range(5 if not variant else 2)])
    if kind == "fixed":
        return urwid.BigText("12" if not variant else "1", urwid.Thin3x3Font())
    raise AssertionError(kind)


class KeyRec:
    """records what the wrapped widget answered to keypress / mouse_event (instance-level wrappers)"""

    def __init__(self, w):
        self.log = []
        if hasattr(w, "keypress"):
            orig_k = w.keypress

            def keypress(size, key, _o=orig_k):
                r = _o(size, key)
                self.log.append(("key", key, r))
                return r

            w.keypress = keypress
        if hasattr(w, "mouse_event"):
            orig_m = w.mouse_event

            def mouse_event(size, event, button, col, row, focus, _o=orig_m):
                r = _o(size, event, button, col, row, focus)
                self.log.append(("mouse", button, r))
                return r

            w.mouse_event = mouse_event


class St:
    def __init__(self, cfg):
        kind, bar, s0 = cfg
        self.cfg = cfg
        self.kind = kind
        self.variant = 0
        self.size_i = s0
        self.inner = mk_inner(kind)
        self.rec = KeyRec(self.inner)
        self.sc = urwid.Scrollable(self.inner)
        self.bar = bar
        if bar:
            self.top = urwid.ScrollBar(self.sc, thumb_char=THUMB, trough_char=TROUGH, side=bar[0], width=bar[1])
        else:
            self.top = self.sc

    @property
    def size(self):
        return SIZES[self.size_i]


def text_rows(canv):
    out = []
    for row in canv.content():
        cells = []
        for a, cs, seg in row:
            for c in bytes(seg).decode("utf-8", "replace"):
                cells.extend([c] * max(W.cwidth(c), 0 if W.cwidth(c) == 0 else 1))
        out.append(cells)
    return out


def full_rows(st: St, cw, focus=True):
    """the wrapped widget's own full rendering at the width it is given, one list of cells per row, padded/trimmed to cw"""
    urwid.CanvasCache.clear()
    inner = st.inner
    if urwid.FLOW in inner.sizing():
        canv = inner.render((cw,), focus)
    else:
        canv = inner.render((), focus)
    rows = text_rows(canv)
    cur = canv.cursor
    urwid.CanvasCache.clear()
    return [(r + [" "] * cw)[:cw] for r in rows], cur


def total_rows(st: St, cols):
    inner = st.inner
    if urwid.FLOW in inner.sizing():
        return inner.rows((cols,), True)
    return inner.pack((), True)[1]


def observe(st: St):
    """render the top widget; returns dict(view rows, has_bar, bar columns, cw) or raises"""
    urwid.CanvasCache.clear()
    cols, h = st.size
    canv = st.top.render(st.size, True)
    rows = text_rows(canv)
    if canv.cols() != cols or canv.rows() != h or any(len(r) != cols for r in rows):
        return {"bad-size": (canv.cols(), canv.rows(), [len(r) for r in rows])}
    has_bar = False
    barcols = None
    bw = 0
    if st.bar:
        side, bw0 = st.bar
        bw0 = min(bw0, cols)
        cand = [r[cols - bw0 :] if side == "right" else r[:bw0] for r in rows]
        if all(all(ch in (THUMB, TROUGH) for ch in c) for c in cand) and any(THUMB in c for c in cand):
            has_bar = True
            bw = bw0
            barcols = cand
    if has_bar:
        view = [r[: cols - bw] if st.bar[0] == "right" else r[bw:] for r in rows]
    else:
        view = rows
    return {"view": view, "has_bar": has_bar, "bar": barcols, "cw": cols - bw, "bw": bw, "cursor": canv.cursor}


def judge(st: St, ctx: Ctx, V, obs, before=None, op=None):
    cols, h = st.size
    if "bad-size" in obs:
        V("slice", f"top widget rendered {obs['bad-size']} for size {st.size}")
        return None
    cw = obs["cw"]
    view = obs["view"]
    if cw < 1:
        return None
    full, fcur = full_rows(st, cw)
    total = len(full)
    pmax = max(0, total - h)
    # which p shows this view?  (rows are unique, so at most one p in range matches)
    match = [p for p in range(0, pmax + 1) if [(full[p + i] if p + i < total else [" "] * cw) for i in range(h)] == view]
    rep = st.sc.get_scrollpos()
    if not match:
        anyp = [p for p in range(-h, total + 1) if [(full[p + i] if 0 <= p + i < total else [" "] * cw) for i in range(h)] == view]
        V("slice", f"size {st.size}: view {[''.join(r) for r in view]} is not rows p..p+{h} of the content {[''.join(r) for r in full]} for any 0 <= p <= {pmax}"
          + (f" (it is the out-of-range window p={anyp[0]})" if anyp else ""))
        return None
    p = rep if rep in match else match[0]
    if rep not in match:
        V("reports-p", f"size {st.size}: rows {p}..{p + h} of {total} are shown but get_scrollpos() is {rep}", "fits" if total <= h else "overflow")
    if st.bar:
        over_full = total_rows(st, cols) > h
        over_red = total_rows(st, max(cols - min(st.bar[1], cols), 1)) > h
        if cols - st.bar[1] >= 1 and obs["has_bar"] != over_full and obs["has_bar"] != over_red:  # a bar needs room for >= 1 content column
            V("bar-iff-overflow", f"size {st.size}: bar drawn={obs['has_bar']} but content rows {total_rows(st, cols)} (full width) / "
              f"{total_rows(st, max(cols - st.bar[1], 1))} (reduced) vs view {h}")
        if obs["has_bar"]:
            col = ["".join(c) for c in obs["bar"]]
            kinds = [c[0] for c in col]
            if any(len(set(c)) != 1 for c in col):
                V("bar-geometry", f"bar row mixes thumb and trough: {col}")
            top_n = 0
            while top_n < h and kinds[top_n] != THUMB:
                top_n += 1
            th = 0
            while top_n + th < h and kinds[top_n + th] == THUMB:
                th += 1
            if THUMB in kinds[top_n + th :]:
                V("bar-geometry", f"thumb is not one contiguous run: {kinds}")
            if th < 1:
                V("bar-geometry", f"no thumb: {kinds}")
            if th < h and (top_n == 0) != (p == 0):
                V("thumb-top-iff-p0", f"size {st.size}: position {p} of {pmax} but the thumb starts at bar row {top_n}: {''.join(kinds)}")
            return p, top_n
    return p, None


class Spec:
    def __init__(self, tier):
        self.tier = tier

    def configs(self, tier):
        out = []
        for kind in CONTENTS:
            for bar in BARS:
                for s0 in range(len(SIZES)):
                    if tier == "quick" and ((s0 in (5, 6) and bar not in (None, ("right", 1))) or (bar == ("left", 1) and s0 >= 2)):
                        continue
                    out.append((kind, bar, s0))
        return out

    def build(self, cfg):
        env.reset("utf-8")
        st = St(cfg)
        try:
            observe(st)
        except Exception:
            pass
        return st

    def key(self, cfg, st: St):
        sc = st.sc
        inner = st.inner
        extra = ()
        if isinstance(inner, urwid.Pile):
            extra = (inner.focus_position if inner.contents else None, tuple(getattr(w, "edit_pos", None) for w, _ in inner.contents),
                     tuple(getattr(w, "edit_text", None) for w, _ in inner.contents))
        return (sc._trim_top, sc._scroll_action, sc._forward_keypress, sc._old_cursor_coords, st.size_i, st.variant, extra,
                getattr(st.top, "_original_widget_size", None), st.bar, getattr(st.top, "_scrollbar_width", None))

    def ops(self, cfg, st):
        out = [("key", k) for k in KEYS]
        out += [("wheel", 4), ("wheel", 5)]
        out += [("pos", p) for p in POSITIONS]
        out += [("resize", i) for i in range(len(SIZES)) if i != st.size_i]
        out.append(("content",))
        if st.bar:
            # options reassigned on the live ScrollBar; the wrapped widget replaced
            out += [("barwidth", v) for v in (0, -1, 1, 2) if max(1, v) != st.bar[1] or v < 1]
            out.append(("barside",))
            out.append(("rewrap",))
        # two inputs without a render in between (several keys read in one batch, or application code followed by a key)
        firsts = [("pos", -100), ("pos", 100), ("pos", 2), ("content",)] + [("resize", i) for i in range(len(SIZES)) if i != st.size_i]
        firsts += [("key", k) for k in ("up", "down", "page down", "end")]
        seconds = [("key", k) for k in ("up", "down", "page up", "page down")] + [("wheel", 4), ("wheel", 5)]
        for a in firsts:
            for b in seconds:
                out.append(("seq", a, b))
        return out

    def check_state(self, cfg, st: St, ctx: Ctx, hist):
        case = {"cfg": cfg, "hist": hist}
        kind, bar, s0 = cfg

        def V(clause, detail, feat="", site=""):
            ctx.violation(clause, f"C20/{clause}/{'bar' if bar else 'plain'}/{kind}{('/' + feat) if feat else ''}{('/' + site) if site else ''}", case, detail)

        try:
            obs = observe(st)
        except Exception as e:
            rows1 = "rows=1" if st.size[1] == 1 else ("cols<=bar" if bar and st.size[0] <= bar[1] else "")
            V("render-raises", f"render({st.size}, True) raised {type(e).__name__}: {e}", rows1, exc_site(e))
            return
        r = judge(st, ctx, V, obs)
        ctx.obs("state", obs.get("view"), obs.get("has_bar"), st.sc.get_scrollpos())
        if r is not None:
            ctx.distinct("nontrivial", (cfg[0], cfg[1], st.size_i, st.variant, r[0]))

    def apply(self, cfg, st: St, op, ctx: Ctx, hist):
        case = {"cfg": cfg, "hist": hist + (op,)}
        kind, bar, s0 = cfg
        ctx.count("evaluations")

        def V(clause, detail, feat="", site=""):
            ctx.violation(clause, f"C20/{clause}/{'bar' if bar else 'plain'}/{kind}{('/' + feat) if feat else ''}{('/' + site) if site else ''}", case, detail)

        sc = st.sc
        p_before = sc.get_scrollpos()
        del st.rec.log[:]

        def do(op):
            if op[0] == "key":
                st.top.keypress(st.size, op[1])
            elif op[0] == "wheel":
                st.top.mouse_event(st.size, "mouse press", op[1], 0, 0, True)
            elif op[0] == "pos":
                sc.set_scrollpos(op[1])
            elif op[0] == "resize":
                st.size_i = op[1]
            elif op[0] == "barwidth":
                st.top.scrollbar_width = op[1]
                st.bar = (st.bar[0], max(1, op[1]))
            elif op[0] == "barside":
                side = "left" if st.bar[0] == "right" else "right"
                st.top.scrollbar_side = side
                st.bar = (side, st.bar[1])
            elif op[0] == "rewrap":
                st.variant = 1 - st.variant
                st.inner = mk_inner(st.kind, st.variant)
                st.rec = KeyRec(st.inner)
                st.sc = urwid.Scrollable(st.inner)
                st.top.original_widget = st.sc
            elif op[0] == "content":
                st.variant = 1 - st.variant
                new = mk_inner(st.kind, st.variant)
                inner = st.inner
                if isinstance(inner, urwid.BigText):
                    inner.set_text("1" if st.variant else "12")
                elif isinstance(inner, urwid.Text):
                    inner.set_text(new.text)
                else:
                    inner.contents[:] = list(new.contents)

        try:
            if op[0] == "seq":
                do(op[1])
                do(op[2])
            else:
                do(op)
        except Exception as e:
            V("event-raises", f"{op!r} raised {type(e).__name__}: {e}", site=exc_site(e))
            return False
        ctx.obs(op)
        # the main loop renders after every input
        try:
            obs = observe(st)
        except Exception as e:
            # (a second render may succeed once the position has been clamped: report the first one)
            feat = "rows=1" if st.size[1] == 1 else ("cols<=bar" if bar and st.size[0] <= bar[1] else "")
            V("render-raises", f"render({st.size}, True) after {op!r} raised {type(e).__name__}: {e}", feat, exc_site(e))
            return True
        if op[0] in ("key", "wheel") and "view" in obs:
            handled = [e for e in st.rec.log if e[2] is None or e[2] is True]
            p_after = sc.get_scrollpos()
            if handled and p_after != p_before:
                # allowed only to keep the cursor visible
                cw = obs["cw"]
                try:
                    full, fcur = full_rows(st, max(cw, 1))
                except Exception:
                    full, fcur = None, None
                h = st.size[1]
                visible_before = fcur is None or (p_before <= fcur[1] < p_before + h)
                # (content that got shorter by the event itself - a focus-dependent height - forces the position down: not a second use of the key)
                try:
                    clamped = max(0, len(full) - h) < p_before
                except Exception:
                    clamped = False
                if visible_before and not clamped:
                    V("no-double-use", f"{op!r} was handled by the wrapped widget ({handled}) and the view also scrolled from {p_before} to {p_after}"
                      f" although the cursor (row {fcur[1] if fcur else None}) was visible")
        return True


def sweep_task(task, ctx: Ctx):
    """thumb-monotone: for fixed content and size the thumb never moves up while the position increases"""
    kind, bar, s0 = task
    env.reset("utf-8")
    case0 = {"cfg": task, "sweep": True}
    st = St(task)
    cols, h = st.size
    prev = None
    try:
        total = total_rows(st, cols)
    except Exception:
        return
    for p in range(0, total + 2):
        ctx.count("evaluations")
        st.sc.set_scrollpos(p)
        try:
            obs = observe(st)
        except Exception:
            return
        if "view" not in obs or not obs["has_bar"]:
            continue

        def V(clause, detail, feat="", site=""):
            pass  # the per-state clauses are judged by the BFS; the sweep only looks at monotonicity

        r = judge(st, ctx, V, obs)
        if r is None or r[1] is None:
            continue
        pp, top_n = r
        if prev is not None and pp >= prev[0] and top_n < prev[1]:
            ctx.violation("thumb-monotone", f"C20/thumb-monotone/{kind}", dict(case0, p=p), f"size {st.size}: position {prev[0]} -> {pp} but the thumb moved up from bar row {prev[1]} to {top_n}")
        prev = (pp, top_n)


# ----------------------------------------------------------------------
# ScrollBar directly over a ListBox (relative scrolling): geometry only
# ----------------------------------------------------------------------
def listbox_task(task, ctx: Ctx):
    n, size, bar = task
    env.reset("utf-8")
    case = {"listbox": n, "size": size, "bar": bar}
    lb = urwid.ListBox(urwid.SimpleFocusListWalker([urwid.SelectableIcon(f"r{i}", 0) for i in range(n)]))
    top = urwid.ScrollBar(lb, thumb_char=THUMB, trough_char=TROUGH, side=bar[0], width=bar[1])
    cols, h = size
    prev_top = None
    for step in range(n + 2):
        ctx.count("evaluations")
        try:
            urwid.CanvasCache.clear()
            canv = top.render(size, True)
            rows = text_rows(canv)
        except Exception as e:
            ctx.violation("render-raises", f"C20/render-raises/listbox/{'rows=1' if h == 1 else ''}/{exc_site(e)}", dict(case, step=step), f"ScrollBar(ListBox of {n}) render({size}) after {step} x down raised {type(e).__name__}: {e}")
            return
        if canv.cols() != cols or canv.rows() != h:
            ctx.violation("bar-geometry", "C20/bar-geometry/listbox/size", dict(case, step=step), f"canvas {canv.cols()}x{canv.rows()} for {size}")
            return
        bw = min(bar[1], cols)
        col = ["".join(r[cols - bw :] if bar[0] == "right" else r[:bw]) for r in rows]
        is_bar = all(set(c) <= {THUMB, TROUGH} for c in col) and any(THUMB in c for c in col)
        if is_bar != (n > h) and cols > bw:
            ctx.violation("bar-iff-overflow", "C20/bar-iff-overflow/listbox", dict(case, step=step), f"{n} one-row items in {h} rows: bar drawn={is_bar}")
        if is_bar:
            kinds = [c[0] for c in col]
            t = 0
            while t < h and kinds[t] != THUMB:
                t += 1
            th = 0
            while t + th < h and kinds[t + th] == THUMB:
                th += 1
            if THUMB in kinds[t + th :] or any(len(set(c)) != 1 for c in col):
                ctx.violation("bar-geometry", "C20/bar-geometry/listbox", dict(case, step=step), f"bar column {kinds}")
            if prev_top is not None and t < prev_top:
                ctx.violation("thumb-monotone", "C20/thumb-monotone/listbox", dict(case, step=step), f"thumb moved up from {prev_top} to {t} after 'down'")
            prev_top = t
        ctx.obs(n, size, bar, step, col)
        top.keypress(size, "down")


# ----------------------------------------------------------------------
# ScrollBar over a ListBox: histories with keys, wheel, resizes and content changes made in place
# ----------------------------------------------------------------------
LB_SIZES = [(6, 3), (6, 5), (4, 2), (7, 8)]
LB_KINDS = ["txt3", "mixed", "icons6", "icons9", "wrap5", "icons9@10", "txt3@10"]  # @10: a walker whose positions are the integers 10, 20, 30, ...
LB_BARS = [("right", 1), ("left", 2)]
LB_KEYS = ["up", "down", "page up", "page down", "home", "end", "enter"]


def lb_items(kind):
    T = urwid.Text
    if kind == "txt3":
        return [T("a0"), T("b0"), T("c0")]
    if kind == "mixed":
        return [T("a0\na1"), urwid.Edit("", "e0", multiline=True), urwid.SelectableIcon("i0", 0), T("c0")]
    if kind == "icons6":
        return [urwid.SelectableIcon(f"r{i}", 0) for i in range(6)]
    if kind == "icons9":
        return [urwid.SelectableIcon(f"s{i}", 0) for i in range(9)]
    if kind == "wrap5":
        # texts exactly as wide as the (6- and 4-column) views: they wrap into more rows once the bar has taken its columns
        return [T("a0a1a2"), T("b0b1"), urwid.SelectableIcon("c0", 0), T("d0d1d2"), T("e0e1")]
    raise AssertionError(kind)


class SparseWalker(urwid.ListWalker):
    """integer positions that are keys, not counts: item i lives at position 10 * (i + 1)"""

    def __init__(self, items):
        self.items = list(items)
        self.focus = 10

    def __len__(self):
        return len(self.items)

    def __iter__(self):
        return iter(self.items)

    def __getitem__(self, pos):
        if isinstance(pos, int) and pos % 10 == 0 and 1 <= pos // 10 <= len(self.items):
            return self.items[pos // 10 - 1]
        raise IndexError(pos)

    def next_position(self, pos):
        if pos // 10 >= len(self.items):
            raise IndexError(pos)
        return pos + 10

    def prev_position(self, pos):
        if pos <= 10:
            raise IndexError(pos)
        return pos - 10

    def set_focus(self, pos):
        self[pos]
        self.focus = pos
        self._modified()

    def positions(self, reverse=False):
        ps = [10 * (i + 1) for i in range(len(self.items))]
        return reversed(ps) if reverse else iter(ps)

    def append(self, w):
        self.items.append(w)
        self._modified()

    def pop(self):
        w = self.items.pop()
        self.focus = max(10, min(self.focus, 10 * len(self.items)))
        self._modified()
        return w

    def __delitem__(self, sl):
        del self.items[sl]
        self.focus = max(10, min(self.focus, 10 * len(self.items)))
        self._modified()


def item_text(w):
    return w.edit_text if isinstance(w, urwid.Edit) else w.text


def set_item_text(w, t):
    if isinstance(w, urwid.Edit):
        w.set_edit_text(t)
    else:
        w.set_text(t)


class LbSt:
    def __init__(self, cfg):
        kind, bar, s0 = cfg
        self.cfg = cfg
        self.size_i = s0
        self.items = lb_items(kind.split("@")[0])
        self.base = [item_text(w) for w in self.items]
        self.walker = SparseWalker(self.items) if "@" in kind else urwid.SimpleFocusListWalker(list(self.items))
        self.lb = urwid.ListBox(self.walker)
        self.bar = bar
        self.top = urwid.ScrollBar(self.lb, thumb_char=THUMB, trough_char=TROUGH, side=bar[0], width=bar[1])
        self.extra = 0

    @property
    def size(self):
        return LB_SIZES[self.size_i]


def lb_full(st: LbSt, cw):
    """all item rows at width cw, in order (the focus item rendered with focus, as the ListBox does); -> rows, rows of the first item"""
    rows = []
    first = None
    fw = st.walker.get_focus()[0]
    for w in st.walker:
        urwid.CanvasCache.clear()
        rows += [(r + [" "] * cw)[:cw] for r in text_rows(w.render((cw,), w is fw))]
        if first is None:
            first = len(rows)
    urwid.CanvasCache.clear()
    return rows, first or 0


def lb_total(st: LbSt, cw):
    fw = st.walker.get_focus()[0]
    return sum(w.rows((cw,), w is fw) for w in st.walker)


class LbSpec:
    def configs(self, tier):
        return [(k, b, s) for k in LB_KINDS for b in LB_BARS for s in range(len(LB_SIZES)) if tier != "quick" or s in (0, 2)]

    def build(self, cfg):
        env.reset("utf-8")
        st = LbSt(cfg)
        try:
            urwid.CanvasCache.clear()
            st.top.render(st.size, True)
        except Exception:
            pass
        return st

    def key(self, cfg, st: LbSt):
        lb = st.lb
        scal = tuple(sorted((k, repr(v)) for k, v in vars(lb).items() if isinstance(v, (int, str, tuple, float, bool, type(None)))))
        items = tuple((type(w).__name__, item_text(w), getattr(w, "edit_pos", None)) for w in st.walker)
        return (scal, st.walker.focus, items, st.size_i, getattr(st.top, "_original_widget_size", None))

    def ops(self, cfg, st: LbSt):
        out = [("key", k) for k in LB_KEYS]
        out += [("wheel", 4), ("wheel", 5)]
        out += [("resize", i) for i in range(len(LB_SIZES)) if i != st.size_i]
        n = len(st.walker)
        for i in sorted({0, 1, n - 1} & set(range(n))):
            out.append(("grow", i))
            out.append(("shrink", i))
        out.append(("append",))
        if n > 1:
            out.append(("pop",))
        if n:
            out.append(("clear",))
        return out

    def judge(self, cfg, st: LbSt, ctx: Ctx, case):
        kind, bar, s0 = cfg

        def V(clause, detail, feat="", site=""):
            ctx.violation(clause, f"C20/{clause}/listbox/{kind}{('/' + feat) if feat else ''}{('/' + site) if site else ''}", case, detail)

        cols, h = st.size
        try:
            urwid.CanvasCache.clear()
            canv = st.top.render(st.size, True)
            rows = text_rows(canv)
        except Exception as e:
            V("render-raises", f"ScrollBar(ListBox) render({st.size}, True) raised {type(e).__name__}: {e}", site=exc_site(e))
            return
        if canv.cols() != cols or canv.rows() != h or any(len(r) != cols for r in rows):
            V("bar-geometry", f"canvas {canv.cols()}x{canv.rows()} for size {st.size}", "size")
            return
        side, bw = bar
        cand = [r[cols - bw :] if side == "right" else r[:bw] for r in rows]
        has_bar = all(all(ch in (THUMB, TROUGH) for ch in c) for c in cand) and any(THUMB in c for c in cand)
        tot_full = lb_total(st, cols)
        tot_red = lb_total(st, cols - bw)
        if has_bar != (tot_full > h) and has_bar != (tot_red > h):
            V("bar-iff-overflow", f"size {st.size}: bar drawn={has_bar} but the items have {tot_full} rows at the full width / {tot_red} at the reduced width, view {h}")
        cw = cols - bw if has_bar else cols
        view = [r[: cols - bw] if side == "right" else r[bw:] for r in rows] if has_bar else rows
        full, first_rows = lb_full(st, cw)
        total = len(full)
        blank = [" "] * cw
        match = [p for p in range(-h, total + 1) if [(full[p + i] if 0 <= p + i < total else blank) for i in range(h)] == view]
        if not match:
            V("inner-width", f"size {st.size}, bar={has_bar}: the view {[''.join(r) for r in view]} is no window of the items rendered at width {cw}: {[''.join(r) for r in full]}")
            return
        ctx.distinct("nontrivial", ("lb", kind, bar, st.size_i, tuple(item_text(w) for w in st.walker), match[0], has_bar))
        if has_bar:
            col = ["".join(c) for c in cand]
            kinds = [c[0] for c in col]
            if any(len(set(c)) != 1 for c in col):
                V("bar-geometry", f"bar row mixes thumb and trough: {col}")
            top_n = 0
            while top_n < h and kinds[top_n] != THUMB:
                top_n += 1
            th = 0
            while top_n + th < h and kinds[top_n + th] == THUMB:
                th += 1
            if THUMB in kinds[top_n + th :]:
                V("bar-geometry", f"thumb is not one contiguous run: {kinds}")
            if th < h:
                # with many items the bar works in whole items ("relative scroll"): the thumb may stay at the top until the first item is gone
                relative = h * 3 < len(st.walker)
                if top_n == 0 and all(p >= (first_rows if relative else 1) for p in match):
                    V("thumb-top-iff-p0", f"size {st.size}: the first row is scrolled out (window {match}) but the thumb is at the top: {''.join(kinds)}", "at-top")
                if top_n > 0 and all(p <= 0 for p in match):
                    V("thumb-top-iff-p0", f"size {st.size}: the first row is shown (window {match}) but the thumb starts at bar row {top_n}: {''.join(kinds)}", "left-top")

    def check_state(self, cfg, st, ctx, hist):
        if not hist:  # every later state is judged in apply(), right after the step that produced it
            self.judge(cfg, st, ctx, {"lbcfg": cfg, "hist": hist})

    def apply(self, cfg, st: LbSt, op, ctx: Ctx, hist):
        case = {"lbcfg": cfg, "hist": hist + (op,)}
        kind = cfg[0]
        ctx.count("evaluations")
        try:
            if op[0] == "key":
                st.top.keypress(st.size, op[1])
            elif op[0] == "wheel":
                st.top.mouse_event(st.size, "mouse press", op[1], 0, 0, True)
            elif op[0] == "resize":
                st.size_i = op[1]
            elif op[0] in ("grow", "shrink"):
                w = list(st.walker)[op[1]]
                t = item_text(w)
                tag = t[:1] or "z"
                if op[0] == "grow":
                    n = t.count("\n") + 1
                    if n >= 7:
                        return False
                    set_item_text(w, t + "".join(f"\n{tag}{n + j}" for j in range(3)))
                else:
                    if "\n" not in t:
                        return False
                    set_item_text(w, t.split("\n")[0])
            elif op[0] == "append":
                if len(st.walker) >= 11:
                    return False
                st.extra += 1
                st.walker.append(urwid.SelectableIcon(f"x{st.extra}", 0))
            elif op[0] == "pop":
                st.walker.pop()
            elif op[0] == "clear":
                del st.walker[:]
        except Exception as e:
            ctx.violation("event-raises", f"C20/event-raises/listbox/{kind}/{exc_site(e)}", case, f"{op!r} raised {type(e).__name__}: {e}")
            return False
        ctx.obs("lb", op)
        # the main loop renders after every input
        self.judge(cfg, st, ctx, case)
        return True


def run(tier, R):
    depth = 2 if tier == "quick" else 3
    spec = Spec(tier)
    res = R.bfs(spec, depth=depth, max_states=3_000_000)
    lres = R.bfs(LbSpec(), depth=3 if tier == "quick" else 4, max_states=3_000_000)
    sweeps = [(k, b, s) for k in CONTENTS for b in BARS if b for s in range(len(SIZES))]
    R.run_tasks(sweep_task, sweeps, recheck=0.1)
    lbt = [(n, size, bar) for n in (1, 3, 6, 9) for size in SIZES for bar in BARS if bar]
    R.run_tasks(listbox_task, lbt, recheck=0.1)
    ev = int(R.ctx.counts["evaluations"])
    cov = {
        "states": res["states"] + lres["states"],
        "transitions": res["transitions"] + lres["transitions"],
        "traces_validated_against_impl": res["transitions"] + lres["transitions"],
        "evaluations": ev,
        "distinct_nontrivial": len(R.ctx.sets.get("nontrivial", ())),
        "rule": f"BFS depth {depth} from {res['configs']} configurations ({len(CONTENTS)} contents: Text of 1/3/7 lines, wrapping Text, Pile with Edit, Pile of icons, fixed BigText; "
        "alone under Scrollable and under ScrollBar right/left width 1/2; 7 initial sizes incl. 1-row and 1-column views) over 7 keys, wheel up/down, set_scrollpos in "
        f"{POSITIONS}, resize to every other size, content change (longer/shorter), scrollbar_width / scrollbar_side reassigned (also to 0 and -1), the wrapped Scrollable replaced; dedup on the complete Scrollable state; every state rendered and compared with the wrapped "
        f"widget's own rendering; plus a complete set_scrollpos sweep for {len(sweeps)} (content, bar, size) triples and {len(lbt)} ScrollBar(ListBox) walks. "
        "non-trivial = distinct (content, bar, size, variant, position shown)",
        "exhaustive": not res["capped"] and not lres["capped"],
        "bfs_levels": res["levels"],
        "listbox_bfs": {"depth": lres["depth"], "states": lres["states"], "transitions": lres["transitions"], "levels": lres["levels"], "configs": lres["configs"],
                        "rule": f"ScrollBar(ListBox) over {LB_KINDS} x bars {LB_BARS} x sizes {LB_SIZES}: keys {LB_KEYS}, wheel, resize, an item growing / shrinking in place "
                        "(set_text / set_edit_text), append and pop on the walker; after every step: bar drawn iff the items overflow, bar geometry, the view is a window of the items "
                        "rendered at the view width minus the bar width, the thumb leaves the top iff the first row is scrolled out"},
        "bound": {"depth": res["depth"], "capped": res["capped"]},
    }
    return {
        "coverage": cov,
        "assumptions": [
            "content rows are unique, so the rows shown identify p; the bar uses distinctive thumb/trough characters so it can be read off the canvas",
            "'bar drawn iff overflow' is reported only when it disagrees both at the full width and at the width reduced by the bar",
            "'thumb leaves the top iff p > 0' is not demanded when the thumb fills the whole bar (1-row views)",
            "ScrollBar over a ListBox with more than 3 x height items works in whole items (relative scroll): there the thumb must have left the top once the whole first item is scrolled out, "
            "and must be at the top while the first row is shown; in between either is accepted",
            "a handled key may move the view only to keep the cursor visible",
            "a view no wider than the bar has no room for a bar: 'drawn exactly when the content overflows' is not demanded there",
        ],
    }


def replay(case, ctx):
    def tup(p):
        return tuple(tup(x) if isinstance(x, (list, tuple)) else x for x in p)

    if "listbox" in case:
        listbox_task((case["listbox"], tuple(case["size"]), tup(case["bar"])), ctx)
        return
    if "lbcfg" in case:
        spec = LbSpec()
        cfg = tup(case["lbcfg"])
        st = spec.build(cfg)
        hist = tuple(tup(op) for op in case["hist"])
        for i, op in enumerate(hist):
            ctx.muted = i < len(hist) - 1
            print(f"  step {i}: {op}   size={st.size}")
            spec.apply(cfg, st, op, ctx, hist[:i])
        ctx.muted = False
        spec.check_state(cfg, st, ctx, hist)
        return
    cfg = tup(case["cfg"])
    cfg = (cfg[0], cfg[1] if cfg[1] else None, cfg[2])
    if case.get("sweep"):
        sweep_task(cfg, ctx)
        return
    spec = Spec("thorough")
    st = spec.build(cfg)
    hist = tuple(tup(op) for op in case["hist"])
    for i, op in enumerate(hist):
        ctx.muted = i < len(hist) - 1
        print(f"  step {i}: {op}   size={st.size} scrollpos={st.sc.get_scrollpos()}")
        spec.apply(cfg, st, op, ctx, hist[:i])
    ctx.muted = False
    print(f"  final: size={st.size} scrollpos={st.sc.get_scrollpos()}")
    spec.check_state(cfg, st, ctx, hist)
