"""C08 — container focus is always a valid child and input follows the focus path.

Shape H: explicit-state BFS over histories of keys, button-1 presses on every cell, focus_position /
set_focus_path assignments (valid and invalid) and contents mutations on nested Pile / Columns /
GridFlow / Frame / Overlay / ListBox fixtures whose leaves are recording probes.  Every reached
state is checked for the focus invariants and rendered; every transition for the input clauses.
"""
from __future__ import annotations

from .. import env
from ..core import Ctx, exc_site
from ..probe import Probe

import urwid

ID = "C08"
LEVEL = "model_checking"

KEYS = ["up", "down", "left", "right", "page up", "page down", "home", "end", "tab", "x", "k", "j"]  # k / j are bound to 'cursor up' / 'cursor down' as plain strings
NAV = {"up", "down", "left", "right", "page up", "page down", "home", "end", "k", "j"}
CONTAINERS = (urwid.Pile, urwid.Columns, urwid.GridFlow, urwid.Frame, urwid.Overlay, urwid.ListBox)
LISTLIKE = (urwid.Pile, urwid.Columns, urwid.GridFlow)


class St:
    def __init__(self, root, size):
        self.root = root
        self.size = size
        self.n_new = 0
        self.saved_path = None


def L(name, sel=True, rows=1, box=False, keys=()):
    return Probe(name, ("box",) if box else ("flow",), (2, rows), selectable=sel, cursor=(0, 0) if sel else None, keys=keys)


def fixtures():
    P, C, G = urwid.Pile, urwid.Columns, urwid.GridFlow
    fx = []

    def add(name, size, fn):
        fx.append((name, size, fn))

    add("pile", (4,), lambda: P([L("a"), L("t", False), L("b"), L("c")]))
    add("pile-box", (4, 5), lambda: P([("pack", L("a")), ("pack", L("t", False)), L("B", box=True), ("pack", L("c"))]))
    add("cols", (11,), lambda: C([L("a"), L("t", False), L("b")], 1))
    add("cols-narrow", (3,), lambda: C([(2, L("a")), (2, L("t", False)), (2, L("b"))], 1))
    add("pile(cols)", (6,), lambda: P([C([L("a"), L("b")]), L("t", False), C([L("c"), L("d")])]))
    add("cols(pile)", (6,), lambda: C([P([L("a"), L("b")]), P([L("t", False), L("c")])]))
    add("grid", (5,), lambda: G([L("a"), L("b"), L("t", False), L("c")], 2, 1, 0, "left"))
    add("grid-wide", (9,), lambda: G([L("a"), L("t", False), L("b"), L("c")], 2, 1, 1, "center"))
    add("frame", (4, 5), lambda: urwid.Frame(urwid.Filler(P([L("a"), L("b")])), header=L("h"), footer=L("f", False)))
    add("frame(cols-header,listbox)", (6, 5), lambda: urwid.Frame(urwid.ListBox(urwid.SimpleFocusListWalker([L("a"), L("b")])), header=C([L("h"), L("i")]), footer=L("f")))
    add("frame-tall-header", (4, 4), lambda: urwid.Frame(urwid.Filler(P([L("a"), L("b")])), header=P([L("h"), L("i"), L("j")]), footer=L("f")))
    add("frame-tall-footer", (4, 4), lambda: urwid.Frame(urwid.Filler(P([L("a"), L("b")])), header=L("h"), footer=P([L("f"), L("g"), L("k")])))  # the footer is only partly visible
    add("frame-header-fills", (4, 3), lambda: urwid.Frame(urwid.Filler(L("a")), header=P([L("h"), L("i"), L("j")])))
    add("overlay", (6, 4), lambda: urwid.Overlay(urwid.Filler(P([L("a"), L("b")])), urwid.Filler(L("z")), "center", 3, "middle", 2))
    add("listbox", (6, 3), lambda: urwid.ListBox(urwid.SimpleFocusListWalker([L("a"), L("t", False), C([L("b"), L("c")]), L("d")])))
    add("listbox(pile)", (4, 4), lambda: urwid.ListBox(urwid.SimpleFocusListWalker([P([L("a"), L("t", False)]), L("u", False), P([L("b"), L("c")])])))
    add("empty-pile", (4,), lambda: P([]))
    add("empty-cols", (4,), lambda: C([]))
    add("empty-grid", (4,), lambda: G([], 2, 1, 0, "left"))
    add("unsel-pile", (4,), lambda: P([L("t", False), L("u", False)]))
    add("pile-unsel-first", (4,), lambda: P([L("t", False), L("a"), L("e", keys=("x",)), L("u", False)]))
    add("pile(pile)", (4,), lambda: P([P([L("t", False), L("a")]), P([L("b"), L("u", False)])]))
    return fx


FIXTURES = fixtures()


# ----------------------------------------------------------------------
# tree walking
# ----------------------------------------------------------------------
def children(w):
    """(list of child widgets in position order, list of positions) of a container; ([], []) for leaves"""
    if isinstance(w, urwid.Frame):
        out = [(k, w.contents[k][0]) for k in ("header", "body", "footer") if k in w.contents]
        return [c for _, c in out], [k for k, _ in out]
    if isinstance(w, urwid.Overlay):
        return [w.bottom_w, w.top_w], [0, 1]
    if isinstance(w, urwid.ListBox):
        return list(w.body), list(range(len(w.body)))
    if isinstance(w, LISTLIKE):
        return [c for c, _ in w.contents], list(range(len(w.contents)))
    ow = getattr(w, "original_widget", None)
    if ow is not None and not isinstance(w, Probe):
        return [ow], [None]
    return [], []


def walk(w, acc_c, acc_l):
    if isinstance(w, Probe):
        acc_l.append(w)
        return
    if isinstance(w, CONTAINERS):
        acc_c.append(w)
    for ch in children(w)[0]:
        walk(ch, acc_c, acc_l)


def focus_leaf(w):
    """the leaf at the end of the focus path (None when a container on the way is empty)"""
    seen = 0
    while w is not None and seen < 50:
        seen += 1
        if isinstance(w, Probe):
            return w
        if isinstance(w, CONTAINERS):
            w = w.focus
            continue
        ow = getattr(w, "original_widget", None)
        if ow is None:
            return None
        w = ow
    return None


def canon(w):
    if isinstance(w, Probe):
        return ("L", w.name, w.cursor)
    kids = tuple(canon(c) for c in children(w)[0])
    if isinstance(w, urwid.ListBox):
        try:
            fp = w.focus_position
        except IndexError:
            fp = None
        return ("ListBox", fp, getattr(w.body, "_focus", None), w.offset_rows, w.inset_fraction, w.pref_col, repr(w.set_focus_pending), repr(w.set_focus_valign_pending), kids)
    if isinstance(w, urwid.Frame):
        return ("Frame", w.focus_part, kids)
    if isinstance(w, CONTAINERS):
        try:
            fp = w.focus_position
        except IndexError:
            fp = None
        # (the raw index kept by the contents list is hidden state of an emptied container: two empty containers may differ in it)
        return (type(w).__name__, fp, getattr(getattr(w, "contents", None), "_focus", None), getattr(w, "pref_col", None), kids)
    return (type(w).__name__, kids)


# ----------------------------------------------------------------------
def settle(st):
    """the main loop renders after every input: pending focus changes of a ListBox are resolved by that render"""
    st.settle_error = None
    try:
        urwid.CanvasCache.clear()
        st.root.render(st.size, True)
    except Exception as e:
        st.settle_error = e  # reported by check_state (a second render may succeed)


def positions(cs):
    out = []
    for cont in cs:
        try:
            out.append(cont.focus_position)
        except IndexError:
            out.append(None)
    return out


class Spec:
    def __init__(self, tier):
        self.tier = tier

    def configs(self, tier):
        return list(range(len(FIXTURES)))

    def build(self, cfg):
        env.reset("utf-8")
        urwid.command_map["k"] = "cursor up"  # the documented way: a plain string, equal to the Command member but not identical
        urwid.command_map["j"] = "cursor down"
        name, size, fn = FIXTURES[cfg]
        st = St(fn(), size)
        settle(st)
        try:
            st.saved_path = list(st.root.get_focus_path())
        except Exception:
            st.saved_path = None
        return st

    def key(self, cfg, st):
        return (canon(st.root), st.n_new)

    def ops(self, cfg, st):
        out = [("key", k) for k in KEYS]
        size = st.size
        c, r = size[0], (size[1] if len(size) == 2 else None)
        if r is None:
            try:
                urwid.CanvasCache.clear()
                r = st.root.rows(size, True)
            except Exception:
                r = 1
        for y in range(min(r, 6)):
            for x in range(c):
                out.append(("press", x, y))
        cs, ls = [], []
        walk(st.root, cs, ls)
        for ci, cont in enumerate(cs):
            kids, poss = children(cont)
            if isinstance(cont, urwid.Overlay):
                continue
            for p in poss:
                out.append(("focus", ci, p))
            frame_parts = ("header", "footer") if isinstance(cont, urwid.Frame) else ()  # a part the Frame does not have is an invalid position too
            for bad in (-1, len(kids)) + (() if isinstance(cont, urwid.ListBox) else ("bogus",)) + frame_parts:  # ListBox positions are walker-defined
                if bad not in poss:
                    out.append(("focus", ci, bad))
            if isinstance(cont, LISTLIKE) and st.n_new < 2:
                n = len(kids)
                for i in sorted({0, n // 2, n}):
                    out.append(("ins", ci, i, True))
                out.append(("ins", ci, n, False))
                out.append(("iadd", ci))
                if n:
                    out.append(("assign", ci, 0, False))
                out.append(("setall", ci, 1))
            if isinstance(cont, LISTLIKE):
                n = len(kids)
                for i in range(n):
                    out.append(("del", ci, i))
                if n:
                    out.append(("del", ci, -1))
                if n >= 2:
                    out.append(("delslice", ci, None, 1, None))
                    out.append(("delslice", ci, 1, None, None))
                    out.append(("delslice", ci, n - 1, None, -1))
                    out.append(("delslice", ci, None, None, -2))
                    out.append(("delslice", ci, None, None, 2))
                if n:
                    out.append(("clear", ci))
            if isinstance(cont, urwid.ListBox):
                n = len(kids)
                for i in range(n):
                    out.append(("del", ci, i))
                if st.n_new < 2:
                    out.append(("ins", ci, 0, True))
                    out.append(("ins", ci, n, False))
            if isinstance(cont, urwid.Frame):
                for part in ("header", "footer"):
                    out.append(("part", ci, part, None))
                    if st.n_new < 2:
                        out.append(("part", ci, part, True))
        out.append(("roundtrip",))
        if st.saved_path is not None:
            out.append(("restore",))
            out.append(("restore", "iter"))  # the path handed over as a one-shot iterator (the parameter is an Iterable)
        if getattr(st, "depth", 0) <= (0 if self.tier == "quick" else 1):
            # two inputs handled in one main-loop pass: no render between an assignment / deletion and the next event
            firsts = [o for o in out if (o[0] == "focus" and o[2] != "bogus" and not (isinstance(o[2], int) and o[2] < 0)) or o[0] == "del"]
            seconds = [o for o in out if o[0] == "press" and o[2] < 3] + [("key", k) for k in ("up", "down", "left", "right")]
            for a in firsts:
                for b in seconds:
                    out.append(("seq", a, b))
        return out

    # ------------------------------------------------------------------
    def check_state(self, cfg, st, ctx: Ctx, hist):
        name = FIXTURES[cfg][0]
        case = {"fixture": name, "hist": hist}

        def V(clause, detail, cls="", site=""):
            ctx.violation(clause, f"C08/{clause}/{cls or name}{('/' + site) if site else ''}", case, detail)

        err = getattr(st, "settle_error", None)
        if err is not None:
            V("render-raises", f"the render after the last input raised {type(err).__name__}: {err}", site=exc_site(err))
        cs, ls = [], []
        walk(st.root, cs, ls)
        for cont in cs:
            cn = type(cont).__name__
            kids, poss = children(cont)
            if isinstance(cont, urwid.Overlay):
                continue
            if not kids:
                try:
                    f = cont.focus
                except Exception as e:
                    V("empty", f"reading .focus of an empty {cn} raised {type(e).__name__}: {e}", cn, exc_site(e))
                    continue
                if f is not None:
                    V("empty", f"empty {cn} reports focus {f!r}", cn)
                try:
                    p = cont.focus_position
                    V("empty", f"empty {cn}.focus_position returned {p!r} instead of raising IndexError", cn)
                except IndexError:
                    pass
                except Exception as e:
                    V("empty", f"empty {cn}.focus_position raised {type(e).__name__}", cn, exc_site(e))
                continue
            try:
                p = cont.focus_position
                f = cont.focus
            except Exception as e:
                V("focus-valid", f"non-empty {cn} ({len(kids)} children): reading focus raised {type(e).__name__}: {e}", cn, exc_site(e))
                continue
            if p not in poss:
                part = getattr(cont, p, None) if isinstance(cont, urwid.Frame) and isinstance(p, str) else None
                if part is not None and isinstance(part, CONTAINERS) and not children(part)[0]:
                    V("focus-valid", f"Frame.focus_position {p!r} is missing from Frame.contents because that part is an empty container (falsy)", cn + "/part-is-empty-container")
                else:
                    V("focus-valid", f"{cn}.focus_position {p!r} is not a valid position (valid: {poss})", cn)
                continue
            if kids[poss.index(p)] is not f:
                V("focus-valid", f"{cn}.focus_position {p!r} designates {kids[poss.index(p)]!r} but .focus is {f!r}", cn)
        # only the focus path is rendered with focus
        for lf in ls:
            del lf.log[:]
        urwid.CanvasCache.clear()
        try:
            st.root.render(st.size, True)
        except Exception as e:
            V("render-raises", f"render({st.size}, True) raised {type(e).__name__}: {e}", site=exc_site(e))
            return
        fl = focus_leaf(st.root)
        for lf in ls:
            for e in lf.log:
                if e[0] == "render" and e[2] and lf is not fl:
                    V("focus-render", f"leaf {lf.name} was rendered with focus=True but the focus path ends at {fl.name if fl else None}")
        ctx.distinct("nontrivial", (cfg, canon(st.root)))

    # ------------------------------------------------------------------
    def apply(self, cfg, st: St, op, ctx: Ctx, hist):
        st.depth = len(hist) + 1
        st.assigned = None
        try:
            if op[0] == "seq":
                if not self._apply(cfg, st, op[1], ctx, hist, record=op):
                    return False
                ok = self._apply(cfg, st, op[2], ctx, hist, record=op)
                if ok and not ctx.muted:
                    settle(st)
                    self.render_transparent(cfg, st, op, ctx, hist)
                return ok
            ok = self._apply(cfg, st, op, ctx, hist)
            if ok and op[0] == "key" and op[1] in ("k", "j") and not ctx.muted:
                settle(st)
                self.same_as_arrow(cfg, st, op, ctx, hist)
            return ok
        finally:
            settle(st)
            if st.assigned is not None and not ctx.muted:
                cont, p, cn = st.assigned
                try:
                    now = cont.focus_position
                except Exception:
                    now = None
                if now != p:
                    ctx.violation("focus-assign", f"C08/focus-assign/{cn}/reverted-by-render", {"fixture": FIXTURES[cfg][0], "hist": hist + (op,)},
                                  f"{cn}.focus_position = {p!r} was accepted, but after the next render it reads {now!r}")

    def same_as_arrow(self, cfg, st, op, ctx, hist):
        """a key bound to 'cursor up' / 'cursor down' by a plain string in the command map does what the arrow key does"""
        arrow = "up" if op[1] == "k" else "down"
        got = canon(st.root)
        muted = ctx.muted
        ctx.muted = True
        try:
            tw = self.build(cfg)
            for i, h in enumerate(hist):
                self.apply(cfg, tw, h, ctx, hist[:i])
            self._apply(cfg, tw, ("key", arrow), ctx, hist)
            settle(tw)
            want = canon(tw.root)
        finally:
            ctx.muted = muted
        if got != want:
            ctx.violation("command-map", f"C08/command-map/{FIXTURES[cfg][0]}/{op[1]}", {"fixture": FIXTURES[cfg][0], "hist": hist + (op,)},
                          f"{op[1]!r} is bound to 'cursor {arrow}' but leaves the focus state {got}; {arrow!r} leaves {want}")

    def render_transparent(self, cfg, st, op, ctx, hist):
        """the same two inputs with the main loop's render in between must lead to the same focus state"""
        name = FIXTURES[cfg][0]
        got = canon(st.root)
        muted = ctx.muted
        ctx.muted = True
        try:
            tw = self.build(cfg)
            for i, h in enumerate(hist):
                self.apply(cfg, tw, h, ctx, hist[:i])
            self._apply(cfg, tw, op[1], ctx, hist)
            settle(tw)
            self._apply(cfg, tw, op[2], ctx, hist)
            settle(tw)
            want = canon(tw.root)
        finally:
            ctx.muted = muted
        if got != want:
            cs, _ls = [], []
            walk(st.root, cs, _ls)
            cn = type(cs[op[1][1]]).__name__ if len(op[1]) > 1 and isinstance(op[1][1], int) and op[1][1] < len(cs) else ""
            ctx.violation("render-transparent", f"C08/render-transparent/{name}/{op[1][0]}+{op[2][0]}/{cn}", {"fixture": name, "hist": hist + (op,)},
                          f"{op[1]!r} directly followed by {op[2]!r} gives focus state {got}; with a render in between {want}")

    def _apply(self, cfg, st: St, op, ctx: Ctx, hist, record=None):
        name = FIXTURES[cfg][0]
        case = {"fixture": name, "hist": hist + (record or op,)}
        root, size = st.root, st.size
        ctx.count("evaluations")

        def V(clause, detail, cls="", site=""):
            ctx.violation(clause, f"C08/{clause}/{cls or name}{('/' + site) if site else ''}", case, detail)

        cs, ls = [], []
        walk(root, cs, ls)
        for lf in ls:
            del lf.log[:]
        kind = op[0]
        if kind == "key":
            key = op[1]
            if not root.selectable():
                return True
            before_leaf = focus_leaf(root)
            pending = any(isinstance(c, urwid.ListBox) and (c.set_focus_pending is not None or c.set_focus_valign_pending is not None) for c in cs)
            before_pos = []
            for cont in cs:
                try:
                    before_pos.append(cont.focus_position)
                except IndexError:
                    before_pos.append(None)
            try:
                got = root.keypress(size, key)
            except Exception as e:
                V("event-raises", f"keypress({size}, {key!r}) raised {type(e).__name__}: {e}", site=exc_site(e))
                return False
            ctx.obs(op, got)
            if got is not None and got != key:
                V("unhandled-unchanged", f"keypress({key!r}) returned {got!r}")
            for lf in ls:
                if pending:
                    break  # the focus path is only defined once the ListBox has resolved its pending focus change (it does so first thing in keypress)
                if any(e[0] == "keypress" for e in lf.log) and lf is not before_leaf:
                    V("keys-on-path", f"key {key!r} was offered to leaf {lf.name}, the focus path ended at {before_leaf.name if before_leaf else None}")
            if before_leaf is not None and before_leaf.selectable() and not any(e[0] == "keypress" for e in before_leaf.log):
                # the focus leaf must at least be offered the key (unless a container on the way is unselectable)
                pass
            if got == key and key not in NAV and key not in (before_leaf.keys if before_leaf else ()):
                # a key nobody handles must not change any focus
                for cont, bp in zip(cs, before_pos):
                    try:
                        ap = cont.focus_position
                    except IndexError:
                        ap = None
                    if ap != bp:
                        V("unhandled-unchanged", f"unhandled key {key!r} moved the focus of {type(cont).__name__} from {bp!r} to {ap!r}", type(cont).__name__)
            if got is None and key not in NAV and not (before_leaf is not None and key in before_leaf.keys):
                V("unhandled-unchanged", f"key {key!r} that no widget on the focus path handles was swallowed (keypress returned None)")
            if key in NAV:
                for cont, bp in zip(cs, before_pos):
                    if not isinstance(cont, (urwid.Pile, urwid.Columns, urwid.GridFlow, urwid.Frame)):
                        continue
                    try:
                        ap = cont.focus_position
                    except IndexError:
                        ap = None
                    if ap != bp and ap is not None:
                        try:
                            f = cont.focus
                        except Exception:
                            f = None
                        if f is not None and not f.selectable():
                            V("arrows-to-selectable", f"{key!r} moved the focus of {type(cont).__name__} from {bp!r} to {ap!r}, an unselectable child", type(cont).__name__)
            return True
        if kind == "press":
            try:
                root.mouse_event(size, "mouse press", 1, op[1], op[2], True)
            except Exception as e:
                V("event-raises", f"mouse press at ({op[1]},{op[2]}) raised {type(e).__name__}: {e}", site=exc_site(e))
                return False
            ctx.obs(op, [lf.name for lf in ls if lf.log])
            return True
        if kind == "roundtrip":
            before = canon(root)
            try:
                path = root.get_focus_path()
                root.set_focus_path(path)
            except Exception as e:
                V("path-roundtrip", f"set_focus_path(get_focus_path()) raised {type(e).__name__}: {e}", site=exc_site(e))
                return False
            if canon(root) != before:
                V("path-roundtrip", f"set_focus_path(get_focus_path()={path!r}) changed the state")
            return True
        if kind == "restore":
            path = st.saved_path
            # the leaf the saved path designates in the current tree (None if a position is no longer valid)
            w = root
            ok = True
            for p in path:
                while not isinstance(w, CONTAINERS) and getattr(w, "original_widget", None) is not None:
                    w = w.original_widget
                kids, poss = children(w)
                if p not in poss:
                    ok = False
                    break
                w = kids[poss.index(p)]
            try:
                root.set_focus_path(iter(path) if len(op) > 1 else path)
            except IndexError:
                if ok:
                    V("path-roundtrip", f"set_focus_path({path!r}) raised IndexError although every position is valid")
                return True
            except Exception as e:
                V("path-roundtrip", f"set_focus_path({path!r}) raised {type(e).__name__}: {e}", site=exc_site(e))
                return False
            if ok:
                while not isinstance(w, (Probe,) + CONTAINERS) and getattr(w, "original_widget", None) is not None:
                    w = w.original_widget
                target = w if isinstance(w, Probe) else focus_leaf(w)
                if focus_leaf(root) is not target:
                    V("path-roundtrip", f"set_focus_path({path!r}) focuses {focus_leaf(root)} instead of {target}")
            return True
        cont = cs[op[1]]
        cn = type(cont).__name__
        kids, poss = children(cont)
        if kind == "focus":
            p = op[2]
            before = positions(cs)
            try:
                cont.focus_position = p
                err = None
            except Exception as e:
                err = e
            ctx.obs(op, type(err).__name__)
            if p in poss:
                if err is not None:
                    V("focus-assign", f"{cn}.focus_position = {p!r} (valid) raised {type(err).__name__}: {err}", cn)
                    return False
                if cont.focus_position != p:
                    V("focus-assign", f"{cn}.focus_position = {p!r} left it at {cont.focus_position!r}", cn)
                elif record is None:
                    st.assigned = (cont, p, cn)
            else:
                if not isinstance(err, IndexError):
                    V("bad-assign", f"{cn}.focus_position = {p!r} (invalid, {len(kids)} children) raised {type(err).__name__ if err else 'nothing'} instead of IndexError", cn)
                if positions(cs) != before:
                    V("bad-assign", f"{cn}.focus_position = {p!r} (invalid) changed focus positions {before} -> {positions(cs)}", cn)
                    return True
            return True
        # contents mutations
        try:
            if kind == "ins":
                st.n_new += 1
                w = L(f"n{st.n_new}", sel=op[3])
                if isinstance(cont, urwid.ListBox):
                    cont.body.insert(op[2], w)
                else:
                    cont.contents.insert(op[2], (w, cont.options()))
            elif kind == "iadd":
                # += on the live contents list (a helper that was handed the list), not on the property
                st.n_new += 1
                live = cont.contents
                live += [(L(f"n{st.n_new}", sel=True), cont.options())]
            elif kind == "assign":
                st.n_new += 1
                w = L(f"n{st.n_new}", sel=op[3])
                cont.contents[op[2]] = (w, cont.options())
            elif kind == "setall":
                st.n_new += 1
                cont.contents[:] = [(L(f"n{st.n_new}", sel=True), cont.options())]
            elif kind == "del":
                if isinstance(cont, urwid.ListBox):
                    del cont.body[op[2]]
                else:
                    del cont.contents[op[2]]
            elif kind == "delslice":
                del cont.contents[slice(op[2], op[3], op[4])]
            elif kind == "clear":
                cont.contents[:] = []
            elif kind == "part":
                st.n_new += 1 if op[3] else 0
                w = L(f"n{st.n_new}", sel=True) if op[3] else None
                if op[2] == "header":
                    cont.header = w
                else:
                    cont.footer = w
        except Exception as e:
            V("edit-raises", f"{cn} {op!r} raised {type(e).__name__}: {e}", cn, exc_site(e))
            return True  # the state after a failed edit must still satisfy the invariants
        ctx.obs(op)
        if isinstance(cont, LISTLIKE):
            want = any(c.selectable() for c, _ in cont.contents)
            if bool(cont.selectable()) != want:
                V("selectable-after-set", f"after {op!r} {cn}.selectable() is {cont.selectable()} but {'a' if want else 'no'} child is selectable", cn)
        return True


def run(tier, R):
    depth = 3 if tier == "quick" else 4
    spec = Spec(tier)
    res = R.bfs(spec, depth=depth, max_states=400_000 if tier == "quick" else 3_000_000)
    cov = {
        "states": res["states"],
        "transitions": res["transitions"],
        "traces_validated_against_impl": res["transitions"],
        "evaluations": res["transitions"],
        "distinct_nontrivial": len(R.ctx.sets.get("nontrivial", ())),
        "rule": f"BFS depth {depth} from {len(FIXTURES)} fixtures (Pile flow/box, Columns, nestings, GridFlow, Frame, Overlay, ListBox, empty and all-unselectable containers) "
        "over keys (arrows, page, home/end, tab, a character), button-1 presses on every cell, focus_position assignment for every valid position and for -1 / len / 'bogus' on "
        "every container, set_focus_path round trip and restoring the initial path, contents insert/assign/replace-all/delete/slice-delete (incl. reversed and extended "
        "slices)/clear, ListBox walker insert/delete, Frame header/footer set and removed, and pairs (focus assignment or deletion, then a press or arrow key with no render in between: "
        f"{'as the first step' if tier == 'quick' else 'as the first or second step'}; the pair must end in the same focus state as with the main loop's render in between); Frame headers "
        "taller than the space they get; states deduplicated on the complete focus state (positions, pref_col, ListBox "
        "offsets, probe cursors); non-trivial = distinct states",
        "exhaustive": bool(res["closed"]) or not res["capped"],
        "bfs_levels": res["levels"],
        "bound": {"depth": res["depth"], "capped": res["capped"], "new_widgets_per_history": 2},
    }
    return {
        "coverage": cov,
        "assumptions": [
            "leaves are recording probes (mc/probe.py); the root's keypress is called only when the root is selectable (as MainLoop does)",
            "'arrow keys move focus only onto selectable children' is judged on Pile, Columns, GridFlow and Frame (a ListBox scrolls through unselectable items by design)",
            "'selectable exactly when one of its children is' is judged right after each contents assignment",
            "while a ListBox on the path has a pending focus change (assignment not yet followed by a render) the focus path is not defined until the ListBox resolves it, "
            "so 'a key is offered only to the focus path' is not judged for a key that directly follows such an assignment; the resulting state is compared with the run that renders in between",
        ],
    }


def replay(case, ctx):
    names = [f[0] for f in FIXTURES]
    cfg = names.index(case["fixture"])
    spec = Spec("thorough")
    st = spec.build(cfg)

    def tup(p):
        return tuple(tup(x) if isinstance(x, (list, tuple)) else x for x in p)

    hist = tuple(tup(op) for op in case["hist"])
    for i, op in enumerate(hist):
        ctx.muted = i < len(hist) - 1
        print(f"  step {i}: {op}   focus path before: {_path(st.root)}")
        spec.apply(cfg, st, op, ctx, hist[:i])
    ctx.muted = False
    print(f"  final focus path: {_path(st.root)}")
    spec.check_state(cfg, st, ctx, hist)


def _path(root):
    try:
        return root.get_focus_path()
    except Exception as e:
        return f"<{type(e).__name__}: {e}>"
