"""C06 — the canvas cache is invisible: cached rendering equals fresh rendering.

Shape H with a differential twin: explicit-state BFS over histories of render / rows observations
(several sizes, both focus values), public mutators, input handling, container content edits and the
release (garbage collection) of canvases handed out earlier.  Each history is executed on a fixture
with the cache left alone, and again from scratch on an independently built fixture with
CanvasCache.clear() before every observation; every observation must agree.  States are
deduplicated on the widgets' observable state plus the cache shape (which entries are alive and the
dependency edges), because that is what the cache's future behaviour depends on.
"""
from __future__ import annotations

import gc
import weakref

from .. import env
from ..core import Ctx, exc_site

import urwid
from urwid.canvas import CanvasCache

ID = "C06"
LEVEL = "model_checking"


class NoCacheBox(urwid.WidgetWrap):
    """a user widget that opts out of render caching"""

    no_cache = ["render"]  # noqa: RUF012

    def __init__(self, w):
        super().__init__(w)


class BareWalker:
    """duck-typed list walker without a 'modified' signal (ListBox then renders uncached)"""

    def __init__(self, items):
        self.items = items
        self.focus = 0

    def get_focus(self):
        if not self.items:
            return None, None
        return self.items[self.focus], self.focus

    def set_focus(self, pos):
        self.focus = pos

    def get_next(self, pos):
        if pos + 1 < len(self.items):
            return self.items[pos + 1], pos + 1
        return None, None

    def get_prev(self, pos):
        if pos > 0:
            return self.items[pos - 1], pos - 1
        return None, None


class Fixture:
    def __init__(self, root, obs, ops, describe, widgets):
        self.root = root
        self.obs = obs  # [(size, focus)]
        self.ops = ops  # {name: callable}
        self.describe = describe
        self.widgets = widgets


def fx1(pre=None):
    t = urwid.Text("hello")
    e = urwid.Edit("c:", "ab")
    cb = urwid.CheckBox("x")
    zz = urwid.Text("zz")
    cols = urwid.Columns([cb, zz])
    walker = urwid.SimpleFocusListWalker([t, e, cols])
    lb = urwid.ListBox(walker)
    hdr = urwid.Text("H")
    am = urwid.AttrMap(hdr, "a", "b")
    fr = urwid.Frame(lb, header=am)
    S = (8, 4)
    ops = {
        "t.set_text": lambda: t.set_text("hello world wrap" if t.text == "hello" else "hello"),
        "hdr.set_text": lambda: hdr.set_text("H2\nH3" if hdr.text == "H" else "H"),
        "am.set_attr_map": lambda: am.set_attr_map({None: "q"} if am.attr_map == {None: "a"} else {None: "a"}),
        "am.set_focus_map": lambda: am.set_focus_map({None: "r"}),
        "cb.toggle": lambda: cb.set_state(not cb.state),
        "key x": lambda: fr.keypress(S, "x"),
        "key down": lambda: fr.keypress(S, "down"),
        "key up": lambda: fr.keypress(S, "up"),
        "key home": lambda: fr.keypress(S, "home"),
        "key end": lambda: fr.keypress(S, "end"),
        "lb.set_focus last,above": lambda: lb.set_focus(len(walker) - 1, "above") if len(walker) else None,
        "click row2": lambda: fr.mouse_event(S, "mouse press", 1, 1, 2, True),
        "walker.insert": lambda: walker.insert(0, urwid.Text("new")) if len(walker) < 5 else None,
        "walker.pop": lambda: walker.pop(0) if len(walker) > 1 else None,
        "focus header": lambda: setattr(fr, "focus_position", "header"),
        "focus body": lambda: setattr(fr, "focus_position", "body"),
        "e.set_edit_text": lambda: e.set_edit_text("q" if e.edit_text != "q" else "ab"),
        "e.set_caption": lambda: e.set_caption("cap:" if e.caption == "c:" else "c:"),
        "t.align": lambda: t.set_align_mode("right" if t.align == "left" else "left"),
        "t.wrap": lambda: t.set_wrap_mode("clip" if t.wrap == "space" else "space"),
        "zz.set_text": lambda: zz.set_text("zz\nyy" if zz.text == "zz" else "zz"),
        "lb.valign": lambda: lb.set_focus_valign("bottom"),
    }

    def describe():
        return (t.text, t.align, t.wrap, hdr.text, repr(am.attr_map), repr(am.focus_map), cb.state, e.edit_text, e.edit_pos, e.caption, zz.text,
                tuple(id_of(w) for w in walker), lb.focus_position if len(walker) else None, lb.offset_rows, lb.inset_fraction, fr.focus_part, cols.focus_position,
                repr(lb.set_focus_pending), repr(lb.set_focus_valign_pending))

    widgets = [fr, lb, am, hdr, t, e, cols, cb, zz]

    def id_of(w):
        return widgets.index(w) if w in widgets else type(w).__name__

    if pre == "tall-last":
        # the last item is taller than the view and in focus with only its first row showing: 'end' changes the alignment, not the focus position
        walker.append(urwid.Text("T0\nT1\nT2\nT3\nT4"))
        lb.set_focus(len(walker) - 1, "above")
    return Fixture(fr, [((8, 4), True), ((8, 4), False), ((10, 3), True)], ops, describe, widgets)


def fx2():
    t1 = urwid.Text("aa")
    t2 = urwid.Text("bb")
    e = urwid.Edit("", "xy")
    ph = urwid.WidgetPlaceholder(urwid.Text("P"))
    pad = urwid.Padding(t2, "center", ("relative", 50))
    lbx = urwid.LineBox(e, "T")
    btns = [urwid.Button(f"b{i}") for i in range(3)]
    gf = urwid.GridFlow(btns, 6, 1, 0, "left")
    cols = urwid.Columns([t1, pad])
    pile = urwid.Pile([cols, lbx, gf, ph])
    top = urwid.Filler(pile, "top")
    S = (14, 9)
    ops = {
        "t1.set_text": lambda: t1.set_text("aaaa bbbb" if t1.text == "aa" else "aa"),
        "t2.set_text": lambda: t2.set_text("b\nb" if t2.text == "bb" else "bb"),
        "lbx.set_title": lambda: lbx.set_title("New" if lbx.title_widget.text.strip() == "T" else "T"),
        "ph.swap": lambda: setattr(ph, "original_widget", urwid.Text("Q\nR")),
        "pad.width": lambda: setattr(pad, "width", ("relative", 100)),
        "pad.align": lambda: setattr(pad, "align", "right"),
        "key a": lambda: top.keypress(S, "a"),
        "key down": lambda: top.keypress(S, "down"),
        "key right": lambda: top.keypress(S, "right"),
        "key enter": lambda: top.keypress(S, "enter"),
        "btn.set_label": lambda: btns[1].set_label("LONG" if btns[1].label == "b1" else "b1"),
        "gf.pop": lambda: gf.contents.pop(0) if len(gf.contents) > 1 else None,
        "gf.cell_width": lambda: setattr(gf, "cell_width", 8),
        "pile.focus": lambda: setattr(pile, "focus_position", 1 if pile.focus_position != 1 else 0),
        "cols.insert": lambda: cols.contents.insert(0, (urwid.Text("N"), cols.options("given", 2))) if len(cols.contents) < 4 else None,
        "cols.assign": lambda: cols.contents.__setitem__(0, (cols.contents[0][0], cols.options("given", 3))),
        "pile.pop": lambda: pile.contents.pop(0) if len(pile.contents) > 2 else None,
        "top.body": lambda: setattr(top, "body", urwid.Text("swapped")),
    }
    widgets = [top, pile, cols, t1, pad, t2, lbx, e, gf, *btns, ph]

    def describe():
        return (t1.text, t2.text, e.edit_text, e.edit_pos, lbx.title_widget.text, type(ph.original_widget).__name__ + str(getattr(ph.original_widget, "text", "")),
                str(pad.width), str(pad.align), tuple(b.label for b in btns), len(gf.contents), gf.cell_width, gf.focus_position if gf.contents else None,
                pile.focus_position, len(pile.contents), len(cols.contents), str(cols.contents[0][1]), cols.focus_position, type(top.body).__name__)

    return Fixture(top, [((14, 9), True), ((14, 9), False), ((10, 6), True)], ops, describe, widgets)


def fx3():
    e = urwid.Edit("", "ed")
    ph = urwid.WidgetPlaceholder(urwid.Filler(e))
    ht = urwid.Text("head")
    body = urwid.SolidFill(".")
    fr = urwid.Frame(body, header=ht)
    ov = urwid.Overlay(ph, fr, "center", 6, "middle", 3)
    S = (10, 6)
    ops = {
        "key z": lambda: ov.keypress(S, "z"),
        "key left": lambda: ov.keypress(S, "left"),
        "ht.set_text": lambda: ht.set_text("HEAD\nLINE" if ht.text == "head" else "head"),
        "ov.params": lambda: ov.set_overlay_parameters("left", 5, "top", 2),
        "ph.swap": lambda: setattr(ph, "original_widget", urwid.Filler(urwid.Text("T"))),
        "fr.footer": lambda: setattr(fr, "footer", urwid.Text("foot") if fr.footer is None else None),
        "fr.body": lambda: setattr(fr, "body", urwid.SolidFill("#")),
        "e.set_mask": lambda: e.set_mask("*" if e._mask is None else None),
        "e.insert_text": lambda: e.insert_text("i") if len(e.edit_text) < 5 else None,
    }
    widgets = [ov, ph, e, fr, ht, body]

    def describe():
        ow = ph.original_widget
        return (e.edit_text, e.edit_pos, e._mask, ht.text, str((ov.align, ov.width, ov.valign, ov.height)), type(ow.original_widget).__name__,
                fr.footer is not None, getattr(fr.body, "fill_char", None))

    return Fixture(ov, [((10, 6), True), ((10, 6), False), ((8, 5), True)], ops, describe, widgets)


def fx4():
    ts = [urwid.Text(f"l{i}") for i in range(4)]
    e = urwid.Edit("", "e")
    pile = urwid.Pile([*ts, e])
    sc = urwid.Scrollable(pile)
    sb = urwid.ScrollBar(sc)
    S = (8, 3)
    ops = {
        "key down": lambda: sb.keypress(S, "down"),
        "key page down": lambda: sb.keypress(S, "page down"),
        "key up": lambda: sb.keypress(S, "up"),
        "key q": lambda: sb.keypress(S, "q"),
        "set_scrollpos 2": lambda: sc.set_scrollpos(2),
        "set_scrollpos 0": lambda: sc.set_scrollpos(0),
        "ts0.set_text": lambda: ts[0].set_text("l0\nl0b" if ts[0].text == "l0" else "l0"),
        "pile.pop": lambda: pile.contents.pop(0) if len(pile.contents) > 2 else None,
        "sb.width": lambda: setattr(sb, "scrollbar_width", 2 if sb.scrollbar_width == 1 else 1),
        "sb.side": lambda: setattr(sb, "scrollbar_side", "left" if sb.scrollbar_side == "right" else "right"),
        "wheel down": lambda: sb.mouse_event(S, "mouse press", 5, 1, 1, True),
    }
    widgets = [sb, sc, pile, *ts, e]

    def describe():
        return (sc._trim_top, sc._scroll_action, sc._forward_keypress, tuple(t.text for t in ts), e.edit_text, e.edit_pos, len(pile.contents), pile.focus_position,
                sb.scrollbar_width, sb.scrollbar_side, sb._original_widget_size)

    return Fixture(sb, [((8, 3), True), ((8, 3), False), ((6, 4), True)], ops, describe, widgets)


def fx5():
    inner_t = urwid.Text("in")
    am = urwid.AttrMap(inner_t, "a")
    pad = urwid.Padding(am, "left", 7)
    other = urwid.Text("other")
    pile = urwid.Pile([pad, other])
    lb_t = urwid.Text("x")
    lbox = urwid.LineBox(lb_t)
    pad2 = urwid.Padding(lbox, "left", 6)
    zt = urwid.Text("")
    zpad = urwid.Padding(zt, "left", "pack")  # its child renders 0 columns wide while the text is empty
    top = urwid.Pile([pile, pad2, zpad])
    ops = {
        "zt.set_text": lambda: zt.set_text("ready" if zt.text == "" else ""),
        "inner.set_text": lambda: inner_t.set_text("inner" if inner_t.text == "in" else "in"),
        "pad.align": lambda: setattr(pad, "align", "right" if str(pad.align).endswith("left") or pad.align == "left" else "left"),
        "pad.width": lambda: setattr(pad, "width", 5 if pad.width == 7 else 7),
        "am.attr": lambda: am.set_attr_map({None: "b"}),
        "other.set_text": lambda: other.set_text("OTHER"),
        "lb_t.set_text": lambda: lb_t.set_text("xy" if lb_t.text == "x" else "x"),
        "pad2.align": lambda: setattr(pad2, "align", "center"),
    }
    widgets = [top, pile, pad, am, inner_t, other, pad2, lbox, lb_t, zpad, zt]

    def describe():
        return (inner_t.text, str(pad.align), str(pad.width), repr(am.attr_map), other.text, lb_t.text, str(pad2.align), zt.text)

    return Fixture(top, [((12,), False), ((15,), False), ((12,), True), ((9,), False)], ops, describe, widgets)


def fx6():
    """the same widget instance shown twice; uncached widgets (no_cache, ListBox over a walker without signals)"""
    t = urwid.Text("tw")
    am = urwid.AttrMap(t, "z")
    nc_t = urwid.Text("nc")
    nc = NoCacheBox(nc_t)
    lbx = urwid.LineBox(nc)
    w_items = [urwid.Text("w0"), urwid.Text("w1")]
    lb = urwid.ListBox(BareWalker(w_items))
    ba = urwid.BoxAdapter(lb, 2)
    pb = urwid.ProgressBar("n", "c", 10)
    pile = urwid.Pile([t, am, lbx, ba, pb])
    ops = {
        "t.set_text": lambda: t.set_text("twice" if t.text == "tw" else "tw"),
        "nc_t.set_text": lambda: nc_t.set_text("NC!" if nc_t.text == "nc" else "nc"),
        "w0.set_text": lambda: w_items[0].set_text("W0\nW0" if w_items[0].text == "w0" else "w0"),
        "w1.set_text": lambda: w_items[1].set_text("W1" if w_items[1].text == "w1" else "w1"),
        "pb.set_completion": lambda: pb.set_completion(70 if pb.current == 10 else 10),
        "ba.height": lambda: setattr(ba, "height", 3 if ba.height == 2 else 2),
        "pile.focus": lambda: setattr(pile, "focus_position", (pile.focus_position + 1) % len(pile.contents)),
    }
    widgets = [pile, t, am, lbx, nc, nc_t, ba, lb, *w_items, pb]

    def describe():
        return (t.text, nc_t.text, w_items[0].text, w_items[1].text, pb.current, ba.height, pile.focus_position)

    return Fixture(pile, [((10,), False), ((10,), True), ((7,), False)], ops, describe, widgets)


def fx7():
    """a Frame whose parts are widgets that do not invalidate themselves when clicked: only the Frame's own bookkeeping tells the cache that the focus part changed"""
    h = urwid.SelectableIcon("head", 0)
    b = urwid.SelectableIcon("body", 1)
    f = urwid.SelectableIcon("foot", 2)
    cols = urwid.Columns([urwid.SelectableIcon("c0", 0), urwid.SelectableIcon("c1", 1)])
    pile = urwid.Pile([b, cols])
    fr = urwid.Frame(urwid.Filler(pile, "top"), header=h, footer=f)
    S = (8, 5)
    ops = {
        "click header": lambda: fr.mouse_event(S, "mouse press", 1, 1, 0, True),
        "click body": lambda: fr.mouse_event(S, "mouse press", 1, 1, 1, True),
        "click cols1": lambda: fr.mouse_event(S, "mouse press", 1, 5, 2, True),
        "click footer": lambda: fr.mouse_event(S, "mouse press", 1, 1, 4, True),
        "focus header": lambda: setattr(fr, "focus_position", "header"),
        "focus footer": lambda: setattr(fr, "focus_position", "footer"),
        "focus body": lambda: setattr(fr, "focus_position", "body"),
        "key down": lambda: fr.keypress(S, "down"),
        "key up": lambda: fr.keypress(S, "up"),
        "key right": lambda: fr.keypress(S, "right"),
        "pile.focus": lambda: setattr(pile, "focus_position", 1 - pile.focus_position),
        "cols.focus": lambda: setattr(cols, "focus_position", 1 - cols.focus_position),
    }
    widgets = [fr, pile, cols, h, b, f]

    def describe():
        return (fr.focus_part, pile.focus_position, cols.focus_position)

    return Fixture(fr, [((8, 5), True), ((8, 5), False), ((6, 4), True)], ops, describe, widgets)


def fx8():
    """one item widget shown by two list boxes over the same walker (two panes), and one Text shown under two unrelated parents"""
    e = urwid.Edit("", "ed")
    t = urwid.Text("shared")
    walker = urwid.SimpleFocusListWalker([e, urwid.Text("row2")])
    lb1 = urwid.ListBox(walker)
    lb2 = urwid.ListBox(walker)
    p1 = urwid.Pile([t])
    p2 = urwid.Padding(t, left=1)
    top = urwid.Pile([("weight", 1, urwid.Columns([lb1, lb2])), ("pack", p1), ("pack", p2)])
    S = (12, 5)
    ops = {
        "key x": lambda: top.keypress(S, "x"),
        "key backspace": lambda: top.keypress(S, "backspace"),
        "e.set_edit_text": lambda: e.set_edit_text("EDIT" if e.edit_text != "EDIT" else "ed"),
        "t.set_text": lambda: t.set_text("SHARED!" if t.text == "shared" else "shared"),
        "key right": lambda: top.keypress(S, "right"),
        "key left": lambda: top.keypress(S, "left"),
        "walker.append": lambda: walker.append(urwid.Text("more")) if len(walker) < 4 else None,
        "walker.pop": lambda: walker.pop() if len(walker) > 1 else None,
    }
    widgets = [top, lb1, lb2, p1, p2, e, t]

    def describe():
        cols = top.contents[0][0]
        return (e.edit_text, e.edit_pos, t.text, len(walker), cols.focus_position, walker.focus)

    return Fixture(top, [((12, 5), True), ((12, 5), False), ((8, 4), True)], ops, describe, widgets)


def fx9():
    """children that take no room at first (a zero-width packed column, an empty Pile as a Pile item) and a clipped Edit whose view follows the cursor"""
    zt = urwid.Text("")
    cols = urwid.Columns([("pack", zt), urwid.Text("x")])
    inner = urwid.Pile([])
    e = urwid.Edit("", "0123456789abcdef", wrap="clip")
    e.set_edit_pos(16)
    other = urwid.Edit("", "o")
    top = urwid.Pile([cols, inner, e, other])
    S = (6,)
    ops = {
        "zt.set_text": lambda: zt.set_text("abc" if zt.text == "" else ""),
        "inner.append": lambda: inner.contents.append((urwid.Text("new"), inner.options())) if len(inner.contents) < 2 else None,
        "inner.clear": lambda: inner.contents.__setitem__(slice(None), []),
        "top.focus": lambda: setattr(top, "focus_position", 2 if top.focus_position != 2 else 3),
        "key left": lambda: top.keypress(S, "left"),
        "key home": lambda: top.keypress(S, "home"),
        "key end": lambda: top.keypress(S, "end"),
    }
    widgets = [top, cols, inner, e, other, zt]

    def describe():
        return (zt.text, len(inner.contents), e.edit_pos, top.focus_position, e._shift_view_to_cursor)

    return Fixture(top, [((6,), True), ((6,), False), ((9,), True)], ops, describe, widgets)


def fx10():
    """containers that are empty (and therefore falsy: they define __len__) when their ancestors are first rendered"""
    walker = urwid.SimpleFocusListWalker([])
    lb = urwid.ListBox(walker)
    fr = urwid.Frame(lb, header=urwid.Text("log"))
    cols = urwid.Columns([])
    gf = urwid.GridFlow([], 3, 1, 0, "left")
    inner = urwid.Pile([])
    top = urwid.Pile([("pack", urwid.Text("head")), ("pack", cols), ("pack", gf), ("pack", inner), ("weight", 1, fr)])
    ops = {
        "walker.append": lambda: walker.append(urwid.Text("first")) if len(walker) < 2 else None,
        "walker.clear": lambda: walker.__delitem__(slice(None)),
        "cols.append": lambda: cols.contents.append((urwid.Text("cell"), cols.options())) if len(cols.contents) < 2 else None,
        "cols.clear": lambda: cols.contents.__setitem__(slice(None), []),
        "gf.append": lambda: gf.contents.append((urwid.Text("g"), gf.options())) if len(gf.contents) < 2 else None,
        "inner.append": lambda: inner.contents.append((urwid.Text("in"), inner.options())) if len(inner.contents) < 2 else None,
        "inner.clear": lambda: inner.contents.__setitem__(slice(None), []),
    }
    widgets = [top, fr, lb, cols, gf, inner]

    def describe():
        return (len(walker), len(cols.contents), len(gf.contents), len(inner.contents))

    return Fixture(top, [((8, 6), False), ((8, 6), True), ((10, 7), False)], ops, describe, widgets)


def fx11():
    """a ListBox drawn at two heights (the taller view shows items the shorter one does not)"""
    rows = [urwid.Text(f"row {i}") for i in range(4)]
    lb = urwid.ListBox(urwid.SimpleFocusListWalker(rows))
    ops = {
        "rows[3].set_text": lambda: rows[3].set_text("CHANGED" if rows[3].text == "row 3" else "row 3"),
        "rows[0].set_text": lambda: rows[0].set_text("changed" if rows[0].text == "row 0" else "row 0"),
        "rows[2].set_text": lambda: rows[2].set_text("two\nlines" if rows[2].text == "row 2" else "row 2"),
    }

    def describe():
        return tuple(r.text for r in rows)

    return Fixture(lb, [((10, 4), True), ((10, 2), True), ((10, 3), False)], ops, describe, [lb, *rows])


def fx12():
    """packed columns at a width where the trailing one does not fit (it is dropped, not given width 0) until its text shrinks"""
    left = urwid.Text("aaaa")
    right = urwid.Text("bbbbbbbb")
    cols = urwid.Columns([("pack", left), ("pack", right)], dividechars=1)
    ops = {
        "right.set_text": lambda: right.set_text("bb" if right.text != "bb" else "bbbbbbbb"),
        "left.set_text": lambda: left.set_text("a" if left.text != "a" else "aaaa"),
        "cols.focus": lambda: setattr(cols, "focus_position", 1 - cols.focus_position),
    }

    def describe():
        return (left.text, right.text, cols.focus_position)

    return Fixture(cols, [((8,), False), ((8,), True), ((20,), False)], ops, describe, [cols, left, right])


FIXTURES = [("frame-icons", fx7), ("empty-containers", fx10), ("listbox-two-heights", fx11), ("packed-columns-narrow", fx12), ("hidden-children", fx9), ("shared-children", fx8), ("frame-listbox-tall", lambda: fx1("tall-last")), ("frame-listbox", fx1), ("filler-pile", fx2), ("overlay", fx3), ("scrollbar", fx4), ("padding", fx5), ("twice-uncached", fx6)]


def snapshot(c):
    return ([[(a, cs, bytes(t)) for a, cs, t in row] for row in c.content()], c.cursor, c.cols(), c.rows())


class St:
    def __init__(self, cfg, nocache):
        CanvasCache.clear()
        self.cfg = cfg
        self.nocache = nocache
        self.fx = FIXTURES[cfg][1]()
        self.held: list = []  # (canvas, snapshot at hand-out)
        self.outs: list = []  # observation outputs, in order
        self.shape = None
        self.seen: dict = {}  # id(cached canvas) -> (weakref, snapshot when first seen in the cache)
        self.alias_log: list = []
        # a running application has drawn the screen already: two initial renders, both kept alive
        for i in (1, 0):
            self.observe_render(i)

    def observe_render(self, i):
        if self.nocache:
            CanvasCache.clear()
        size, focus = self.fx.obs[i]
        try:
            c = self.fx.root.render(size, focus)
            snap = snapshot(c)
            self.held.append((c, snap))
            self.outs.append(("render", i, snap))
        except Exception as e:
            self.outs.append(("render", i, ("EXC", type(e).__name__, str(e)[:120], exc_site(e))))

    def observe_rows(self, i):
        if self.nocache:
            CanvasCache.clear()
        size, focus = self.fx.obs[i]
        try:
            if len(size) == 1:
                self.outs.append(("rows", i, self.fx.root.rows(size, focus)))
            else:
                self.outs.append(("rows", i, None))
        except Exception as e:
            self.outs.append(("rows", i, ("EXC", type(e).__name__, str(e)[:120], exc_site(e))))

    def track(self, op):
        """every canvas in the cache was handed to a parent (or the screen) as finalized: it must keep the content it had when first seen"""
        live = set()
        for w, sizes in list(CanvasCache._widgets.items()):
            for key, ref in list(sizes.items()):
                c = ref()
                if c is None:
                    continue
                live.add(id(c))
                old = self.seen.get(id(c))
                try:
                    now = snapshot(c)
                except Exception as e:  # noqa: BLE001
                    now = ("EXC", type(e).__name__, 0, 0)
                if old is not None and old[0]() is c:
                    if now != old[1]:
                        self.alias_log.append((type(w).__name__, key[1], tuple(old[1][2:]), tuple(now[2:]), op))
                        self.seen[id(c)] = (old[0], now)
                else:
                    self.seen[id(c)] = (weakref.ref(c), now)
        for k in [k for k in self.seen if k not in live]:
            del self.seen[k]

    def do(self, op):
        self._do(op)
        if not self.nocache:
            self.track(op)

    def _do(self, op):
        k = op[0]
        if k == "render":
            self.observe_render(op[1])
        elif k == "rows":
            self.observe_rows(op[1])
        elif k == "drop":
            if op[1] == "oldest":
                if self.held:
                    del self.held[0]
            elif op[1] == "newest":
                if self.held:
                    del self.held[-1]
            elif op[1] == "old":
                del self.held[:-1]
            else:
                del self.held[:]
            gc.collect()
        else:
            try:
                self.fx.ops[op[1]]()
            except Exception as e:
                self.outs.append(("op", op[1], ("EXC", type(e).__name__, exc_site(e))))

    def cache_shape(self):
        ws = self.fx.widgets

        def wid(w):
            for i, x in enumerate(ws):
                if x is w:
                    return i
            return type(w).__name__

        ent = []
        for w, sizes in CanvasCache._widgets.items():
            for (wcls, size, focus), ref in sizes.items():
                if ref() is not None:
                    ent.append((str(wid(w)), wcls.__name__, size, focus))
        deps = []
        for w, lst in CanvasCache._deps.items():
            deps.append((str(wid(w)), tuple(sorted(str(wid(x)) for x in lst))))
        return (tuple(sorted(ent)), tuple(sorted(deps)))


class Spec:
    def __init__(self, tier):
        self.tier = tier

    def configs(self, tier):
        return list(range(len(FIXTURES)))

    def build(self, cfg):
        env.reset("utf-8")
        st = St(cfg, nocache=False)
        st.shape = st.cache_shape()
        st.hist = ()
        return st

    def key(self, cfg, st):
        return (st.fx.describe(), st.shape, len(st.held))

    def ops(self, cfg, st):
        out = [("render", i) for i in range(len(st.fx.obs))]
        out += [("rows", i) for i, (size, f) in enumerate(st.fx.obs) if len(size) == 1][:2]
        out += [("drop", "oldest"), ("drop", "newest"), ("drop", "all")]
        out += [("mut", name) for name in st.fx.ops]
        return out

    def apply(self, cfg, st: St, op, ctx: Ctx, hist):
        name = FIXTURES[cfg][0]
        case = {"fixture": name, "hist": hist + (op,)}
        ctx.count("evaluations")

        def V(clause, detail, feat=""):
            ctx.violation(clause, f"C06/{clause}/{name}{('/' + feat) if feat else ''}", case, detail)

        n_before = len(st.outs)
        st.do(op)
        st.hist = hist + (op,)
        new_outs = st.outs[n_before:]
        # handed-out canvases must not change afterwards
        for c, snap in st.held:
            try:
                now = snapshot(c)
            except Exception as e:
                V("handed-out-immutable", f"a canvas handed out earlier can no longer be read after {op!r}: {type(e).__name__}: {e}", op[1] if op[0] == "mut" else op[0])
                continue
            if now != snap:
                V("handed-out-immutable", f"a canvas handed out earlier changed after {op!r}: {snap[2]}x{snap[3]} -> {now[2]}x{now[3]}", op[1] if op[0] == "mut" else op[0])
        for wname, size, was, now, _op in st.alias_log:
            V("cached-canvas-immutable", f"the cached canvas of a {wname} at size {size} changed from {was[0]}x{was[1]} to {now[0]}x{now[1]} (or in content) after {op!r}: "
              "a canvas shared with a parent was modified in place", wname)
        del st.alias_log[:]
        st.shape = st.cache_shape()
        if ctx.muted:
            return True
        if op[0] in ("render", "rows") or any(o[0] == "op" for o in new_outs):
            # the twin: same history from scratch with the cache emptied before every observation
            tw = St(cfg, nocache=True)
            for h in st.hist:
                tw.do(h)
            if len(tw.outs) != len(st.outs):
                V("harness", f"twin produced {len(tw.outs)} observations, cached run {len(st.outs)}")
            else:
                a, b = st.outs[-1], tw.outs[-1]
                ctx.obs(op, repr(a)[:200])
                if a != b:
                    feat = hist[-1][1] if hist and hist[-1][0] == "mut" else (hist[-1][0] if hist else "")
                    what = "rows()" if a[0] == "rows" else "render()"
                    V("same-render" if a[0] != "rows" else "same-rows",
                      f"{what} at {st.fx.obs[a[1]] if a[0] != 'op' else a[1]} with the cache: {str(a[2])[:300]}; with the cache emptied first: {str(b[2])[:300]}", str(feat))
                elif isinstance(a[2], tuple) and a[2] and a[2][0] == "EXC":
                    ctx.count("observations-raising-in-both-runs")
            # restore the cache of the cached run is impossible (the twin cleared it): rebuild the cached state
            CanvasCache.clear()
            st2 = St(cfg, nocache=False)
            for h in st.hist:
                st2.do(h)
            st.fx, st.held, st.outs, st.seen = st2.fx, st2.held, st2.outs, st2.seen
            st.shape = st.cache_shape()
            ctx.distinct("nontrivial", (cfg, st.fx.describe(), st.shape))
        return True


def script_task(task, ctx: Ctx):
    """beyond the BFS depth: change, redraw at one point, release every older canvas (+ gc), change again, redraw - for every pair of mutators and every point"""
    (cfg,) = task
    env.reset("utf-8")
    name = FIXTURES[cfg][0]
    probe = St(cfg, nocache=False)
    muts = list(probe.fx.ops)
    npts = len(probe.fx.obs)
    for m1 in muts:
        for m2 in muts:
            for j in range(npts):
                hist = (("mut", m1), ("render", j), ("drop", "old"), ("mut", m2), ("render", j))
                ctx.count("evaluations")
                a = St(cfg, nocache=False)
                for h in hist:
                    a.do(h)
                b = St(cfg, nocache=True)
                for h in hist:
                    b.do(h)
                case = {"fixture": name, "hist": hist}
                if len(a.outs) != len(b.outs):
                    ctx.violation("harness", f"C06/harness/{name}/script", case, f"twin produced {len(b.outs)} observations, cached run {len(a.outs)}")
                    continue
                for x, y in zip(a.outs, b.outs):
                    if x != y and x[0] == "render":
                        ctx.violation("same-render", f"C06/same-render/{name}/script/{m2}", case,
                                      f"render at {a.fx.obs[x[1]]} with the cache: {str(x[2])[:300]}; with the cache emptied first: {str(y[2])[:300]}")
                        break
                else:
                    ctx.distinct("nontrivial", ("script", name, m1, m2, j))
    CanvasCache.clear()


def run(tier, R):
    depth = 3 if tier == "quick" else 4
    spec = Spec(tier)
    res = R.bfs(spec, depth=depth, max_states=2_000_000)
    R.run_tasks(script_task, [(i,) for i in range(len(FIXTURES))], recheck=0.0)
    cov = {
        "states": res["states"],
        "transitions": res["transitions"],
        "traces_validated_against_impl": int(R.ctx.counts.get("evaluations", 0)),
        "evaluations": res["transitions"],
        "distinct_nontrivial": len(R.ctx.sets.get("nontrivial", ())),
        "rule": "plus, per fixture, every script (mutator m1, redraw at point j, release all older canvases + gc, mutator m2, redraw at j) for all m1, m2, j; " f"BFS depth {depth} from {len(FIXTURES)} fixtures (Frame/ListBox/Columns/AttrMap; Filler/Pile/Columns/Padding/LineBox/GridFlow/placeholder; Overlay/Frame/placeholder; "
        "ScrollBar/Scrollable/Pile; nested Padding/AttrMap/LineBox; the same widget twice + no_cache widget + ListBox over a signal-less walker), each already rendered twice with "
        "both canvases kept alive; ops: render at 3-4 (size, focus) points, rows(), every public mutator / key / click of the fixture (8-19 per fixture), drop oldest / newest / all "
        "handed-out canvases + gc; each observation compared with a from-scratch twin run that empties the cache before every observation; handed-out canvases re-read after every "
        "step; dedup on (widget state, live cache entries and dependency edges, canvases held). non-trivial = distinct (state, cache shape) at observations",
        "exhaustive": not res["capped"],
        "bfs_levels": res["levels"],
        "bound": {"depth": res["depth"], "capped": res["capped"]},
    }
    return {
        "coverage": cov,
        "assumptions": [
            "CPython reference counting: dropping the last reference to a canvas and gc.collect() runs CanvasCache.cleanup deterministically",
            "the twin differs from the cached run only in CanvasCache.clear() before observations; per-widget layout caches behave identically in both runs",
            "an observation that raises the same exception in both runs is not a cache difference (C01 owns render failures)",
        ],
    }


def replay(case, ctx):
    names = [f[0] for f in FIXTURES]
    cfg = names.index(case["fixture"])

    def tup(p):
        return tuple(tup(x) if isinstance(x, (list, tuple)) else x for x in p)

    hist = tuple(tup(op) for op in case["hist"])
    spec = Spec("thorough")
    st = spec.build(cfg)
    for i, op in enumerate(hist):
        ctx.muted = False
        print(f"  step {i}: {op}")
        spec.apply(cfg, st, op, ctx, hist[:i])
    for sig, r in ctx.viol.items():
        print("  ->", sig, r["detail"][:500])
