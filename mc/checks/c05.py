"""C05 — terminal input decodes to the same events however it is fragmented.

E + S: (1) every byte string up to a length bound over a 24-byte alphabet, in three encoding
modes, through the real Screen.parse_input with a fake loop: no raise, raw bytes consumed left
to right, events equal to the reference decoder; (2) every documented sequence / mouse report /
cursor report / multi-byte character alone, doubled and followed by each alphabet byte: golden
names; (3) every way of cutting a stream into successive reads x completion time-out firing or
not after each cut (deviation-bounded): split-invariance, time-out flush, alarm hygiene.
"""
from __future__ import annotations

import itertools

from .. import env
from ..core import Ctx, exc_site, watchdog, WatchdogTimeout
from ..refs.keyref import KEYTABLE, UNSPECIFIED, ref_decode, sgr_mouse, x10_mouse

import urwid
from urwid import str_util
from urwid.display import raw

ID = "C05"
LEVEL = "model_checking"

ALPHA = [0x1B, ord("["), ord("O"), ord("<"), ord("M"), ord("m"), ord(";"), ord("0"), ord("1"), ord("9"), ord("~"), ord("A"),
         ord("R"), ord("a"), 0x20, 0x80, 0xC3, 0xA9, 0xE4, 0xBD, 0xA0, 0xA1, 0x7F, 0x0D]  # fmt: skip
MODES = {"utf8": "utf-8", "wide": "euc-jp", "narrow": "iso-8859-1"}


class _In:
    pass


class _Out:
    def write(self, x):
        pass

    def flush(self):
        pass


class FakeLoop:
    def __init__(self):
        self.alarms = {}
        self.n = 0
        self.max_outstanding = 0
        self.removed_missing = 0

    def alarm(self, sec, cb):
        self.n += 1
        self.alarms[self.n] = cb
        self.max_outstanding = max(self.max_outstanding, len(self.alarms))
        return self.n

    def remove_alarm(self, h):
        return self.alarms.pop(h, None) is not None


_SCREEN = None


class _NoEvents:
    """stands in for selectors.DefaultSelector in get_available_raw_input(): the resize pipe never has anything to drain here (saves two system calls per read)"""

    def __enter__(self):
        return self

    def __exit__(self, *a):
        return False

    def register(self, *a, **k):
        pass

    def select(self, timeout=None):
        return []


def screen():
    global _SCREEN
    if _SCREEN is None:
        _SCREEN = raw.Screen(input=_In(), output=_Out())
        import types

        from urwid.display import _raw_display_base as rdb

        rdb.selectors = types.SimpleNamespace(DefaultSelector=_NoEvents, EVENT_READ=1)
    s = _SCREEN
    s._partial_codes = []
    s._input_timeout = None
    s._resized = False
    return s


def deliver(chunks, fire_after=(), as_type=None):
    """Feed chunks through the real parse_input exactly as get_available_raw_input + the event loop would.
    fire_after: indices of chunks after which the completion time-out fires (if one is pending).
    Returns (events, raws, info)."""
    scr = screen()
    loop = FakeLoop()
    out = []
    raws = []
    flush_points = []

    def cb(keys, raw_):
        out.extend(keys)
        raws.extend(raw_)

    for i, ch in enumerate(chunks):
        # the real read path: get_available_raw_input() prepends what the last parse left over (an empty chunk is a wake-up without terminal bytes)
        scr._get_input_codes = lambda ch=ch: list(ch)
        codes = scr.get_available_raw_input()
        if as_type is not None:
            codes = as_type(codes)  # parse_input documents any sequence of byte values ("a bytearray is appropriate")
        scr.parse_input(loop, cb, codes)
        if i in fire_after and loop.alarms:
            (h, f) = next(iter(loop.alarms.items()))
            del loop.alarms[h]
            f()
            flush_points.append(i)
    stale = 0
    # end of session: every alarm still pending fires (a correct implementation has at most one, for pending bytes)
    guard = 0
    while loop.alarms and guard < 10:
        guard += 1
        if not scr._partial_codes:
            stale += 1
        (h, f) = next(iter(loop.alarms.items()))
        del loop.alarms[h]
        f()
    return out, raws, {"max_outstanding": loop.max_outstanding, "stale": stale, "flushed": flush_points, "left": list(scr._partial_codes)}


def sig_kind(stream):
    if not stream:
        return "empty"
    kinds = []
    if 0x1B in stream:
        kinds.append("esc")
    if any(b >= 0x80 for b in stream):
        kinds.append("high")
    return "+".join(kinds) or "ascii"


def check_whole(ctx: Ctx, mode, stream, strict_ref=True):
    """Whole delivery: no raise, raw == input, events == reference."""
    case = {"mode": mode, "stream": bytes(stream)}
    ctx.count("evaluations")
    try:
        with watchdog(5):
            ev, raws, info = deliver([list(stream)])
    except WatchdogTimeout:
        ctx.violation("terminates", f"C05/terminates/{mode}", case, "decoding did not terminate")
        return None
    except Exception as e:
        ctx.violation("no-raise", f"C05/no-raise/{mode}/{exc_site(e)}", case, f"{bytes(stream)!r}: {e!r}")
        return None
    if raws != list(stream):
        ctx.violation("left-to-right", f"C05/left-to-right/{mode}/{sig_kind(stream)}", case, f"raw codes handed to the callback {raws} != input {list(stream)}")
    want = ref_decode(stream, mode)
    if UNSPECIFIED in want:
        ctx.count("unspecified_streams")
    elif ev != want:
        ctx.violation("names", f"C05/decode-ref/{mode}/{sig_kind(stream)}", case, f"{bytes(stream)!r} decoded {ev}, reference {want}")
    if info["max_outstanding"] > 1 or info["stale"]:
        ctx.violation("alarm-hygiene", f"C05/alarm-hygiene/{mode}", case, f"alarms outstanding {info['max_outstanding']}, stale {info['stale']}")
    ctx.obs(mode, bytes(stream), ev)
    return ev


def cut_chunks(stream, cuts):
    parts = []
    prev = 0
    for c in cuts:
        parts.append(list(stream[prev:c]))
        prev = c
    parts.append(list(stream[prev:]))
    return parts


def check_split(ctx: Ctx, mode, stream, whole, max_cuts, timeouts):
    """All cut sets (up to max_cuts cuts) x time-out firing after each cut (up to `timeouts` firings)."""
    n = len(stream)
    case0 = {"mode": mode, "stream": bytes(stream)}
    for k in range(1, min(max_cuts, n - 1) + 1):
        for cuts in itertools.combinations(range(1, n), k):
            chunks = cut_chunks(stream, cuts)
            for nf in range(0, min(timeouts, k) + 1):
                for fires in itertools.combinations(range(k), nf):
                    ctx.count("evaluations")
                    case = dict(case0, cuts=list(cuts), fires=list(fires))
                    try:
                        ev, raws, info = deliver(chunks, fire_after=set(fires))
                    except Exception as e:
                        ctx.violation("no-raise", f"C05/no-raise-split/{mode}/{exc_site(e)}", case, repr(e))
                        continue
                    if raws != list(stream):
                        ctx.violation("left-to-right", f"C05/left-to-right-split/{mode}/{'timeout' if fires else 'no-timeout'}", case, f"raw {raws} != input {list(stream)}")
                    if info["max_outstanding"] > 1 or info["stale"]:
                        ctx.violation("alarm-hygiene", f"C05/alarm-hygiene/{mode}/split", case, f"alarms outstanding {info['max_outstanding']}, stale alarms fired at the end {info['stale']}")
                    if not info["flushed"]:
                        if ev != whole:
                            ctx.violation("split-invariant", f"C05/split-invariant/{mode}/{sig_kind(stream)}", case, f"whole: {whole}; split at {cuts}: {ev}")
                    else:
                        # each time-out decodes the pending bytes as they stand: the stream is the concatenation of
                        # independently decoded pieces delimited by the flush points
                        exp = []
                        prev = 0
                        for fi in info["flushed"]:
                            end = cuts[fi]
                            exp += ref_decode(stream[prev:end], mode)
                            prev = end
                        exp += ref_decode(stream[prev:], mode)
                        if ev != exp:
                            ctx.violation("timeout-flush", f"C05/timeout-flush/{mode}/{sig_kind(stream)}", case, f"time-out after cut(s) {[cuts[f] for f in info['flushed']]}: got {ev}, expected {exp}")
                        ctx.count("timeout_executions")
                    ctx.obs(cuts, fires, ev)
            # one wake-up without terminal bytes (a resize, another descriptor) after any one cut: nothing may be lost or invented
            for j in range(k):
                ctx.count("evaluations")
                case = dict(case0, cuts=list(cuts), empty_after=j)
                ch2 = chunks[: j + 1] + [[]] + chunks[j + 1 :]
                try:
                    ev, raws, info = deliver(ch2)
                except Exception as e:
                    ctx.violation("no-raise", f"C05/no-raise-split/{mode}/empty-read/{exc_site(e)}", case, repr(e))
                    continue
                if ev != whole or raws != list(stream):
                    ctx.violation("split-invariant", f"C05/split-invariant/{mode}/empty-read/{sig_kind(stream)}", case, f"whole: {whole}; split at {cuts} with an empty read after cut {j}: {ev} (raw {raws})")
                if info["max_outstanding"] > 1 or info["stale"]:
                    ctx.violation("alarm-hygiene", f"C05/alarm-hygiene/{mode}/empty-read", case, f"alarms outstanding {info['max_outstanding']}, stale alarms fired at the end {info['stale']}")

            # the caller hands parse_input another sequence type (its docstring: "a bytearray is appropriate"); one cut is enough to leave a remainder
            if k == 1:
                for tname, typ in (("bytearray", bytearray), ("tuple", tuple)):
                    ctx.count("evaluations")
                    case = dict(case0, cuts=list(cuts), as_type=tname)
                    try:
                        ev, raws, info = deliver(chunks, as_type=typ)
                    except Exception as e:
                        ctx.violation("no-raise", f"C05/no-raise-split/{mode}/{tname}/{exc_site(e)}", case, repr(e))
                        continue
                    if ev != whole or list(raws) != list(stream):
                        ctx.violation("split-invariant", f"C05/split-invariant/{mode}/{tname}/{sig_kind(stream)}", case, f"whole: {whole}; split at {cuts} with codes given as {tname}: {ev} (raw {list(raws)})")


# ---------------------------------------------------------------- streams of part 2
def known_streams():
    out = []
    for s in KEYTABLE:
        out.append(("table", [0x1B, *s.encode("ascii")]))
    for b in range(256):
        for x, y in ((33, 33), (34, 255), (255, 33)):
            if b >= 32:
                out.append(("x10", [0x1B, ord("["), ord("M"), b, x, y]))
    for b in range(128):
        for fin in "Mm":
            for x, y in ((1, 1), (2, 223), (1000, 1)):
                out.append(("sgr", [0x1B, *f"[<{b};{x};{y}{fin}".encode("ascii")]))
    for y, x in ((1, 1), (24, 80), (9, 100), (100, 9)):
        out.append(("cpr", [0x1B, *f"[{y};{x}R".encode("ascii")]))
    return out


def utf8_streams():
    good = [("utf8char", list(c.encode("utf-8"))) for c in ("é", "你", "─", "\U0001f600", "ÿ", "߿", "ࠀ", "￿", "\U00010000", "\U0010ffff")]
    # well-formed lead + continuation bytes that the codec still rejects: over-long forms, a surrogate, beyond U+10FFFF
    bad = [("utf8bad", list(b)) for b in (b"\xc0\x80", b"\xc1\xbf", b"\xe0\x80\x80", b"\xe0\x9f\xbf", b"\xf0\x80\x80\x80", b"\xf0\x8f\xbf\xbf",
                                           b"\xed\xa0\x80", b"\xed\xbf\xbf", b"\xf4\x90\x80\x80", b"\xf5\x80\x80\x80", b"\xf7\xbf\xbf\xbf")]
    return good + bad


def wide_streams():
    return [("dbchar", list(b)) for b in (b"\xa4\xa2", b"\x81\x40", b"\xa4\x40", b"\xa1\x7e", b"\xfe\xfe", b"\xb0\xa1")]


def malformed_sgr():
    base = "[<0;1;1M"
    out = []
    for s in ("[<M", "[<m", "[<a;1;1M", "[<0;1M", "[<0;1;1;1M", "[<;1;1M", "[<0;;1M", "[<0;1;M", "[<0;1;1", "[<0;1;1a", "[<0:1:1M", "[<1;1;1m;"):
        out.append(("badsgr", [0x1B, *s.encode("ascii")]))
    for s in ("[0;1R", "[1;0R", "[;1R", "[1;R", "[01;1R", "[1;1r", "[1;1;1R", "[1R"):
        out.append(("badcpr", [0x1B, *s.encode("ascii")]))
    return out


def t_part1(task, ctx: Ctx):
    kind, mode, prefix, maxlen, do_split = task
    env.reset(MODES[mode])
    # 'p1x' tasks only take the strings strictly longer than 3 (shorter ones belong to the 'p1' tasks)
    lo = max(0, 4 - len(prefix)) if kind == "p1x" else 0
    for L in range(lo, maxlen - len(prefix) + 1):
        for rest in itertools.product(ALPHA, repeat=L):
            stream = [*prefix, *rest]
            whole = check_whole(ctx, mode, stream)
            if whole is not None and do_split and len(stream) > 1:
                check_split(ctx, mode, stream, whole, max_cuts=do_split[0], timeouts=do_split[1])
    ctx.sample({"part": 1, "mode": mode, "prefix": bytes(prefix), "maxlen": maxlen})
    env.reset("utf-8")


def t_part2(task, ctx: Ctx):
    _, mode, streams, max_cuts, timeouts = task
    env.reset(MODES[mode])
    for kind, s in streams:
        whole = check_whole(ctx, mode, s)
        if whole is None:
            continue
        ctx.distinct("nontrivial", (mode, bytes(s)))
        # exactly once + doubled + followed by every alphabet byte (nothing disturbed)
        check_whole(ctx, mode, s + s)
        for b in ALPHA:
            check_whole(ctx, mode, s + [b])
            check_whole(ctx, mode, [b] + s)
        n = len(s)
        check_split(ctx, mode, s, whole, max_cuts=max_cuts if n <= 10 else min(max_cuts, 3), timeouts=timeouts)
        s2 = s + s
        if len(s2) <= 12:
            w2 = check_whole(ctx, mode, s2)
            if w2 is not None:
                check_split(ctx, mode, s2, w2, max_cuts=2, timeouts=1)
    ctx.sample({"part": 2, "mode": mode, "first": [kind, bytes(s)] if streams else None, "n": len(streams)})
    env.reset("utf-8")


CONFUSABLE = [0xB2, 0xB3, 0xB9, ord(":"), ord("<"), ord("?"), 0x00, 0x7F, 0x80, 0xFF, ord(" "), ord("0"), ord("9"), ord(";"), ord("M"), ord("R"), 0x1B]


def t_part2b(task, ctx: Ctx):
    """Single-byte substitutions and deletions inside documented streams: still decoded per the reference."""
    _, mode, streams = task
    env.reset(MODES[mode])
    for kind, s in streams:
        for pos in range(1, len(s)):
            check_whole(ctx, mode, s[:pos] + s[pos + 1 :])
            for b in CONFUSABLE:
                if b != s[pos]:
                    check_whole(ctx, mode, s[:pos] + [b] + s[pos + 1 :])
                    check_whole(ctx, mode, s[:pos] + [b] + s[pos:])
    ctx.sample({"part": "2b", "mode": mode, "n": len(streams)})
    env.reset("utf-8")


# ---------------------------------------------------------------- part 3: the synchronous get_input() path with window resizes
SYNC_STREAMS = [b"a", b"ab", b"\x1b[A", b"\x1b[Ab", b"\xc3\xa9", b"\x1b[<0;3;4M", b"\x1bOPq", b"a\x1b[5~"]


def sync_run(chunks_, sched):
    """get_input() called until the schedule of wake-ups is used up (+3 calls).  A wake-up = (deliver the next chunk?, SIGWINCH arrived?)."""
    scr = screen()
    scr._started = True
    scr.prev_input_resize = 0
    todo = list(chunks_)
    wakes = list(sched)
    cur = {"codes": []}

    def wait(timeout):
        cur["codes"] = []
        if wakes:
            d, r = wakes.pop(0)
            if d and todo:
                cur["codes"] = list(todo.pop(0))
            if r:
                scr._resized = True  # what the SIGWINCH handler does
        return []

    scr._wait_for_input_ready = wait
    scr._get_input_codes = lambda: cur.pop("codes", []) or []
    keys, raws = [], []
    calls = 0
    try:
        while (wakes or calls < 1) and calls < 40:
            calls += 1
            k, r = scr.get_input(raw_keys=True)
            keys.extend(k)
            raws.extend(r)
        for _ in range(3):
            k, r = scr.get_input(raw_keys=True)
            keys.extend(k)
            raws.extend(r)
    finally:
        del scr._wait_for_input_ready
        scr._started = False
        scr._resized = False
    return keys, raws


def t_sync(task, ctx: Ctx):
    _, mode, stream, depth = task
    env.reset(MODES[mode])
    stream = list(stream)
    want = ref_decode(stream, mode)
    n = len(stream)
    for k in range(0, min(2, n - 1) + 1):
        for cuts in itertools.combinations(range(1, n), k):
            chunks_ = cut_chunks(stream, cuts)
            for L in range(len(chunks_), depth + 1):
                for sched in itertools.product(((True, False), (False, True), (True, True), (False, False)), repeat=L):
                    if sum(1 for d, _ in sched if d) != len(chunks_) or not any(r for _, r in sched):
                        continue
                    ctx.count("evaluations")
                    case = {"mode": mode, "stream": bytes(stream), "cuts": list(cuts), "sync": [list(x) for x in sched]}
                    try:
                        with watchdog(5):
                            keys, raws = sync_run(chunks_, sched)
                    except WatchdogTimeout:
                        ctx.violation("terminates", f"C05/terminates/{mode}/get_input", case, "get_input did not terminate")
                        continue
                    except Exception as e:
                        ctx.violation("no-raise", f"C05/no-raise-sync/{mode}/{exc_site(e)}", case, repr(e))
                        continue
                    got = [x for x in keys if x != "window resize"]
                    if got != want:
                        ctx.violation("exactly-once", f"C05/exactly-once/{mode}/get_input-with-resize", case, f"get_input() calls returned {keys} in all; the stream decodes to {want}")
                    if raws != stream:
                        ctx.violation("left-to-right", f"C05/left-to-right-sync/{mode}", case, f"raw codes {raws} != input {stream}")
                    ctx.obs(mode, bytes(stream), cuts, sched, tuple(map(str, keys)))
                    ctx.distinct("nontrivial", ("sync", mode, bytes(stream), cuts, sched))
    env.reset("utf-8")


def dispatch(task, ctx):
    return {"p1": t_part1, "p1x": t_part1, "p2": t_part2, "p2b": t_part2b, "sync": t_sync}[task[0]](task, ctx)


def chunks(lst, n):
    return [lst[i : i + n] for i in range(0, len(lst), n)]


def run(tier, R):
    tasks = []
    quick = tier == "quick"
    for mode in MODES:
        # part 1: all strings of length <= 3 with all cuts and time-outs; longer ones per tier
        tasks.append(("p1", mode, (), 0, None))
        for a in ALPHA:
            tasks.append(("p1", mode, (a,), 3, (2, 2)))
        for a, b in itertools.product(ALPHA, repeat=2):
            if quick:
                if a == 0x1B and b in (0x1B, ord("["), ord("O")):
                    for c in ALPHA:
                        tasks.append(("p1x", mode, (a, b, c), 5, (1, 1)))
                elif a == 0x1B:
                    tasks.append(("p1x", mode, (a, b), 5, None))
                else:
                    tasks.append(("p1x", mode, (a, b), 4, None))
            else:
                # (length 6 with two cuts for every ESC-prefixed triple, and splits of every length-5 string, are ~10^9 deliveries: did not fit the budget)
                if a == 0x1B and b in (0x1B, ord("["), ord("O")):
                    for c in ALPHA:
                        tasks.append(("p1x", mode, (a, b, c), 6, (2, 1)))
                elif a == 0x1B:
                    tasks.append(("p1x", mode, (a, b), 5, (2, 1)))
                else:
                    tasks.append(("p1x", mode, (a, b), 5, None))
                    tasks.append(("p1x", mode, (a, b), 4, (1, 1)))
    known = known_streams()
    for mode in MODES:
        extra = malformed_sgr() + (utf8_streams() if mode == "utf8" else wide_streams() if mode == "wide" else [])
        for part in chunks(known + extra, 40):
            tasks.append(("p2", mode, part, 9 if not quick else 2, 2 if not quick else 1))
    subs = [x for x in known if x[0] in ("cpr",)] + [x for x in known if x[0] == "sgr"][:: 16 if quick else 4] + [x for x in known if x[0] == "table"][:: 12 if quick else 3] + [x for x in known if x[0] == "x10"][:: 64 if quick else 16]
    for mode in MODES:
        for part in chunks(subs, 10):
            tasks.append(("p2b", mode, part))
    for mode in MODES:
        for st in SYNC_STREAMS:
            if mode != "utf8" and any(b >= 0x80 for b in st):
                continue
            tasks.append(("sync", mode, st, 5 if quick else 7))
    R.run_tasks(dispatch, tasks)
    ev = int(R.ctx.counts["evaluations"])
    cov = {
        "states": len(R.ctx.sets.get("nontrivial", ())),
        "transitions": ev,
        "traces_validated_against_impl": ev,
        "evaluations": ev,
        "distinct_nontrivial": len(R.ctx.sets.get("nontrivial", ())),
        "rule": "part 1: every byte string over a 24-byte alphabet (ESC [ O < M m ; 0 1 9 ~ A R a space 80 c3 a9 e4 bd a0 a1 DEL CR) up to length "
        f"{4 if quick else 5} ({5 if quick else '5, 6 after ESC ESC / ESC [ / ESC O,'} when ESC-prefixed) x 3 encoding modes, whole delivery vs the reference decoder, and every cut set "
        "(length <= 3: all cuts, <= 2 time-outs; longer: bounded cuts) x completion time-out firing or not after each cut; part 2b: every single-byte "
        "substitution/insertion/deletion from a 17-byte confusable set inside documented streams; part 2: all "
        f"{len(known)} documented streams (468 table sequences, X10 reports for every button byte, SGR reports buttons 0-127, CPR) + malformed SGR/CPR + "
        "multi-byte characters, alone, doubled, preceded and followed by each alphabet byte, and cut in every way "
        f"(<= {2 if quick else 9} cuts, <= {1 if quick else 2} time-outs); part 3: the synchronous get_input() path: 8 streams x <= 2 cuts x every schedule of "
        f"<= {5 if quick else 7} wake-ups, each delivering the next chunk and/or a window resize or nothing (resize throttling loop included): keys other than "
        "'window resize' equal the whole decode, raw codes equal the stream; codes handed over as bytearray / tuple after one cut. non-trivial = distinct (stream, cuts, time-outs) executions with a time-out + known streams",
        "exhaustive": True,
        "bounds": {"deviation_bound_timeouts": 1 if quick else 2},
    }
    return {
        "coverage": cov,
        "assumptions": [
            "golden key-name table mc/refs/keytable.json was frozen from the pinned tree's input_sequences (documented names)",
            "mouse and cursor reports follow xterm ctlseqs (X10: button byte - 32, coordinates - 33; SGR 1006: b;x;y with M/m)",
            "an unknown ESC sequence is passed through as 'meta <key>' followed by the remaining bytes, as documented for ESC-prefixed keys",
            "the fake event loop fires a pending completion alarm only between reads (after a cut), or at the end of the session",
        ],
    }


def replay(case, ctx):
    mode = case["mode"]
    env.reset(MODES[mode])
    stream = list(case["stream"])
    if "sync" in case:
        chunks_ = cut_chunks(stream, case["cuts"])
        sched = [tuple(x) for x in case["sync"]]
        print("get_input calls:", sync_run(chunks_, sched), "reference:", ref_decode(stream, mode))
        t_sync(("sync", mode, bytes(stream), len(sched)), ctx)
        env.reset("utf-8")
        return
    whole = check_whole(ctx, mode, stream)
    print("whole:", whole, "reference:", ref_decode(stream, mode))
    if "cuts" in case and whole is not None:
        chunks_ = cut_chunks(stream, case["cuts"])
        ev, raws, info = deliver(chunks_, fire_after=set(case.get("fires", ())))
        print("split:", ev, info)
        check_split(ctx, mode, stream, whole, max_cuts=len(case["cuts"]), timeouts=len(case.get("fires", ())) or 0)
    env.reset("utf-8")
