"""C19 — containers partition the available space exactly and proportionally.

Shape E: bounded-exhaustive enumeration of option lists x divider / minimum widths x focus x
available size for Columns and box Pile, and of align x size kind x minimum x margins x available
for Padding / Filler / Overlay, plus GridFlow geometries.  Children are recording, self-painting
probes (mc/probe.py): the sizes *received in render* and the place where each child is *drawn* are
judged, not only the helper's return value.
"""
from __future__ import annotations

import itertools
import math
import warnings

from .. import env
from ..core import Ctx, exc_site
from ..probe import Probe, NegativeDimension, cell_map

import urwid

ID = "C19"
LEVEL = "model_checking"


# ----------------------------------------------------------------------
# helpers
# ----------------------------------------------------------------------
def row_names(canv, y=0):
    cm = cell_map(canv)
    if y >= len(cm):
        return []
    return [(a[0] if isinstance(a, tuple) else a, ch - 65 if isinstance(a, tuple) else None) for ch, a in cm[y]]


def col_names(canv, x=0):
    out = []
    for row in cell_map(canv):
        if x < len(row):
            ch, a = row[x]
            out.append(a if isinstance(a, tuple) else None)
        else:
            out.append("?")
    return out


def quiet_sizing(w):
    """sizing(), or an empty set when urwid itself warns that the combination is unsupported (ill-typed tree)."""
    with warnings.catch_warnings(record=True) as rec:
        warnings.simplefilter("always")
        s = w.sizing()
    if any(issubclass(r.category, urwid.widget.WidgetWarning) for r in rec):
        return frozenset()
    return s


def guarded(ctx, V, what, fn):
    """run fn(); exceptions become violations; returns (ok, value)."""
    try:
        return True, fn()
    except NegativeDimension as e:
        V("no-negative", f"{what}: {e}")
    except Exception as e:
        V("no-raise", f"{what} raised {type(e).__name__}: {e}", site=exc_site(e))
    return False, None


# ----------------------------------------------------------------------
# part A: Columns
# ----------------------------------------------------------------------
def col_options(tier):
    if tier == "quick":
        return [("given", 1), ("given", 2), ("given", 4), ("pack", 1), ("pack", 3), ("packflow", 2),
                ("weight", 1), ("weight", 2), ("weight", 3), ("weight", 1.5), ("boxweight", 1)]
    return [("given", 1), ("given", 2), ("given", 3), ("given", 5), ("pack", 1), ("pack", 2), ("pack", 4),
            ("packflow", 2), ("packflow", 4), ("weight", 1), ("weight", 2), ("weight", 3), ("weight", 7), ("weight", 1.5), ("weight", 0.5),
            ("boxweight", 1), ("boxgiven", 2)]


COL_SMALL = [("given", 2), ("pack", 3), ("packflow", 2), ("weight", 1), ("weight", 2), ("weight", 7), ("boxweight", 1)]


def mk_col(i, opt):
    k, n = opt
    name = f"c{i}"
    if k == "given":
        return Probe(name, ("flow", "box"), (n, 1)), ("given", n, False)
    if k == "boxgiven":
        return Probe(name, ("box",), (n, 1)), ("given", n, True)
    if k == "pack":
        return Probe(name, ("fixed",), (n, 1)), ("pack", None, False)
    if k == "packflow":
        return Probe(name, ("flow", "fixed"), (n, 1)), ("pack", None, False)
    if k == "weight":
        return Probe(name, ("flow", "box"), (1, 1)), ("weight", n, False)
    if k == "boxweight":
        return Probe(name, ("box",), (1, 1)), ("weight", n, True)
    raise AssertionError(opt)


def build_columns(combo, div, minw, focus):
    ws = []
    probes = []
    for i, opt in enumerate(combo):
        p, o = mk_col(i, opt)
        probes.append(p)
        ws.append((p, urwid.Columns.options(*o)))
    c = urwid.Columns([], dividechars=div, min_width=minw)
    c.contents[:] = ws
    c.focus_position = focus
    for p in probes:
        del p.log[:]
    return c, probes


def own_width(opt, maxcol):
    k, n = opt
    if k in ("given", "boxgiven", "pack"):
        return n
    if k == "packflow":
        return min(n, maxcol)
    return None


def check_columns(ctx: Ctx, combo, div, minw, focus, maxcol, rows, persistent=None):
    """rows None = flow render (maxcol,), else box render (maxcol, rows)."""
    L = len(combo)
    size = (maxcol,) if rows is None else (maxcol, rows)
    case = {"part": "columns", "combo": combo, "div": div, "minw": minw, "focus": focus, "size": size}
    kinds = "+".join(sorted({o[0] for o in combo}))

    def V(clause, detail, site=""):
        ctx.violation(clause, f"C19/columns/{clause}/{'box' if rows else 'flow'}/{kinds}{('/' + site) if site else ''}", case, detail)

    urwid.CanvasCache.clear()
    c, probes = build_columns(combo, div, minw, focus)
    ctx.count("evaluations")
    ok, ws = guarded(ctx, V, "column_widths", lambda: list(c.column_widths(size, False)))
    if not ok:
        return
    if persistent is not None:
        # history clause: the same Columns object asked again after other sizes / focus positions
        pc = persistent
        if pc.focus_position != focus:
            pc.focus_position = focus
        ok2, ws2 = guarded(ctx, V, "column_widths (reused object)", lambda: list(pc.column_widths(size, False)))
        if ok2 and ws2 != ws:
            V("history-independent", f"fresh Columns gives {ws}, a reused one (earlier sizes/focus) gives {ws2}")
    raw = list(ws)
    ws = ws + [0] * (L - len(ws))
    ctx.obs(combo, div, minw, focus, size, ws)
    if len(raw) > L or any((not isinstance(w, int)) or isinstance(w, bool) or w < 0 for w in ws):
        V("non-negative-ints", f"widths {raw}")
        return
    vis = [i for i, w in enumerate(ws) if w > 0]
    if vis:
        ctx.distinct("nontrivial", ("col", combo, div, minw, focus, maxcol))
    total = sum(ws) + div * max(len(vis) - 1, 0)
    for i, opt in enumerate(combo):
        own = own_width(opt, maxcol)
        if own is not None and ws[i] not in (0, own):
            V("own-or-nothing", f"column {i} {opt} got width {ws[i]} (own size {own}); widths {ws}")
    if total > maxcol:
        V("not-exceed", f"widths {ws} + {len(vis) - 1} dividers of {div} = {total} > {maxcol}")
    wvis = [i for i in vis if combo[i][0] in ("weight", "boxweight")]
    if wvis and total != maxcol:
        V("fills-when-weighted", f"widths {ws}: total {total} != available {maxcol} with weighted column(s) {wvis} shown")
    need = own_width(combo[focus], maxcol)
    if need is None:
        need = minw
    if need <= maxcol and ws[focus] == 0:
        V("focus-kept", f"focus column {focus} ({combo[focus]}) needs {need} <= {maxcol} but is hidden: {ws}")
    if len(wvis) >= 2:
        fixed = sum(ws[i] for i in vis if i not in wvis) + div * (len(vis) - 1)
        rem = maxcol - fixed
        wt = sum(combo[i][1] for i in wvis)
        shares = {i: rem * combo[i][1] / wt for i in wvis}
        if not any(shares[i] < minw for i in wvis):
            for i in wvis:
                dev = abs(ws[i] - shares[i])
                if dev > 1 + 1e-9:
                    ctx.violation("proportional", f"C19/columns/proportional/weighted={len(wvis)}/off<{math.ceil(dev * 2) / 2}", case, f"weighted column {i} width {ws[i]} vs exact share {shares[i]:.2f} of {rem} (widths {ws}, min_width {minw})")
    # what the children actually receive, and where they are drawn
    if not vis:
        return
    ok, szs = guarded(ctx, V, "sizing", lambda: quiet_sizing(c))
    if not ok or (urwid.FLOW if rows is None else urwid.BOX) not in szs:
        ctx.count("render-skipped-mode-not-reported")
        return
    ok, canv = guarded(ctx, V, "render", lambda: c.render(size, False))
    if not ok:
        return
    # height handed to box columns in a flow render: the tallest *visible* non-box column (1 when there is none at all)
    maxh = rows if rows is not None else 1
    for i, p in enumerate(probes):
        rs = p.renders()
        for e in p.log:
            if e[0] in ("negative", "bad-dim"):
                V("no-negative", f"column {i} {combo[i]} was handed size {e[2]} in {e[1]}")
        if ws[i] == 0:
            if rs:
                V("child-size", f"hidden column {i} was rendered with {rs}")
            continue
        k = combo[i][0]
        if k == "pack":
            exp = ()
        elif k in ("boxweight", "boxgiven"):
            exp = (ws[i], maxh)
        elif k == "packflow":
            exp = (ws[i],)
        else:
            exp = (ws[i],) if rows is None else (ws[i], rows)
        got_sizes = [r[1] for r in rs]
        if rows is None and k in ("boxweight", "boxgiven") and len(got_sizes) == 1 and len(got_sizes[0]) == 2 and got_sizes[0][1] >= 0:
            # the height handed to a box column of a flow Columns is whatever the other columns need: only the width is judged
            got_sizes = [(got_sizes[0][0], maxh)]
        if got_sizes != [exp]:
            V("child-size", f"column {i} {combo[i]} width {ws[i]}: render sizes {[r[1] for r in rs]}, expected [{exp}] (widths {ws})")
    if canv.cols() != maxcol:
        V("canvas-width", f"canvas is {canv.cols()} columns wide, asked for {maxcol}")
        return
    exp_row = []
    for n, i in enumerate(vis):
        exp_row += [(f"c{i}", x) for x in range(ws[i])]
        if n < len(vis) - 1:
            exp_row += [(None, None)] * div
    exp_row += [(None, None)] * (maxcol - len(exp_row))
    got = row_names(canv, 0)
    if canv.rows() == 0:
        return
    if got != exp_row[:maxcol] and total <= maxcol:
        V("drawn-where-assigned", f"row 0 shows {got}, widths {ws} dividers {div} expect {exp_row}")


def columns_task(task, ctx: Ctx):
    _, combos, divs, minws, maxcols, tier = task
    env.reset("utf-8")
    for combo in combos:
        L = len(combo)
        for div in divs:
            for minw in minws:
                pc, _ = build_columns(combo, div, minw, 0)
                for focus in range(L):
                    for maxcol in maxcols:
                        check_columns(ctx, combo, div, minw, focus, maxcol, None, persistent=pc)
                        check_columns(ctx, combo, div, minw, focus, maxcol, 2)
                # same width asked again right after a focus move (the width cache is keyed on maxcol only)
                for maxcol in maxcols:
                    for focus in list(range(L)) + list(reversed(range(L))):
                        check_columns(ctx, combo, div, minw, focus, maxcol, None, persistent=pc)
                # another walk over the reused object in descending order
                for focus in reversed(range(L)):
                    for maxcol in reversed(maxcols):
                        check_columns(ctx, combo, div, minw, focus, maxcol, None, persistent=pc)


# ----------------------------------------------------------------------
# part B: box Pile
# ----------------------------------------------------------------------
def pile_options(tier):
    if tier == "quick":
        return [("given", 1), ("given", 2), ("pack", 1), ("pack", 2), ("weight", 1), ("weight", 2), ("weight", 3), ("weight", 1.5)]
    return [("given", 1), ("given", 2), ("given", 3), ("pack", 1), ("pack", 2), ("pack", 4), ("weight", 1), ("weight", 2),
            ("weight", 3), ("weight", 7), ("weight", 1.5), ("weight", 0.5)]


def build_pile(combo, focus):
    items = []
    probes = []
    for i, (k, n) in enumerate(combo):
        if k == "given":
            p = Probe(f"p{i}", ("box",), (1, n))
            o = ("given", n)
        elif k == "pack":
            p = Probe(f"p{i}", ("flow",), (1, n))
            o = ("pack", None)
        else:
            p = Probe(f"p{i}", ("box",), (1, 1))
            o = ("weight", n)
        probes.append(p)
        items.append((p, o))
    pile = urwid.Pile([])
    pile.contents[:] = items
    pile.focus_position = focus
    for p in probes:
        del p.log[:]
    return pile, probes


def check_pile(ctx: Ctx, combo, focus, maxcol, maxrow, in_focus=False):
    """in_focus: the Pile is measured and rendered with focus=True and its focus item, a packed one, takes one more row while in focus"""
    size = (maxcol, maxrow)
    case = {"part": "pile", "combo": combo, "focus": focus, "size": size}
    kinds = "+".join(sorted({o[0] for o in combo}))
    if in_focus:
        case["in_focus"] = True
        kinds += "/in-focus"

    def V(clause, detail, site=""):
        ctx.violation(clause, f"C19/pile/{clause}/{kinds}{('/' + site) if site else ''}", case, detail)

    urwid.CanvasCache.clear()
    pile, probes = build_pile(combo, focus)
    if in_focus:
        probes[focus].focus_extra = 1
        combo = tuple((k, n + 1) if i == focus else (k, n) for i, (k, n) in enumerate(combo))
    ctx.count("evaluations")
    ok, rs = guarded(ctx, V, "get_item_rows", lambda: list(pile.get_item_rows(size, in_focus)))
    if not ok:
        return
    ctx.obs(combo, focus, size, rs)
    if len(rs) != len(combo) or any((not isinstance(r, int)) or isinstance(r, bool) or r < 0 for r in rs):
        V("non-negative-ints", f"rows {rs}")
        return
    ctx.distinct("nontrivial", ("pile", combo, maxrow))
    fixed = 0
    for i, (k, n) in enumerate(combo):
        if k in ("given", "pack"):
            fixed += n
            if rs[i] != n:
                V("own-size", f"item {i} {combo[i]} got {rs[i]} rows; rows {rs}")
    wi = [i for i, (k, n) in enumerate(combo) if k == "weight"]
    rem = max(maxrow - fixed, 0)
    if fixed <= maxrow and sum(rs) != maxrow:
        V("fills-when-weighted", f"rows {rs} sum {sum(rs)} != available {maxrow}")
    if fixed > maxrow and any(rs[i] for i in wi):
        V("not-exceed", f"fixed items need {fixed} > {maxrow} rows but weighted items got {[rs[i] for i in wi]}")
    wt = sum(combo[i][1] for i in wi)
    for i in wi:
        share = rem * combo[i][1] / wt
        dev = abs(rs[i] - share)
        if dev > 1 + 1e-9:
            # signature carries how many weighted items take part and how far off the share is (in half rows)
            ctx.violation("proportional", f"C19/pile/proportional/weighted={len(wi)}/off<{math.ceil(dev * 2) / 2}", case,
                          f"weighted item {i} rows {rs[i]} vs exact share {share:.2f} of {rem} (rows {rs})")
    if urwid.BOX not in pile.sizing():
        V("no-raise", f"Pile with a weighted box item does not report box sizing: {pile.sizing()}")
        return
    ok, canv = guarded(ctx, V, "render", lambda: pile.render(size, in_focus))
    if not ok:
        return
    for i, p in enumerate(probes):
        for e in p.log:
            if e[0] in ("negative", "bad-dim"):
                V("no-negative", f"item {i} {combo[i]} was handed size {e[2]} in {e[1]}")
        got = [r[1] for r in p.renders()]
        k = combo[i][0]
        if k == "pack":
            exp = [(maxcol,)]
        elif rs[i] == 0:
            exp = []
        else:
            exp = [(maxcol, rs[i])]
        if got != exp:
            V("child-size", f"item {i} {combo[i]} rows {rs[i]}: render sizes {got}, expected {exp} (rows {rs})")
    if canv.rows() != maxrow:
        V("canvas-rows", f"canvas has {canv.rows()} rows, asked for {maxrow}")
        return
    exp_col = []
    for i, r in enumerate(rs):
        exp_col += [(f"p{i}", y) for y in range(r)]
    exp_col = (exp_col + [None] * maxrow)[:maxrow]
    got = col_names(canv, 0)
    if got != exp_col:
        V("drawn-where-assigned", f"column 0 shows {got}, rows {rs} expect {exp_col}")


def pile_task(task, ctx: Ctx):
    _, combos, maxrows = task
    env.reset("utf-8")
    for combo in combos:
        if not any(k == "weight" for k, n in combo):
            continue
        for focus in range(len(combo)):
            for maxrow in maxrows:
                check_pile(ctx, combo, focus, 3, maxrow)
                if combo[focus][0] == "pack":
                    check_pile(ctx, combo, focus, 3, maxrow, in_focus=True)


# ----------------------------------------------------------------------
# part C/D: Padding and Filler (same arithmetic on the two axes)
# ----------------------------------------------------------------------
ALIGNS = [("left", 0), ("center", 50), ("right", 100), ("relative", 0), ("relative", 10), ("relative", 25),
          ("relative", 50), ("relative", 75), ("relative", 100)]
VNAMES = {"left": "top", "center": "middle", "right": "bottom"}


def size_kinds(tier):
    out = [("given", n) for n in range(1, 7)]
    out += [("relative", p) for p in (10, 25, 40, 55, 70, 85, 100)]
    out += [("pack", n) for n in (1, 3, 5)]
    out += [("clip", n) for n in (1, 3, 5)]
    return out


def wanted(kind, amount, beside, total, minimum):
    """set of acceptable requested sizes"""
    if kind in ("given", "clip"):
        return {amount}
    if kind == "pack":
        return {min(amount, max(beside, minimum or 0))}
    acc = set()
    for basis in (max(beside, 0), total):
        exact = basis * amount / 100
        for w in range(0, total + 2):
            if abs(w - exact) <= 0.5 + 1e-9:
                acc.add(max(w, minimum) if minimum is not None else w)
    return acc


def judge_axis(V, what, kind, amount, align_pct, minimum, m0, m1, avail, a, b):
    """a, b = margins before/after computed by the implementation; child = avail - a - b."""
    child = avail - a - b
    beside = avail - m0 - m1
    if not all(isinstance(v, int) and not isinstance(v, bool) for v in (a, b)):
        V("no-negative", f"{what}: margins {a!r}, {b!r} are not integers")
        return None
    if kind != "clip" and (a < 0 or b < 0):
        V("no-negative", f"{what}: negative margin ({a}, {b})")
        return None
    if child < 0:
        V("no-negative", f"{what}: child dimension {child} (margins {a}, {b} of {avail})")
        return None
    want = wanted(kind, amount, beside, avail, minimum)
    fitting = {w for w in want if w <= beside}
    if kind == "clip":
        if child != amount:
            V("child-size", f"{what}: clip child of natural size {amount} handed {child}")
        if amount <= beside:
            spare = beside - amount
            if a < m0 or b < m1 or abs((a - m0) - spare * align_pct / 100) >= 1:
                V("split", f"{what}: margins ({a}, {b}) for fixed ({m0}, {m1}), spare {spare}, align {align_pct}%")
        return child
    if fitting:
        if child not in fitting:
            V("child-size", f"{what}: requested {sorted(want)} fits beside margins ({m0}, {m1}) in {avail} but child got {child}")
            return child
        spare = beside - child
        if a < m0 or b < m1:
            V("exact-fill", f"{what}: margins ({a}, {b}) smaller than the fixed margins ({m0}, {m1}) although the child fits")
        elif abs((a - m0) - spare * align_pct / 100) >= 1:
            V("split", f"{what}: spare {spare} split as ({a - m0}, {b - m1}) at align {align_pct}%")
    else:
        acc = {min(w, avail) for w in want}
        if beside >= 1:
            acc.add(beside)
        if child not in acc:
            V("child-size", f"{what}: requested {sorted(want)} does not fit beside ({m0}, {m1}) in {avail}; child got {child}, accepted {sorted(acc)}")
    return child


def check_padding(ctx: Ctx, kind, amount, align, minimum, left, right, maxcol, rows):
    size = (maxcol,) if rows is None else (maxcol, rows)
    case = {"part": "padding", "width": (kind, amount), "align": align, "min_width": minimum, "left": left, "right": right, "size": size}

    def V(clause, detail, site=""):
        ctx.violation(clause, f"C19/padding/{clause}/{kind}/{'box' if rows else 'flow'}{('/' + site) if site else ''}", case, detail)

    urwid.CanvasCache.clear()
    if kind == "pack":
        child = Probe("k", ("flow", "fixed") if rows is None else ("flow", "fixed", "box"), (amount, 1))
        width = "pack"
    elif kind == "clip":
        child = Probe("k", ("fixed",), (amount, 1))
        width = "clip"
    else:
        child = Probe("k", ("flow", "box"), (1, 1))
        width = amount if kind == "given" else ("relative", amount)
    al = align[0] if align[0] != "relative" else ("relative", align[1])
    ok, pad = guarded(ctx, V, "Padding()", lambda: urwid.Padding(child, align=al, width=width, min_width=minimum, left=left, right=right))
    if not ok:
        return
    ctx.count("evaluations")
    if kind == "clip" and rows is not None:
        return
    ok, lr = guarded(ctx, V, "padding_values", lambda: pad.padding_values(size, False))
    if not ok:
        return
    a, b = lr
    ctx.obs(case, lr)
    cw = judge_axis(V, "Padding", kind, amount, align[1], minimum, left, right, maxcol, a, b)
    if cw is None or cw == 0:
        return
    ctx.distinct("nontrivial", ("pad", kind, amount, align, minimum, left, right, maxcol))
    if (urwid.FLOW if rows is None else urwid.BOX) not in pad.sizing():
        ctx.count("render-skipped-mode-not-reported")
        return
    ok, canv = guarded(ctx, V, "render", lambda: pad.render(size, False))
    if not ok:
        return
    for e in child.log:
        if e[0] in ("negative", "bad-dim"):
            V("no-negative", f"child was handed size {e[2]} in {e[1]}")
    got = [r[1] for r in child.renders()]
    if kind == "clip":
        exp = [()]
    else:
        exp = [(cw,)] if rows is None else [(cw, rows)]
    if got != exp:
        V("child-size", f"padding_values {lr} in {maxcol}: child render sizes {got}, expected {exp}")
    if canv.cols() != maxcol:
        V("exact-fill", f"canvas is {canv.cols()} columns, available {maxcol}")
        return
    xs = range(max(-a, 0), cw - max(-b, 0))
    exp_row = [(None, None)] * max(a, 0) + [("k", x) for x in xs] + [(None, None)] * max(b, 0)
    got_row = row_names(canv, 0)
    if got_row != exp_row:
        V("exact-fill", f"row 0 shows {got_row}; margins {lr} + child {cw} expect {exp_row}")


def check_filler(ctx: Ctx, kind, amount, align, minimum, top, bottom, maxrow):
    maxcol = 2
    size = (maxcol, maxrow)
    case = {"part": "filler", "height": (kind, amount), "valign": align, "min_height": minimum, "top": top, "bottom": bottom, "size": size}

    def V(clause, detail, site=""):
        ctx.violation(clause, f"C19/filler/{clause}/{kind}{('/' + site) if site else ''}", case, detail)

    urwid.CanvasCache.clear()
    if kind == "pack":
        child = Probe("k", ("flow",), (1, amount))
        height = "pack"
    else:
        child = Probe("k", ("box",), (1, 1))
        height = amount if kind == "given" else ("relative", amount)
    va = VNAMES.get(align[0], None) or ("relative", align[1])
    ok, fil = guarded(ctx, V, "Filler()", lambda: urwid.Filler(child, valign=va, height=height, min_height=minimum, top=top, bottom=bottom))
    if not ok:
        return
    ctx.count("evaluations")
    ok, tb = guarded(ctx, V, "filler_values", lambda: fil.filler_values(size, False))
    if not ok:
        return
    a, b = tb
    ctx.obs(case, tb)
    ch = judge_axis(V, "Filler", "given" if kind == "pack" else kind, amount, align[1], None if kind == "pack" else minimum, top, bottom, maxrow, a, b)
    if ch is None or ch == 0:
        return
    ctx.distinct("nontrivial", ("fill", kind, amount, align, minimum, top, bottom, maxrow))
    if urwid.BOX not in fil.sizing():
        ctx.count("render-skipped-mode-not-reported")
        return
    ok, canv = guarded(ctx, V, "render", lambda: fil.render(size, False))
    if not ok:
        return
    for e in child.log:
        if e[0] in ("negative", "bad-dim"):
            V("no-negative", f"child was handed size {e[2]} in {e[1]}")
    got = [r[1] for r in child.renders()]
    exp = [(maxcol,)] if kind == "pack" else [(maxcol, ch)]
    if got != exp:
        V("child-size", f"filler_values {tb} in {maxrow}: child render sizes {got}, expected {exp}")
    if canv.rows() != maxrow:
        V("exact-fill", f"canvas has {canv.rows()} rows, available {maxrow}")
        return
    exp_col = [None] * a + [("k", y) for y in range(ch)] + [None] * b
    got_col = col_names(canv, 0)
    if got_col != exp_col[:maxrow]:
        V("exact-fill", f"column 0 shows {got_col}; filler {tb} + child {ch} expect {exp_col}")


def padfill_task(task, ctx: Ctx):
    which, kinds, tier = task
    env.reset("utf-8")
    mins = (None, 1, 3)
    margins = (0, 1, 2)
    avail = range(1, 13) if tier == "quick" else range(1, 19)
    for kind, amount in kinds:
        for align in ALIGNS:
            for minimum in mins:
                if kind in ("given", "clip") and minimum not in (None, 3):
                    continue
                for m0 in margins:
                    for m1 in margins:
                        for av in avail:
                            if which == "padding":
                                check_padding(ctx, kind, amount, align, minimum, m0, m1, av, None)
                                if kind != "clip":
                                    check_padding(ctx, kind, amount, align, minimum, m0, m1, av, 2)
                            elif kind != "clip":
                                check_filler(ctx, kind, amount, align, minimum, m0, m1, av)


# ----------------------------------------------------------------------
# part E: Overlay
# ----------------------------------------------------------------------
def check_overlay(ctx: Ctx, wk, hk, align, valign, mins, margins, size):
    maxcol, maxrow = size
    left, right, top, bottom = margins
    minw, minh = mins
    case = {"part": "overlay", "width": wk, "height": hk, "align": align, "valign": valign, "min": mins, "margins": margins, "size": size}

    def V(clause, detail, site=""):
        ctx.violation(clause, f"C19/overlay/{clause}/{wk[0]}-{hk[0]}{('/' + site) if site else ''}", case, detail)

    urwid.CanvasCache.clear()
    if wk[0] == "pack":
        topw = Probe("k", ("fixed",), (wk[1], hk[1]))
        width = height = "pack"
    elif hk[0] == "pack":
        topw = Probe("k", ("flow",), (1, hk[1]))
        width = wk[1] if wk[0] == "given" else ("relative", wk[1])
        height = "pack"
    else:
        topw = Probe("k", ("box",), (1, 1))
        width = wk[1] if wk[0] == "given" else ("relative", wk[1])
        height = hk[1] if hk[0] == "given" else ("relative", hk[1])
    bot = urwid.SolidFill(".")
    al = align[0] if align[0] != "relative" else ("relative", align[1])
    va = VNAMES.get(valign[0], None) or ("relative", valign[1])
    ok, ov = guarded(ctx, V, "Overlay()", lambda: urwid.Overlay(topw, bot, al, width, va, height, min_width=minw, min_height=minh,
                                                               left=left, right=right, top=top, bottom=bottom))
    if not ok:
        return
    ctx.count("evaluations")
    ok, lrtb = guarded(ctx, V, "calculate_padding_filler", lambda: ov.calculate_padding_filler(size, False))
    if not ok:
        return
    l, r, t, b = lrtb
    ctx.obs(case, lrtb)
    if wk[0] == "pack":
        cw = judge_axis(V, "Overlay columns", "clip", wk[1], align[1], None, left, right, maxcol, l, r)
        # a fixed top widget taller than the screen is clipped at the bottom
        if hk[1] <= maxrow:
            chh = judge_axis(V, "Overlay rows", "given", hk[1], valign[1], None, top, bottom, maxrow, t, b)
        else:
            chh = None
            if t < 0:
                V("no-negative", f"top filler {t}")
    else:
        cw = judge_axis(V, "Overlay columns", wk[0], wk[1], align[1], minw, left, right, maxcol, l, r)
        if hk[0] == "pack":
            if hk[1] <= maxrow:
                chh = judge_axis(V, "Overlay rows", "given", hk[1], valign[1], None, top, bottom, maxrow, t, b)
            else:
                chh = None
                if t < 0:
                    V("no-negative", f"top filler {t}")
        else:
            chh = judge_axis(V, "Overlay rows", hk[0], hk[1], valign[1], minh, top, bottom, maxrow, t, b)
    if cw is None or chh is None or cw == 0 or chh == 0:
        return
    ctx.distinct("nontrivial", ("ov", wk, hk, align, valign, mins, margins, size))
    ok, tws = guarded(ctx, V, "top_w_size", lambda: ov.top_w_size(size, l, r, t, b))
    if ok:
        exp = () if wk[0] == "pack" else ((cw,) if hk[0] == "pack" else (cw, chh))
        if tuple(tws) != exp:
            V("child-size", f"top_w_size {tws}, expected {exp} for margins {lrtb} in {size}")
    if urwid.BOX not in ov.sizing():
        ctx.count("render-skipped-mode-not-reported")
        return
    ok, canv = guarded(ctx, V, "render", lambda: ov.render(size, False))
    if not ok:
        return
    for e in topw.log:
        if e[0] in ("negative", "bad-dim"):
            V("no-negative", f"top widget was handed size {e[2]} in {e[1]}")
    # a packed height is the height of the child at the width it is then rendered at
    for rs_ in sorted(set(topw.rows_log)):
        if any((not isinstance(d, int)) or d < 0 for d in rs_):
            V("no-negative", f"top widget was asked for its rows at size {rs_}")
        elif hk[0] == "pack" and wk[0] != "pack" and rs_ != (cw,):
            V("child-size", f"top widget was asked for its rows at {rs_} but is rendered {cw} columns wide (margins {lrtb} in {size})", "rows-asked-at")
    got = [rr[1] for rr in topw.renders()]
    if ok and got != [exp]:
        V("child-size", f"top widget render sizes {got}, expected [{exp}]")
    if (canv.cols(), canv.rows()) != size:
        V("exact-fill", f"canvas {canv.cols()}x{canv.rows()}, available {size}")
        return
    cm = cell_map(canv)
    for y in range(maxrow):
        for x in range(maxcol):
            chb, at = cm[y][x]
            inside = l <= x < maxcol - r and t <= y < maxrow - b
            if inside:
                want = (("k", y - t), 65 + (x - l) % 58)
                if (at, chb) != want:
                    V("exact-fill", f"cell ({x},{y}) shows {(at, chb)}, top widget placed at margins {lrtb} expects {want}")
                    return
            elif isinstance(at, tuple):
                V("exact-fill", f"cell ({x},{y}) outside margins {lrtb} shows the top widget")
                return


def overlay_task(task, ctx: Ctx):
    _, wks, tier = task
    env.reset("utf-8")
    hks = [("given", 1), ("given", 2), ("given", 4), ("relative", 30), ("relative", 60), ("relative", 100), ("pack", 1), ("pack", 3)]
    aligns = [("left", 0), ("center", 50), ("right", 100), ("relative", 25), ("relative", 75)]
    sizes = [(c, r) for c in (1, 2, 3, 5, 8) for r in (1, 2, 3, 5)] if tier == "quick" else [(c, r) for c in range(1, 10) for r in range(1, 7)]
    margin_sets = [(0, 0, 0, 0), (1, 0, 0, 1), (0, 2, 1, 0), (1, 1, 1, 1)]
    for wk in wks:
        for hk in hks:
            if wk[0] == "pack" and hk[0] != "pack":
                continue
            for align in aligns:
                for valign in aligns:
                    for mins in ((None, None), (2, 2)):
                        if mins != (None, None) and wk[0] != "relative" and hk[0] != "relative":
                            continue
                        for margins in margin_sets:
                            for size in sizes:
                                check_overlay(ctx, wk, hk, align, valign, mins, margins, size)


# ----------------------------------------------------------------------
# part F: GridFlow
# ----------------------------------------------------------------------
def check_gridflow(ctx: Ctx, ncells, cw, hsep, vsep, align, focus, maxcol, tall, wide=None):
    """wide: index of one cell that carries its own, larger width option (cell width + 2)"""
    case = {"part": "gridflow", "cells": ncells, "cell_width": cw, "h_sep": hsep, "v_sep": vsep, "align": align, "focus": focus, "maxcol": maxcol, "tall": tall, "wide": wide}

    def V(clause, detail, site=""):
        ctx.violation(clause, f"C19/gridflow/{clause}{('/' + site) if site else ''}", case, detail)

    urwid.CanvasCache.clear()
    probes = [Probe(f"g{i}", ("flow",), (1, 2 if (tall and i % 2) else 1)) for i in range(ncells)]
    ok, gf = guarded(ctx, V, "GridFlow()", lambda: urwid.GridFlow(probes, cw, hsep, vsep, align, focus=focus))
    if not ok:
        return
    if wide is not None:
        ok, _ = guarded(ctx, V, "contents[i]=", lambda: gf.contents.__setitem__(wide, (probes[wide], gf.options("given", cw + 2))))
        if not ok:
            return
    ctx.count("evaluations")
    ok, canv = guarded(ctx, V, "render", lambda: gf.render((maxcol,), False))
    if not ok:
        return
    ctx.obs(case, canv.rows())
    ctx.distinct("nontrivial", ("gf", ncells, cw, hsep, vsep, align, maxcol, tall, wide))
    w = min(cw, maxcol)
    ws = [min(cw + 2, maxcol) if i == wide else w for i in range(ncells)]
    for i, p in enumerate(probes):
        for e in p.log:
            if e[0] in ("negative", "bad-dim"):
                V("no-negative", f"cell {i} was handed size {e[2]} in {e[1]}")
        got = [r[1] for r in p.renders()]
        if got != [(ws[i],)]:
            V("cell-width", f"cell {i}: render sizes {got}, configured cell width {cw + 2 if i == wide else cw} in {maxcol} columns expects [({ws[i]},)]", "own-width" if wide is not None else "")
    if canv.cols() != maxcol:
        V("cell-width", f"canvas is {canv.cols()} wide, asked {maxcol}")
        return
    # the same GridFlow after its cell width is reassigned (the earlier canvas still alive): every cell gets the new width
    w_seen = {w}
    if wide is not None:
        # "setting this value affects all cells": assigning the very value cell_width already reports resets the cell with a width of its own
        for p in probes:
            del p.log[:]
        ctx.count("evaluations")
        ok, _ = guarded(ctx, V, "cell_width=", lambda: setattr(gf, "cell_width", cw))
        if ok:
            ok, canv3 = guarded(ctx, V, "render", lambda: gf.render((maxcol,), False))
        if ok:
            got3 = [r[1] for r in probes[wide].renders()]
            if got3 != [(w,)] and not (got3 == [] and w in (ws[wide],)):
                V("cell-width", f"after cell_width = {cw} (its current value) the cell that had its own width {cw + 2} is rendered at {got3}, expected [({w},)]", "own-width-reset")
    for cw2 in (sorted({cw + 1, max(1, cw - 1)} - {cw}) if wide is None else ()):
        for p in probes:
            del p.log[:]
        ctx.count("evaluations")
        ok, _ = guarded(ctx, V, "cell_width=", lambda: setattr(gf, "cell_width", cw2))
        if not ok:
            break
        ok, canv2 = guarded(ctx, V, "render", lambda: gf.render((maxcol,), False))
        if not ok:
            break
        w2 = min(cw2, maxcol)
        # (a cell at a width it was rendered at before may come from the canvas cache: no render call at all)
        bad = [(i, [r[1] for r in p.renders()]) for i, p in enumerate(probes)
               if [r[1] for r in p.renders()] != [(w2,)] and not (w2 in w_seen and not p.renders())]
        w_seen.add(w2)
        if bad:
            V("cell-width", f"after cell_width = {cw2} (was {cw}): cell {bad[0][0]} render sizes {bad[0][1]}, expected [({w2},)]", "reassigned")
            break
    cm = cell_map(canv)
    pos = {}
    area = {}
    for y, row in enumerate(cm):
        for x, (chb, at) in enumerate(row):
            if isinstance(at, tuple):
                name = at[0]
                area[name] = area.get(name, 0) + 1
                if name not in pos:
                    pos[name] = (y, x)
                    if chb != 65 or at[1] != 0:
                        V("cell-width", f"first visible cell of {name} at ({x},{y}) is its local ({chb - 65},{at[1]})")
    prev = None
    for i, p in enumerate(probes):
        name = f"g{i}"
        if name not in pos:
            V("reading-order", f"cell {i} is not shown at all", "own-width" if wide is not None else "")
            return
        if area[name] != ws[i] * p.nat[1]:
            V("cell-width", f"cell {i} covers {area[name]} screen cells, expected {ws[i]}x{p.nat[1]}", "own-width" if wide is not None else "")
        if prev is not None:
            (py, px), (y, x) = prev, pos[name]
            if not (y > py or (y == py and x >= px + ws[i - 1])):
                V("reading-order", f"cell {i} at {(x, y)} is not after cell {i - 1} at {(px, py)} in reading order")
        prev = pos[name]


def gridflow_task(task, ctx: Ctx):
    _, ncells, tier = task
    env.reset("utf-8")
    maxcols = range(1, 13) if tier == "quick" else range(1, 17)
    for cw in (1, 2, 3, 4):
        for hsep in (0, 1, 2):
            for vsep in (0, 1, 2):
                for align in ("left", "center", "right"):
                    for focus in sorted({0, ncells - 1}):
                        for maxcol in maxcols:
                            for tall in (False, True):
                                check_gridflow(ctx, ncells, cw, hsep, vsep, align, focus, maxcol, tall)
                                if not tall and focus == 0:
                                    for wide in sorted({0, ncells // 2, ncells - 1}):
                                        check_gridflow(ctx, ncells, cw, hsep, vsep, align, focus, maxcol, tall, wide)


# ----------------------------------------------------------------------
# part G: options reassigned on a live container == a fresh container built with those options
# ----------------------------------------------------------------------
def _snap(w, size):
    try:
        canv = w.render(size, False)
    except NegativeDimension as e:
        return ("NEG", str(e)[:80]), None
    except Exception as e:  # noqa: BLE001
        return ("EXC", exc_site(e)), None
    return (tuple(tuple(r) for r in cell_map(canv)), canv.cursor), canv


def reassign_families(tier):
    """-> {family: (configs, build(cfg) -> widget, move(widget, a, b), sizes)}; every ordered pair of configs differing in 1 or 2 fields is a case"""
    P = lambda name, sz=("flow", "box"), nat=(2, 1): Probe(name, sz, nat)  # noqa: E731
    fam = {}
    # Padding: align / width setters
    aligns = ["left", "center", "right", ("relative", 25)]
    widths = [3, 5, ("relative", 50), ("relative", 100)]
    pcfg = [(a, w, mn) for a in aligns for w in widths for mn in (None, 4)]

    def b_pad(c):
        return urwid.Padding(P("k"), align=c[0], width=c[1], min_width=c[2], left=1, right=0)

    def m_pad(w, a, b):
        if a[0] != b[0]:
            w.align = b[0]
        if a[1] != b[1]:
            w.width = b[1]

    fam["padding"] = ([c for c in pcfg], b_pad, m_pad, [(9,), (4,), (9, 2)], (0, 1))
    # Overlay: set_overlay_parameters
    ocfg = [(a, w, va, h, mg) for a in ("left", "center", "right") for w in (3, ("relative", 50)) for va in ("top", "middle", "bottom") for h in (2, ("relative", 50))
            for mg in ((0, 0, 0, 0), (1, 0, 0, 1))]

    def b_ov(c):
        return urwid.Overlay(P("k", ("box",)), urwid.SolidFill("."), c[0], c[1], c[2], c[3], left=c[4][0], right=c[4][1], top=c[4][2], bottom=c[4][3])

    def m_ov(w, a, b):
        w.set_overlay_parameters(b[0], b[1], b[2], b[3], left=b[4][0], right=b[4][1], top=b[4][2], bottom=b[4][3])

    fam["overlay"] = (ocfg, b_ov, m_ov, [(9, 5), (4, 3)], (0, 1, 2, 3, 4))
    # Columns: contents[i] = (widget, new options); 3 columns
    copts = [("given", 2), ("given", 4), ("weight", 1), ("weight", 3), ("pack", None)]
    ccfg = [(o0, o1, o2) for o0 in copts for o1 in copts for o2 in copts[:4:3] + copts[2:3]]

    def c_opt(cols, o):
        return cols.options(o[0], o[1]) if o[0] != "pack" else cols.options("pack")

    def b_cols(c):
        ws = [P(f"c{i}", ("flow", "fixed") if o[0] == "pack" else ("flow", "box"), (3, 1 + i % 2)) for i, o in enumerate(c)]
        cols = urwid.Columns([ws[0]], dividechars=1)
        cols.contents[:] = [(w_, c_opt(cols, o)) for w_, o in zip(ws, c)]
        return cols

    def m_cols(w, a, b):
        for i, (x, y) in enumerate(zip(a, b)):
            if x != y:
                child = w.contents[i][0]
                if (x[0] == "pack") != (y[0] == "pack"):
                    child = P(f"c{i}", ("flow", "fixed") if y[0] == "pack" else ("flow", "box"), (3, 1 + i % 2))
                w.contents[i] = (child, c_opt(w, y))

    fam["columns"] = (ccfg, b_cols, m_cols, [(12,), (7,), (3,)], (0, 1, 2))
    # box Pile: contents[i] = (widget, new options); 3 items
    popts = [("given", 1), ("given", 3), ("weight", 1), ("weight", 2), ("pack", None)]
    qcfg = [(o0, o1, ("weight", 1)) for o0 in popts for o1 in popts]

    def p_opt(pile, o):
        return pile.options(o[0], o[1]) if o[0] != "pack" else pile.options("pack")

    def b_pile(c):
        ws = [P(f"p{i}", ("flow",) if o[0] == "pack" else ("box",), (2, 1 + i)) for i, o in enumerate(c)]
        pile = urwid.Pile([("weight", 1, ws[2])])
        pile.contents[:] = [(w_, p_opt(pile, o)) for w_, o in zip(ws, c)]
        return pile

    def m_pile(w, a, b):
        for i, (x, y) in enumerate(zip(a, b)):
            if x != y:
                child = w.contents[i][0]
                if (x[0] == "pack") != (y[0] == "pack"):
                    child = P(f"p{i}", ("flow",) if y[0] == "pack" else ("box",), (2, 1 + i))
                w.contents[i] = (child, p_opt(w, y))

    fam["pile"] = (qcfg, b_pile, m_pile, [(4, 9), (4, 5), (4, 2)], (0, 1))
    # GridFlow: cell_width setter and contents options
    gcfg = [(cw,) for cw in (1, 2, 3, 5)]

    def b_gf(c):
        return urwid.GridFlow([P(f"g{i}", ("flow",), (1, 1)) for i in range(4)], c[0], 1, 0, "left")

    def m_gf(w, a, b):
        w.cell_width = b[0]

    fam["gridflow"] = (gcfg, b_gf, m_gf, [(9,), (4,), (2,)], (0,))
    return fam


def reassign_task(task, ctx: Ctx):
    family, lo, hi, tier = task
    env.reset("utf-8")
    cfgs, build, move, sizes, fields = reassign_families(tier)[family]
    for a in cfgs[lo:hi]:
        for b in cfgs:
            changed = [i for i in fields if a[i] != b[i]]
            if not 1 <= len(changed) <= 2 or any(a[i] != b[i] for i in range(len(a)) if i not in fields):
                continue
            ctx.count("evaluations")
            case = {"part": "reassign", "family": family, "from": a, "to": b}
            urwid.CanvasCache.clear()
            try:
                live = build(a)
            except Exception:
                continue  # (constructing from these options is judged by the other parts)
            held = [_snap(live, sz) for sz in sizes]  # the canvases stay alive, the cache stays warm
            try:
                move(live, a, b)
            except Exception as e:
                ctx.violation("reassign-raises", f"C19/reassign/{family}/raises/{exc_site(e)}", case, f"reassigning {a} -> {b} raised {type(e).__name__}: {e}")
                continue
            for sz in sizes:
                got, c1 = _snap(live, sz)
                try:
                    fresh = build(b)
                except Exception:
                    break
                want, c2 = _snap(fresh, sz)
                ctx.obs(family, a, b, sz, got == want)
                if got != want:
                    what = "+".join(str(i) for i in changed)
                    g = got if got[0] in ("EXC", "NEG") else ["".join(chr(ch) if isinstance(at, tuple) else "." for ch, at in r) for r in got[0]]
                    w_ = want if want[0] in ("EXC", "NEG") else ["".join(chr(ch) if isinstance(at, tuple) else "." for ch, at in r) for r in want[0]]
                    ctx.violation("reassign-equals-fresh", f"C19/reassign/{family}/fields={what}", dict(case, size=sz),
                                  f"{family} built with {a} then reassigned to {b}, size {sz}: shows {g}; a fresh one built with {b} shows {w_}")
                    break
            else:
                ctx.distinct("nontrivial", ("reassign", family, a, b))
            del held


def run(tier, R):
    opts = col_options(tier)
    maxL = 3
    tasks = []
    divs = (0, 1, 2)
    minws = (1, 2, 3)
    maxcols = list(range(1, 13)) if tier == "quick" else list(range(1, 21))
    for L in range(1, maxL + 1):
        combos = list(itertools.product(opts, repeat=L))
        step = 12 if tier == "quick" else 6
        for i in range(0, len(combos), step):
            tasks.append(("columns", combos[i : i + step], divs, minws, maxcols, tier))
    if tier != "quick":
        combos = list(itertools.product(COL_SMALL, repeat=4))
        for i in range(0, len(combos), 6):
            tasks.append(("columns", combos[i : i + 6], divs, (1, 2), list(range(1, 17)), tier))
    R.run_tasks(columns_task, tasks, recheck=0.03)
    n_col = int(R.ctx.counts["evaluations"])
    R.log(f"columns: {n_col} cases")

    popts = pile_options(tier)
    ptasks = []
    maxrows = list(range(1, 11)) if tier == "quick" else list(range(1, 17))
    for L in range(1, (3 if tier == "quick" else 4) + 1):
        combos = list(itertools.product(popts, repeat=L))
        for i in range(0, len(combos), 40):
            ptasks.append(("pile", combos[i : i + 40], maxrows))
    R.run_tasks(pile_task, ptasks, recheck=0.03)
    n_pile = int(R.ctx.counts["evaluations"]) - n_col
    R.log(f"pile: {n_pile} cases")

    kinds = size_kinds(tier)
    pf = [(w, [k], tier) for w in ("padding", "filler") for k in kinds]
    R.run_tasks(padfill_task, pf, recheck=0.03)
    n_pf = int(R.ctx.counts["evaluations"]) - n_col - n_pile
    R.log(f"padding/filler: {n_pf} cases")

    wks = [("given", 1), ("given", 2), ("given", 4), ("relative", 30), ("relative", 60), ("relative", 100), ("pack", 1), ("pack", 3), ("pack", 6)]
    R.run_tasks(overlay_task, [("overlay", [wk], tier) for wk in wks], recheck=0.1)
    n_ov = int(R.ctx.counts["evaluations"]) - n_col - n_pile - n_pf
    R.log(f"overlay: {n_ov} cases")

    R.run_tasks(gridflow_task, [("gridflow", n, tier) for n in range(1, 6 if tier == "quick" else 8)], recheck=0.2)
    ev = int(R.ctx.counts["evaluations"])
    n_gf = ev - n_col - n_pile - n_pf - n_ov
    R.log(f"gridflow: {n_gf} cases")
    rt = []
    for fam_name, (cfgs_, *_rest) in reassign_families(tier).items():
        for lo in range(0, len(cfgs_), 8):
            rt.append((fam_name, lo, lo + 8, tier))
    R.run_tasks(reassign_task, rt, recheck=0.05)
    n_re = int(R.ctx.counts["evaluations"]) - ev
    ev = int(R.ctx.counts["evaluations"])
    R.log(f"reassigned options: {n_re} cases")
    nt = len(R.ctx.sets.get("nontrivial", ()))
    cov = {
        "states": nt,
        "transitions": ev,
        "traces_validated_against_impl": ev,
        "evaluations": ev,
        "distinct_nontrivial": nt,
        "rule": f"Columns: every option list of length <= {maxL} over {len(opts)} options (given/pack fixed/pack flow/weight/box columns)"
        + (" + length 4 over 7 options" if tier != "quick" else "")
        + f" x dividechars 0..2 x min_width 1..3 x every focus x available 1..{maxcols[-1]}, flow and box render, plus the same Columns object "
        "re-queried across all sizes and focus positions; box Pile: every list of length <= "
        f"{3 if tier == 'quick' else 4} over {len(popts)} options with >= 1 weighted item x focus x rows 1..{maxrows[-1]}; Padding/Filler: "
        f"{len(kinds)} size kinds x 9 alignments x min None/1/3 x margins 0..2 each side x available 1..{12 if tier == 'quick' else 18}; Overlay: "
        "width kind x height kind x 5 aligns x 5 valigns x margins x sizes; GridFlow: 1.."
        f"{5 if tier == 'quick' else 7} cells x cell width 1..4 x h_sep/v_sep 0..2 x align x available, also with one cell carrying its own larger width option; reassignment: every ordered pair of option sets differing in one or two fields for Padding "
        "(align, width setters), Overlay (set_overlay_parameters), Columns and box Pile (contents[i] = (widget, options)) and GridFlow (cell_width): the live container, with its earlier "
        "canvases alive, must show what a fresh container built with the new options shows, at three sizes. non-trivial = distinct configurations in which "
        "at least one child is visible",
        "exhaustive": True,
        "parts": {"columns": n_col, "pile": n_pile, "padding_filler": n_pf, "overlay": n_ov, "gridflow": n_gf, "reassigned": n_re},
    }
    return {
        "coverage": cov,
        "assumptions": [
            "children are probes with constant natural sizes (mc/probe.py); a packed flow-capable column's own size is min(natural, available)",
            "'unless the minimum width intervenes' = proportionality is not demanded when some visible weighted column's exact share is below min_width",
            "a relative size may be taken of the space beside the margins or of the whole (both accepted), rounded to nearest",
            "when the requested size does not fit beside the margins the child may get min(requested, available) or the space beside the margins",
            "Pile is not required to keep the focus item visible when fixed items overflow (it has no such mechanism; not read into the statement)",
            "zero weights / zero given sizes are outside the statement's precondition and not enumerated",
        ],
    }


def replay(case, ctx):
    env.reset("utf-8")
    part = case["part"]
    if part == "columns":
        size = case["size"]
        combo = tuple(tuple(o) for o in case["combo"])
        pc, _ = build_columns(combo, case["div"], case["minw"], 0)
        for f in range(len(combo)):
            for m in range(1, 21):
                pc.focus_position = f
                pc.column_widths((m,), False)
        check_columns(ctx, combo, case["div"], case["minw"], case["focus"], size[0], size[1] if len(size) > 1 else None,
                      persistent=pc if len(size) == 1 else None)
    elif part == "pile":
        check_pile(ctx, tuple(tuple(o) for o in case["combo"]), case["focus"], case["size"][0], case["size"][1], in_focus=bool(case.get("in_focus")))
    elif part == "padding":
        size = case["size"]
        check_padding(ctx, case["width"][0], case["width"][1], tuple(case["align"]), case["min_width"], case["left"], case["right"],
                      size[0], size[1] if len(size) > 1 else None)
    elif part == "filler":
        check_filler(ctx, case["height"][0], case["height"][1], tuple(case["valign"]), case["min_height"], case["top"], case["bottom"], case["size"][1])
    elif part == "overlay":
        check_overlay(ctx, tuple(case["width"]), tuple(case["height"]), tuple(case["align"]), tuple(case["valign"]), tuple(case["min"]),
                      tuple(case["margins"]), tuple(case["size"]))
    elif part == "gridflow":
        check_gridflow(ctx, case["cells"], case["cell_width"], case["h_sep"], case["v_sep"], case["align"], case["focus"], case["maxcol"], case["tall"], case.get("wide"))
