"""C03 — text layout shows every character once, in order, within the width.

Shape E: all strings of <= L characters over a class alphabet x width x wrap x align x encoding,
through StandardTextLayout.layout() (structure read with an own tuple parser) and Text.render/rows.
References: exact greedy wrap for 'any', legality rules for 'space', column windows for clip/ellipsis.
"""
from __future__ import annotations

import itertools

from .. import env
from ..core import Ctx, exc_site, watchdog, WatchdogTimeout
from ..refs.widths import Char, chars_of, cwidth, swidth, window_text

import urwid
from urwid.text_layout import default_layout

ID = "C03"
LEVEL = "model_checking"

WRAPS = ("any", "space", "clip", "ellipsis")
ALIGNS = ("left", "center", "right")

# (config name, urwid encoding, codec for bytes form / canvas rows, byte mode, alphabet)
CONFIGS = {
    "utf8": ("utf-8", "utf-8", "utf8", ["a", "b", " ", "\n", "你", "́"]),
    "wide": ("euc-jp", "euc-jp", "wide", ["a", "b", " ", "\n", "あ"]),
    "narrow": ("iso-8859-1", "iso-8859-1", "narrow", ["a", "b", " ", "\n", "é"]),
    # a control character (no column of its own) among ASCII and wide characters; a double-byte encoding whose trail bytes reach into ASCII (GBK: 丂 = 81 40)
    "utf8ctl": ("utf-8", "utf-8", "utf8", ["a", " ", "\t", "你"]),
    "gbk": ("GBK", "gbk", "wide", ["a", " ", "\n", "丂"]),  # (the name spelt as locale.getpreferredencoding() reports it)
}
SHORT = {"utf8ctl": 4, "gbk": 4}


def strip0(s: str) -> str:
    return "".join(c for c in s if cwidth(c) > 0)


def parse_layout(lay):
    """Own parser of the layout structure. -> list of lines, each: dict(pad, segs=[(kind, sc, offs, x)])"""
    lines = []
    for line in lay:
        segs = []
        for seg in line:
            if not isinstance(seg, tuple) or len(seg) not in (2, 3):
                raise ValueError(f"malformed segment {seg!r}")
            if len(seg) == 2:
                sc, offs = seg
                segs.append(("pad" if offs is None else "hint", sc, offs, None))
            else:
                sc, offs, x = seg
                segs.append(("ins" if isinstance(x, bytes) else "text", sc, offs, x))
        lines.append(segs)
    return lines


def ref_any(chars: list[Char], width: int):
    """Exact greedy reference for wrap='any': list of (first char index, end char index) per line, or None if undisplayable."""
    lines = []
    n = len(chars)
    i = 0
    while True:
        # paragraph [i, j)
        j = i
        while j < n and chars[j].glyph != "\n":
            j += 1
        pw = sum(c.width for c in chars[i:j])
        if pw == 0:
            lines.append((j, j))
        else:
            k = i
            while k < j:
                w = 0
                m = k
                while m < j and w + chars[m].width <= width:
                    w += chars[m].width
                    m += 1
                if m == k:
                    return None  # a double-width character in a one-column space
                lines.append((k, m))
                k = m
        if j >= n:
            break
        i = j + 1
    return lines


def mwidth(s: str, codec: str, mode: str) -> int:
    """columns of an inserted string as displayed: byte rules in wide/narrow modes"""
    return swidth(s) if mode == "utf8" else len(s.encode(codec))


def ellipsis_mark(codec: str, width: int, mode: str = "utf8") -> str:
    try:
        mark = "…".encode(codec).decode(codec)
    except UnicodeEncodeError:
        mark = "..."
    while width - 1 < mwidth(mark, codec, mode) and mark:
        mark = mark[:-1]
    return mark


def ref_trimmed_rows(chars, width, wrap, align, codec, mode="utf8"):
    """Expected visible row strings for clip / ellipsis (acceptable alternatives as a set per row)."""
    rows = []
    n = len(chars)
    i = 0
    while True:
        j = i
        while j < n and chars[j].glyph != "\n":
            j += 1
        para = chars[i:j]
        W = sum(c.width for c in para)
        mark = ellipsis_mark(codec, width, mode) if wrap == "ellipsis" else ""
        if W <= width or (wrap == "ellipsis" and mark):
            if W <= width:
                spare = width - W
                pad = {"left": 0, "center": (spare + 1) // 2, "right": spare}[align]
                rows.append({window_text(para, -pad, width)})
            else:
                keep = width - mwidth(mark, codec, mode)
                shown = window_text(para, 0, keep)
                alts = {shown + mark}
                if shown.endswith(" ") and keep and window_text(para, 0, keep - 1) + " " == shown and (
                    sum(c.width for c in para[: len(strip0(shown.rstrip(" ")))]) < keep
                ):
                    pass
                # a double-width character cut by the mark leaves one blank cell: before or after the mark
                body = window_text(para, 0, keep - 1) if keep else ""
                if keep and shown == body + " ":
                    alts.add(body + mark + " ")
                rows.append(alts)
        else:
            over = W - width
            ks = {"left": {0}, "right": {over}, "center": {over // 2, (over + 1) // 2}}[align]
            rows.append({window_text(para, k, width) for k in ks})
        if j >= n:
            break
        i = j + 1
    return rows


def check_case(ctx: Ctx, cfgname, form, text_s: str, width, wrap, align):
    enc, codec, mode, _alpha = CONFIGS[cfgname]
    text = text_s if form == "str" else text_s.encode(codec)
    case = {"cfg": cfgname, "form": form, "text": text_s, "width": width, "wrap": wrap, "align": align}
    classes = []
    if any(cwidth(c) == 2 for c in text_s):
        classes.append("wide")
    if any(cwidth(c) == 0 and c != "\n" for c in text_s):
        classes.append("zerowidth")
    feat = f"{wrap}/{'+'.join(classes) or 'plain'}"
    ctx.count("evaluations")

    def V(clause, detail, extra=""):
        ctx.violation(clause, f"C03/{clause}/{feat}{extra}", case, detail)

    try:
        with watchdog(5):
            lay = default_layout.layout(text, width, align, wrap)
    except WatchdogTimeout:
        V("terminates", "layout() did not terminate within 5 s")
        return
    except Exception as e:
        V("layout-raises", f"layout raised {e!r}", "/" + exc_site(e))
        return
    chars = chars_of(text, codec, mode)
    n = len(chars)
    ctx.obs(text, width, wrap, align, lay)
    # ---- rows / render
    canv = None
    try:
        t = urwid.Text(text, align, wrap)
        rows = t.rows((width,))
        canv = t.render((width,))
        crow = canv.rows()
        if not (rows == crow == len(lay)):
            V("rows", f"rows()={rows} rendered rows={crow} layout lines={len(lay)}")
        got_rows = [b"".join(seg[2] for seg in row).decode(codec) for row in canv.content()]
        if width == 1:
            # once per text: the size reported without any width (the natural size) is the size rendered without any width
            pw, pr = t.pack(())
            if pw >= 1:
                r2 = t.rows((pw,))
                c2 = t.render(())
                if not (pr == r2 == c2.rows()) or c2.cols() != pw:
                    V("rows", f"pack(()) reports {(pw, pr)}; rows(({pw},)) = {r2}; render(()) is {c2.cols()}x{c2.rows()}", "/natural-size")
    except Exception as e:
        V("render-ok", f"Text.render/rows raised {e!r}", "/" + exc_site(e))
        got_rows = None
    # the same text given as markup in two attribute runs lays out identically (attributes never move characters)
    if got_rows is not None and form == "str" and len(text_s) >= 2:
        k = len(text_s) // 2
        try:
            cm = urwid.Text([("a", text_s[:k]), ("b", text_s[k:])], align, wrap).render((width,))
            m_rows = [b"".join(seg[2] for seg in row).decode(codec) for row in cm.content()]
            if m_rows != got_rows:
                V("render-ok", f"as markup [('a', {text_s[:k]!r}), ('b', {text_s[k:]!r})] the text renders as {m_rows}, plain as {got_rows}", "/markup")
        except Exception as e:
            V("render-ok", f"Text.render of the markup [('a', {text_s[:k]!r}), ('b', {text_s[k:]!r})] raised {e!r}", "/markup/" + exc_site(e))
    # ---- structure
    try:
        lines = parse_layout(lay)
    except ValueError as e:
        V("structure", str(e))
        return
    by_off = {c.offs: i for i, c in enumerate(chars)}
    by_off[len(text)] = n
    if lay == [[]]:
        can_fit = not (width == 1 and any(c.width == 2 for c in chars))
        if can_fit or wrap in ("clip", "ellipsis"):
            V("undisplayable", f"layout is [[]] although every character fits in width {width}")
        if got_rows is not None and any(strip0(r).strip() for r in got_rows):
            V("undisplayable", f"undisplayable text rendered as {got_rows!r}")
        return
    cover = []  # (line index, first char idx, end char idx)
    last_end = 0
    ok = True
    for li, segs in enumerate(lines):
        prev_end = None
        for kind, sc, offs, x in segs:
            if kind != "text":
                continue
            if offs not in by_off or x not in by_off or not offs <= x:
                V("order-once", f"segment {(sc, offs, x)} is not on character boundaries")
                ok = False
                continue
            a, b = by_off[offs], by_off[x]
            if a < last_end:
                V("order-once", f"segment {(sc, offs, x)} repeats or reorders text already shown (line {li}) in {lay}")
                ok = False
            if prev_end is not None and a != prev_end:
                V("order-once", f"line {li} skips characters between its segments: {lay}")
                ok = False
            w = sum(c.width for c in chars[a:b])
            if w != sc:
                V("seg-width", f"segment {(sc, offs, x)} claims {sc} columns, text is {w} wide")
                ok = False
            if any(c.glyph == "\n" for c in chars[a:b]):
                V("hidden-allowed", f"segment {(sc, offs, x)} displays a newline character")
                ok = False
            cover.append((li, a, b))
            last_end = max(last_end, b)
            prev_end = b
    if not ok:
        return
    shown = set()
    for _li, a, b in cover:
        shown.update(range(a, b))
    nontrivial = len(lay) > 1 or any(c.width != 1 for c in chars)
    if nontrivial:
        ctx.distinct("nontrivial", (cfgname, form, text_s, width, wrap, align))

    if wrap in ("any", "space"):
        # fits + align (structure level)
        for li, segs in enumerate(lines):
            lw = sum(sc for kind, sc, _o, _x in segs if kind != "pad")
            pads = [sc for kind, sc, _o, _x in segs if kind == "pad"]
            pad = sum(pads)
            if lw + pad > width or lw > width:
                V("fits", f"line {li} is {lw}+{pad} columns wide, width {width}: {lay}")
            spare = width - lw
            want = {"left": 0, "center": (spare + 1) // 2, "right": spare}[align]
            if pad != want or (pads and segs[0][0] != "pad"):
                V("align", f"line {li}: {align} alignment pads {pad}, expected {want} of {spare} spare columns")
        # gaps: hidden characters
        line_of = {}
        for li, a, b in cover:
            for k in range(a, b):
                line_of[k] = li
        k = 0
        prev_line = -1
        while k <= n:
            if k < n and k in shown:
                prev_line = line_of[k]
                k += 1
                continue
            g0 = k
            while k < n and k not in shown:
                k += 1
            gap = chars[g0:k]
            next_line = line_of[k] if k < n else len(lay) - 1
            if k >= n and not gap:
                break
            breaks = next_line - prev_line if g0 > 0 or prev_line >= 0 else next_line
            if g0 == 0 and prev_line == -1:
                breaks = next_line  # gap before the first shown character
            bad = [c for c in gap if c.width > 0 and c.glyph not in (" ", "\n")]
            if bad:
                V("hidden-allowed", f"character {bad[0].glyph!r} at offset {bad[0].offs} is not displayed: {lay}")
            consumed = sum(1 for c in gap if c.glyph in (" ", "\n"))
            if k < n and g0 > 0 and consumed > breaks:
                V("hidden-allowed", f"{consumed} spaces/newlines hidden across {breaks} line break(s) at offset {chars[g0].offs}: {lay}")
            if k < n and g0 > 0 and gap and prev_line == next_line:
                V("hidden-allowed", f"characters hidden in the middle of line {prev_line}: {lay}")
            nl = sum(1 for c in gap if c.glyph == "\n")
            if k < n and g0 > 0 and nl > breaks:
                V("hidden-allowed", f"newline did not start a new line: {lay}")
            if k >= n:
                break
        # zero-width characters hidden from a line that shows something
        for li, a, b in cover:
            pass
        if wrap == "any":
            ref = ref_any(chars, width)
            if ref is None:
                V("undisplayable", f"a double-width character cannot fit in {width} column(s) but layout is {lay}")
            else:
                got = []
                ci = 0
                for li, segs in enumerate(lines):
                    tx = [(by_off[o], by_off[x]) for kind, _sc, o, x in segs if kind == "text"]
                    if tx:
                        got.append((tx[0][0], tx[-1][1]))
                    else:
                        hint = [o for kind, _sc, o, _x in segs if kind == "hint"]
                        got.append(None)
                ref2 = [r if r[0] != r[1] else None for r in ref]
                if got != ref2:
                    V("any-fills", f"'any' wrap lines {got} differ from greedy fill {ref2}")
        else:
            # space-legal: a forced break inside a run of narrow non-space characters only if the run is wider than width
            cov = sorted(cover, key=lambda t: t[1])
            for (l1, a1, b1), (l2, a2, b2) in zip(cov, cov[1:]):
                if l1 == l2 or b1 != a2:
                    continue
                c1, c2 = chars[b1 - 1], chars[a2]
                if c1.glyph in (" ", "\n") or c2.glyph in (" ", "\n") or c1.width == 2 or c2.width == 2:
                    continue
                # run of narrow (<=1 column) non-space characters around the break
                lo = b1 - 1
                while lo > 0 and chars[lo - 1].glyph not in (" ", "\n") and chars[lo - 1].width < 2:
                    lo -= 1
                hi = a2
                while hi + 1 < n and chars[hi + 1].glyph not in (" ", "\n") and chars[hi + 1].width < 2:
                    hi += 1
                rw = sum(c.width for c in chars[lo : hi + 1])
                if rw <= width:
                    V("space-legal", f"word {''.join(c.glyph for c in chars[lo:hi + 1])!r} ({rw} columns) fits in {width} but is broken: {lay}")
        # rendered rows equal the structure
        if got_rows is not None:
            for li, segs in enumerate(lines):
                exp = ""
                for kind, sc, o, x in segs:
                    if kind in ("pad", "hint"):
                        exp += " " * sc
                    elif kind == "ins":
                        exp += x.decode(codec)
                    else:
                        exp += "".join(c.glyph for c in chars[by_off[o] : by_off[x]])
                exp_v = strip0(exp)
                exp_v += " " * (width - swidth(exp_v))
                if li < len(got_rows) and strip0(got_rows[li]) != exp_v:
                    V("render-matches-layout", f"row {li} renders {got_rows[li]!r}, layout says {exp_v!r}")
    else:
        exp_rows = ref_trimmed_rows(chars, width, wrap, align, codec, mode)
        if got_rows is not None:
            if len(got_rows) != len(exp_rows):
                V("rows", f"{len(got_rows)} rows rendered, {len(exp_rows)} lines in the text")
            else:
                for li, (g, e) in enumerate(zip(got_rows, exp_rows)):
                    if strip0(g) not in {strip0(x) for x in e}:
                        V("clip-window", f"row {li} renders {g!r}; expected {sorted(e)!r}")
    if got_rows is not None:
        for li, g in enumerate(got_rows):
            gw = swidth(g) if mode == "utf8" else len(g.encode(codec))
            if gw != width:
                V("fits", f"rendered row {li} {g!r} is {gw} columns wide, width {width}")


def task_fn(task, ctx: Ctx):
    cfgname, form, prefix, maxlen, widths = task
    enc, codec, mode, alpha = CONFIGS[cfgname]
    env.reset(enc)
    for L in range(0, maxlen - len(prefix) + 1):
        for rest in itertools.product(alpha, repeat=L):
            text = prefix + "".join(rest)
            if prefix == "" and L > 0:
                break
            for width in widths:
                for wrap in WRAPS:
                    for align in ALIGNS:
                        check_case(ctx, cfgname, form, text, width, wrap, align)
    ctx.sample({"cfg": cfgname, "form": form, "prefix": prefix, "maxlen": maxlen, "widths": list(widths)})
    env.reset("utf-8")


def run(tier, R):
    L = 5 if tier == "quick" else 7
    widths = (1, 2, 3, 4) if tier == "quick" else (1, 2, 3, 4, 5, 6)
    tasks = []
    for cfgname, (_e, _c, _m, alpha) in CONFIGS.items():
        for form in ("str", "bytes"):
            LL = L if cfgname == "utf8" else L - 1
            if cfgname in SHORT:
                LL = SHORT[cfgname] if tier == "quick" else SHORT[cfgname] + 1
            tasks.append((cfgname, form, "", LL, widths))
            plen = 2 if tier == "quick" else 3
            for pre in itertools.product(alpha, repeat=plen):
                tasks.append((cfgname, form, "".join(pre), LL, widths))
            for k in range(1, plen):
                for pre in itertools.product(alpha, repeat=k):
                    tasks.append((cfgname, form, "".join(pre), k, widths))
    R.run_tasks(task_fn, tasks)
    ev = int(R.ctx.counts["evaluations"])
    cov = {
        "states": len(R.ctx.sets.get("nontrivial", ())),
        "transitions": ev,
        "traces_validated_against_impl": ev,
        "evaluations": ev,
        "distinct_nontrivial": len(R.ctx.sets.get("nontrivial", ())),
        "rule": f"every string of <= {L} characters over [a, b, space, newline, CJK wide, combining U+0301] (utf-8; <= {L - 1} over the encodable "
        f"subset for euc-jp and iso-8859-1 incl. é) as str and as encoded bytes x width {list(widths)} x 4 wrap modes x 3 alignments; non-trivial = "
        "cases with more than one line or a non-single-width character",
        "exhaustive": True,
    }
    return {
        "coverage": cov,
        "assumptions": [
            "'any' wrap is compared with an exact greedy reference; 'space' wrap with legality rules (breaks at spaces and next to double-width "
            "characters are always legal); clip/ellipsis rows with column windows (centre: either rounding)",
            "zero-width characters are not compared in rendered rows (their coverage is judged on the layout structure)",
            "ellipsis mark: the documented one ('…' if the encoding has it, else '...' shortened to fit)",
        ],
    }


def replay(case, ctx):
    env.reset(CONFIGS[case["cfg"]][0])
    check_case(ctx, case["cfg"], case["form"], case["text"], case["width"], case["wrap"], case["align"])
    env.reset("utf-8")
