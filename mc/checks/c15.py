"""C15 — the terminal emulator survives any output and tracks a VT100 faithfully.

Shape H on urwid.vterm.TermCanvas driven directly (stub widget):
  part 1 robustness  : BFS over ~110 byte tokens + resizes + view operations with exact-state dedup;
                       invariants on every state (no raise, grid shape, cursor / region inside, replies well formed,
                       chunking independence)
  part 2 faithfulness: BFS over the statement's VT100 subset with (emulator, reference) pairs, lock-step comparison
                       of glyphs, colours and cursor with mc/refs/vt_ref
  part 3 scrollback  : k line feeds then scroll_buffer by every amount: the view is the expected window; line deletion / insertion / reverse index add nothing
"""
from __future__ import annotations

import copy
import dataclasses
import itertools
import re

from .. import env
from ..core import Ctx, exc_site, watchdog, WatchdogTimeout
from ..refs.vt_ref import Term

import urwid
from urwid.vterm import TermCanvas, TermModes

ID = "C15"
LEVEL = "model_checking"

ESC = b"\x1b"


class StubWidget:
    def __init__(self):
        self.term_modes = TermModes()
        self.responses = []
        self.titles = []
        self.beeps = 0

    def respond(self, s):
        self.responses.append(s)

    def beep(self):
        self.beeps += 1

    def leds(self, which):
        pass

    def set_title(self, t):
        self.titles.append(t)


# ------------------------------------------------------------------ part 1 alphabet
def csi(s):
    return ESC + b"[" + s.encode("latin-1")


def robust_tokens(w, h):
    T = []
    for b in (b"a", b"~", b" ", "你".encode(), "é".encode(), b"\xe4\xbd", b"\x80", b"\xff", b"\xc3", b"\xf0\x9f\x98"):
        T.append(b)
    for c in (0x00, 0x07, 0x08, 0x09, 0x0A, 0x0B, 0x0D, 0x0E, 0x0F, 0x18, 0x1A, 0x7F, 0x9B):
        T.append(bytes([c]))
    for s in (b"c", b"D", b"E", b"H", b"M", b"Z", b"7", b"8", b"=", b">", b"#8", b"%G", b"%@", b"(0", b"(B", b")0", b")U", b"(K", b"Q", b"%", b"("):
        T.append(ESC + s)
    T += [ESC + b"]0;title\x07", ESC + b"]2;t\x1b\\", ESC + b"];\xff\xfe\x07", ESC + b"]P1234567", ESC + b"]R", ESC + b"]0;unterminated", ESC + b"]"]
    params = ["", "0", "1", "2", str(max(w, h) + 1), "999", ";;;", "12345678901234567890", f"{h};{w}", "1;999", "9" * 4400]  # the last one is beyond what int() converts by default (4300 digits)
    finals = "@ABCDEFGHJKLMPXacdefghlmnqrsu`"
    for f in finals:
        for p in params:
            if f in "hl" and p not in ("", "4", "20", "3", "999"):
                continue
            T.append(csi(p + f))
    for p in ("?1", "?3", "?5", "?6", "?7", "?25", "?2004", "?999", "?", "?6;7", "4", "20", "3"):
        T.append(csi(p + "h"))
        T.append(csi(p + "l"))
    for p in ("0", "1", "4", "5", "7", "10", "11", "12", "24", "27", "31", "44", "91", "104", "38;5;1", "48;5;255", "38;5;256", "38;5;999", "38;2;1;2;3", "38;2;999;999;999",
              "48;2;0;0;0", "38", "38;5", "38;2;1", "39;49", "1;31;44", "0;1", "999", "7;31", "1;4;5;7"):
        T.append(csi(p + "m"))
    T += [csi("?c"), csi("c"), csi("5n"), csi("6n"), csi("0c"), csi("?6n"), ESC + b"[", ESC + b"[1", ESC + b"[1;", ESC + b"[?", csi("1 q"), ESC + b"[\x18", ESC + b"[1\x1b[2J", ESC + b"[$", ESC + b"[!p"]
    # dedupe keep order
    seen = set()
    out = []
    for t in T:
        if t not in seen:
            seen.add(t)
            out.append(t)
    return out


STRUCT33 = None


def view_ops(w, h):
    return [("resize", 1, 1), ("resize", w + 2, h + 1), ("resize", w, h + 2), ("resize", max(1, w - 1), h), ("resize", w, max(1, h - 1)), ("resize", w + 9, h),
            ("scrollbuf", True, None), ("scrollbuf", False, None), ("scrollbuf", True, 1), ("scrollbuf_reset",), ("focus", True), ("focus", False)]  # fmt: skip


def canon_attr(a):
    if a is None:
        return None
    try:
        return (a.foreground, a.background, a.colors)
    except Exception as e:  # an attrspec that cannot describe itself
        return ("bad-attrspec", repr(e))


def canon_term(tc: TermCanvas):
    m = tc.modes
    cs = tc.charset
    return (
        tc.width,
        tc.height,
        tuple(tuple((canon_attr(c[0]), c[1], c[2]) for c in row) for row in tc.term),
        tc.term_cursor,
        tc.cursor,
        (tc.scrollregion_start, tc.scrollregion_end),
        dataclasses.astuple(m),
        canon_attr(tc.attrspec),
        (tuple(cs._g), cs._sgr_mapping, cs.active, cs.current),
        (tc.within_escape, tc.parsestate, bytes(tc.escbuf), tc.utf8_eat_bytes, bytes(tc.utf8_buffer)),
        tc.is_rotten_cursor,
        tc.saved_cursor,
        (canon_attr(tc.saved_attrs[0]), tuple(tc.saved_attrs[1]._g), tc.saved_attrs[1].active) if tc.saved_attrs else None,
        tuple(tc.tabstops),
        tuple(tuple((canon_attr(c[0]), c[1], c[2]) for c in row) for row in tc.scrollback_buffer),
        tc.scrolling_up,
        tc.has_focus,
    )


REPLY_RE = [re.compile(r"^\x1b\[0n$"), re.compile(r"^\x1b\[(\d+);(\d+)R$"), re.compile(r"^\x1b\[\?[\d;]*c$")]


class RState:
    def __init__(self, w, h, enc):
        self.widget = StubWidget()
        self.tc = TermCanvas(w, h, self.widget)
        self.fed = []  # byte tokens since the last non-feed op (for the chunking clause)
        self.enc = enc


def tok_feature(op):
    if op[0] != "feed":
        return op[0]
    b = op[1]
    if b.startswith(ESC + b"["):
        fin = b[-1:]
        return "CSI-" + (fin.decode("latin-1") if 0x40 <= fin[0] <= 0x7E else "incomplete")
    if b.startswith(ESC + b"]"):
        return "OSC"
    if b.startswith(ESC):
        return "ESC-" + b[1:2].decode("latin-1")
    if len(b) == 1 and b[0] < 0x20:
        return f"C0-{b[0]:02x}"
    if b[0] >= 0x80:
        return "high-bytes"
    return "printable"


class RobustSpec:
    def __init__(self, sizes, encs):
        self.cfgs = [(w, h, e) for (w, h) in sizes for e in encs]

    def configs(self, tier):
        return self.cfgs

    def build(self, cfg):
        w, h, enc = cfg
        env.reset(enc)
        return RState(w, h, enc)

    def ops(self, cfg, st: RState):
        w, h = st.tc.width, st.tc.height
        return [("feed", t) for t in robust_tokens(cfg[0], cfg[1])] + view_ops(cfg[0], cfg[1])

    def key(self, cfg, st: RState):
        return canon_term(st.tc)

    def apply(self, cfg, st: RState, op, ctx: Ctx, hist):
        env.reset(cfg[2]) if urwid.util.get_encoding() != cfg[2] else None
        tc = st.tc
        case = {"part": 1, "cfg": cfg, "hist": hist + (op,)}
        feat = tok_feature(op)
        ctx.count("evaluations")
        n_resp = len(st.widget.responses)
        try:
            if op[0] == "feed":
                with watchdog(2.0):
                    tc.addstr(op[1])
                st.fed.append(op[1])
            elif op[0] == "resize":
                tc.resize(op[1], op[2])
                st.fed = []
            elif op[0] == "scrollbuf":
                tc.scroll_buffer(up=op[1], lines=op[2])
                st.fed = []
            elif op[0] == "scrollbuf_reset":
                tc.scroll_buffer(reset=True)
                st.fed = []
            elif op[0] == "focus":
                tc.has_focus = op[1]
                tc.set_term_cursor()
                st.fed = []
        except WatchdogTimeout:
            ctx.violation("terminates", f"C15/terminates/{feat}", case, f"addstr({op[1]!r}) did not return within 2 s")
            return False
        except Exception as e:
            ctx.violation("no-raise", f"C15/no-raise/{feat}/{exc_site(e)}", case, repr(e))
            return False
        return self.invariants(cfg, st, ctx, case, feat, n_resp)

    def invariants(self, cfg, st, ctx, case, feat, n_resp):
        tc = st.tc

        def V(clause, detail, extra=""):
            ctx.violation(clause, f"C15/{clause}/{feat}{extra}", case, detail)

        ok = True
        if len(tc.term) != tc.height or any(len(r) != tc.width for r in tc.term):
            V("grid-shape", f"grid is {len(tc.term)} rows x {sorted({len(r) for r in tc.term})} cells, terminal is {tc.height}x{tc.width}")
            ok = False
        x, y = tc.term_cursor
        if not (0 <= x < tc.width and 0 <= y < tc.height):
            V("cursor-inside", f"cursor {tc.term_cursor} outside {tc.width}x{tc.height}")
            ok = False
        if not (0 <= tc.scrollregion_start <= tc.scrollregion_end <= tc.height - 1):
            V("region-inside", f"scrolling region {(tc.scrollregion_start, tc.scrollregion_end)} outside 0..{tc.height - 1}")
            ok = False
        c = tc.cursor
        if c is not None and not (0 <= c[0] < tc.width and 0 <= c[1] < tc.height):
            V("canvas-cursor-inside", f"canvas cursor {c} outside {tc.width}x{tc.height}")
        try:
            rows = list(tc.content())
            if len(rows) != tc.height or any(len(r) != tc.width for r in rows):
                V("content-shape", f"content() yields {len(rows)} rows x {sorted({len(r) for r in rows})} cells for {tc.height}x{tc.width}", "/view-scrolled" if tc.scrolling_up else "")
            for r in rows:
                for cell in r:
                    if not (isinstance(cell, tuple) and len(cell) == 3 and isinstance(cell[2], bytes)):
                        V("content-shape", f"malformed cell {cell!r}")
                        break
                    canon_attr(cell[0])
        except Exception as e:
            ctx.violation("no-raise", f"C15/no-raise/content/{exc_site(e)}" + ("/view-scrolled" if tc.scrolling_up else ""), case, repr(e))
            ok = False
        for r in st.widget.responses[n_resp:]:
            m = [rx.match(r) for rx in REPLY_RE]
            if not any(m):
                V("reply-well-formed", f"reply {r!r} matches no DSR/CPR/DA grammar")
            elif m[1]:
                ry, rx_ = int(m[1].group(1)), int(m[1].group(2))
                if not (1 <= ry <= tc.height and 1 <= rx_ <= tc.width):
                    V("reply-well-formed", f"cursor position reply {r!r} outside {tc.height}x{tc.width}")
        # chunking: the same bytes in one piece give the same state
        if len(st.fed) >= 2 and len(case["hist"]) == len(st.fed):
            w, h, enc = cfg
            other = RState(w, h, enc)
            try:
                other.tc.addstr(b"".join(st.fed))
                if canon_term(other.tc) != canon_term(tc):
                    V("chunking", "feeding the same bytes in one piece gives a different state")
            except Exception as e:
                ctx.violation("no-raise", f"C15/no-raise/{feat}/whole-feed/{exc_site(e)}", case, repr(e))
        ctx.distinct("outcomes", (tc.term_cursor, tc.width, tc.height, tc.parsestate, len(tc.scrollback_buffer)))
        return ok


# ------------------------------------------------------------------ part 2
def faithful_tokens(w, h, tier):
    T = [b"a", b"b", b"\r", b"\n", b"\x08"]
    T += [csi("H"), csi("1;1H"), csi("2;2H"), csi(f"{h};{w}H"), csi(f"1;{w}H"), csi(f"{h};1H"), csi("9;9H")]
    for f in "ABCD":
        T += [csi(f), csi("2" + f)]
    for f in "KJ":
        T += [csi(f), csi("1" + f), csi("2" + f)]
    for f in "@PLM":
        T += [csi(f), csi("2" + f)]
    T += [csi("1;2r"), csi("r"), ESC + b"M"]
    if h >= 3:
        T += [csi("2;3r"), csi(f"2;{h}r")]
    if h >= 4:
        T += [csi("3;4r"), csi("3;1H")]
    T += [csi("31m"), csi("44m"), csi("1m"), csi("0m"), csi("m"), csi("1;32m")]
    return T


def ref_cell_of(cell):
    """emulator cell -> (glyph, fg, bg, bold)"""
    a, _cs, ch = cell
    glyph = ch.decode("utf-8", "replace")
    if a is None:
        return glyph, None, None, False
    bold = a.bold
    fg = None if not (a.foreground_basic or a.foreground_high or a.foreground_true) else a.foreground_number
    bg = None if not (a.background_basic or a.background_high or a.background_true) else a.background_number
    if fg is not None and a.colors == 16 and bold and fg >= 8:
        fg -= 8
    return glyph, fg, bg, bold


class FState:
    def __init__(self, w, h):
        self.widget = StubWidget()
        self.tc = TermCanvas(w, h, self.widget)
        self.ref = Term(w, h, codec="utf-8")
        self.moved_since_last_col = False  # a non-printing token was processed while the wrap was pending


def classify(op_bytes, tc_before):
    """Feature of a discrepancy: the token kind + the context flags that known deviations depend on."""
    b = op_bytes
    if b.startswith(ESC + b"["):
        name = "CSI-" + b[-1:].decode()
        par = b[2:-1].decode()
        if b[-1:] in b"JK":
            name += par or "0"
    elif b.startswith(ESC):
        name = "ESC-" + b[1:].decode()
    elif b[0] < 0x20:
        name = {0x0D: "CR", 0x0A: "LF", 0x08: "BS"}.get(b[0], f"C0-{b[0]:02x}")
    else:
        name = "char"
    ctxs = []
    if tc_before["rotten"]:
        ctxs.append("after-last-column-write")
        if tc_before["moved"]:
            ctxs.append("cursor-moved-or-erased-since")
    if tc_before["region"]:
        ctxs.append("scroll-region-set")
        if not tc_before["cursor_in_region"]:
            ctxs.append("cursor-outside-region")
    return name + ("/" + "+".join(ctxs) if ctxs else "")


class FaithSpec:
    def __init__(self, sizes, tier):
        self.cfgs = list(sizes)
        self.tier = tier

    def configs(self, tier):
        return self.cfgs

    def build(self, cfg):
        env.reset("utf-8")
        return FState(*cfg)

    def ops(self, cfg, st):
        return [("feed", t) for t in faithful_tokens(cfg[0], cfg[1], self.tier)]

    def key(self, cfg, st: FState):
        return (canon_term(st.tc), st.ref.snapshot(), st.moved_since_last_col)

    def apply(self, cfg, st: FState, op, ctx: Ctx, hist):
        tc, ref = st.tc, st.ref
        case = {"part": 2, "cfg": cfg, "hist": hist + (op,)}
        before = {
            "rotten": tc.is_rotten_cursor,
            "region": (tc.scrollregion_start, tc.scrollregion_end) != (0, tc.height - 1),
            "cursor_in_region": tc.scrollregion_start <= tc.term_cursor[1] <= tc.scrollregion_end,
            "moved": st.moved_since_last_col,
        }
        printing = not (op[1].startswith(ESC) or op[1][0] < 0x20)
        sgr = op[1].startswith(ESC + b"[") and op[1].endswith(b"m")
        ctx.count("evaluations")
        try:
            tc.addstr(op[1])
        except Exception as e:
            ctx.violation("no-raise", f"C15/no-raise/{tok_feature(op)}/{exc_site(e)}", case, repr(e))
            return False
        feat = classify(op[1], before)
        # where the VT100 family disagrees (DEC/xterm vs Linux console) every combination is an acceptable successor
        variants = [()]
        if op[1].startswith(ESC + b"[") and op[1][-1:] in b"LMAB":
            variants = list(itertools.product((True, False), repeat=3))
        first_fail = None
        for var in variants:
            cand = copy.deepcopy(ref)
            if var:
                cand.v_il_resets_col, cand.v_cuu_margins, cand.v_il_outside = var[0], var[1], not var[2]
            cand.feed(op[1])
            fail = self.compare(tc, cand)
            if fail is None:
                st.ref = cand
                if printing:
                    st.moved_since_last_col = False
                elif not sgr and cand.pw is False and before["rotten"]:
                    st.moved_since_last_col = True
                cand.v_il_resets_col, cand.v_cuu_margins, cand.v_il_outside = True, True, False
                if len(hist) >= 1:
                    ctx.distinct("nontrivial", (cfg, tuple(cand.glyph_rows()), cand.x, cand.y))
                return True
            if first_fail is None:
                first_fail = fail
        kind, detail = first_fail
        ctx.violation("matches-vt100", f"C15/matches-vt100/{kind}/{feat}", case, detail)
        return False

    @staticmethod
    def compare(tc, ref):
        """None if the emulator shows what the reference shows, else (kind, detail)."""
        ok = True
        for y in range(tc.height):
            for x in range(tc.width):
                g, fg, bg, bold = ref_cell_of(tc.term[y][x])
                rg, rfg, rbg, rfl = ref.g[y][x]
                rfg = rfg[1] if rfg else None
                rbg = rbg[1] if rbg else None
                if g != rg:
                    return "glyphs", f"cell ({x},{y}): emulator {g!r}, VT100 {rg!r}; emulator rows {[b''.join(c[2] for c in r) for r in tc.term]}, reference {ref.glyph_rows()}"
                if bg != rbg or (g != " " and (fg != rfg or bold != ("bold" in rfl))):
                    return "colours", f"cell ({x},{y}) {g!r}: emulator fg={fg} bg={bg} bold={bold}, VT100 fg={rfg} bg={rbg} flags={sorted(rfl)}"
        if tc.term_cursor != (ref.x, ref.y):
            return "cursor", f"emulator cursor {tc.term_cursor}, VT100 {(ref.x, ref.y)} (pending wrap {ref.pw})"
        return None


# ------------------------------------------------------------------ part 3
def t_scrollback(task, ctx: Ctx):
    env.reset("utf-8")
    _, w, h, kmax = task[:4]
    kmin = task[4] if len(task) > 4 else 0
    for k in range(kmin, kmax + 1):
        wid = StubWidget()
        tc = TermCanvas(w, h, wid)
        lines = []
        for i in range(k):
            s = f"{i % 10}".encode() * min(w, 2)
            tc.addstr(s + b"\r\n")
            lines.append(s.decode().ljust(w))
        full = lines + [" " * w]  # every written line + the line the cursor is on
        full = [" " * w] * max(0, h - len(full)) if False else full
        # expected screen: last h lines of `full` (top padded with nothing: blank lines are below)
        total = len(full)
        screen_top = max(0, total - h)
        case0 = {"part": 3, "w": w, "h": h, "linefeeds": k}
        sb = [b"".join(c[2] for c in row).decode() for row in tc.scrollback_buffer]
        if sb != full[:screen_top]:
            ctx.violation("scrollback-order", "C15/scrollback-order/buffer", case0, f"scrollback holds {sb}, expected {full[:screen_top]}")
            continue
        # only lines that scroll off the top are history: deleting / inserting lines and reverse index leave the scrollback as it is
        # (a line leaving a scrolling region whose top margin is below the first row is kept by urwid and dropped by xterm: not judged)
        for label, seq in (("delete-lines", b"\x1b[1;1H\x1b[2M"), ("delete-lines-mid", b"\x1b[2;1H\x1b[1M"), ("insert-lines", b"\x1b[1;1H\x1b[2L"), ("reverse-index", b"\x1b[1;1H\x1bM\x1bM")):
            if h < 2 and label == "delete-lines-mid":
                continue
            ctx.count("evaluations")
            t3 = TermCanvas(w, h, StubWidget())
            for i in range(k):
                t3.addstr(f"{i % 10}".encode() * min(w, 2) + b"\r\n")
            try:
                t3.addstr(seq)
            except Exception as e:
                ctx.violation("no-raise", f"C15/no-raise/scrollback/{label}/{exc_site(e)}", dict(case0, then=label), repr(e))
                continue
            sb3 = [b"".join(c[2] for c in row).decode() for row in t3.scrollback_buffer]
            if sb3 != full[:screen_top]:
                ctx.violation("scrollback-order", f"C15/scrollback-order/buffer/after-{label}", dict(case0, then=label), f"after {seq!r} the scrollback holds {sb3}, expected {full[:screen_top]} (nothing scrolled off the top)")
        for up_lines in range(0, screen_top + 3):
            for mode in ("lines", "half"):
                tc.scroll_buffer(reset=True)
                ctx.count("evaluations")
                case = dict(case0, up=up_lines, mode=mode)
                try:
                    if mode == "lines":
                        if up_lines:
                            tc.scroll_buffer(up=True, lines=up_lines)
                        off = min(up_lines, screen_top)
                    else:
                        for _ in range(up_lines):
                            tc.scroll_buffer(up=True)
                        off = min(up_lines * (h // 2), screen_top)
                    view = [b"".join(c[2] for c in row).decode() for row in tc.content()]
                except Exception as e:
                    ctx.violation("no-raise", f"C15/no-raise/scrolled-view/{exc_site(e)}", case, repr(e))
                    continue
                exp = (full + [" " * w] * h)[screen_top - off : screen_top - off + h]
                if view != exp:
                    ctx.violation("scrollback-order", f"C15/scrollback-order/view/{mode}", case, f"view {view}, expected {exp} (offset {off})")
                # scrolling back down by the same amount returns to the live screen
                try:
                    tc.scroll_buffer(up=False, lines=10**6)
                    view2 = [b"".join(c[2] for c in row).decode() for row in tc.content()]
                    exp2 = (full + [" " * w] * h)[screen_top : screen_top + h]
                    if view2 != exp2:
                        ctx.violation("scrollback-order", "C15/scrollback-order/view/return", case, f"after scrolling back down: {view2}, expected {exp2}")
                except Exception as e:
                    ctx.violation("no-raise", f"C15/no-raise/scrolled-view/{exc_site(e)}", case, repr(e))
                if off:
                    ctx.distinct("nontrivial", ("sb", w, h, k, off))
        # signed amounts: whatever direction a negative count means, the view stays a height-row window onto scrollback + screen
        for start in sorted({0, min(1, screen_top), screen_top}):
            for up in (True, False):
                for amount in sorted({-1, -h, -(screen_top + 2)}):
                    ctx.count("evaluations")
                    case = dict(case0, start=start, up=up, lines=amount)
                    try:
                        tc.scroll_buffer(reset=True)
                        if start:
                            tc.scroll_buffer(up=True, lines=start)
                        tc.scroll_buffer(up=up, lines=amount)
                        view = [b"".join(c[2] for c in row).decode() for row in tc.content()]
                    except Exception as e:
                        ctx.violation("no-raise", f"C15/no-raise/scrolled-view/{exc_site(e)}", case, repr(e))
                        continue
                    lines_all = full + [" " * w] * h
                    windows = [lines_all[o : o + h] for o in range(0, screen_top + 1)]
                    if view not in windows:
                        ctx.violation("scrollback-order", "C15/scrollback-order/view/negative-amount", case, f"view {view} is not a {h}-row window onto {lines_all[: screen_top + h]}")
        tc.scroll_buffer(reset=True)
        # resizes while the view is scrolled back, and the cursor across a resize
        for up_lines in range(0, screen_top + 2):
            for (nw, nh) in ((w, h + 1), (w, h + 3), (w + 2, h), (max(1, w - 1), h), (w, max(1, h - 1)), (w + 1, h + 2)):
                ctx.count("evaluations")
                wid2 = StubWidget()
                t2 = TermCanvas(w, h, wid2)
                for i in range(k):
                    t2.addstr(f"{i % 10}".encode() * min(w, 2) + b"\r\n")
                t2.addstr(b"x" * min(w - 1, 1))
                cur0 = t2.term_cursor
                case = dict(case0, up=up_lines, resize=(nw, nh))
                try:
                    if up_lines:
                        t2.scroll_buffer(up=True, lines=up_lines)
                    t2.resize(nw, nh)
                    rows = list(t2.content())
                except Exception as e:
                    ctx.violation("no-raise", f"C15/no-raise/resize-scrolled/{exc_site(e)}", case, repr(e))
                    continue
                if len(rows) != nh or any(len(r) != nw for r in rows):
                    ctx.violation("content-shape", "C15/content-shape/resize" + ("/view-scrolled" if up_lines else ""), case,
                                  f"after resize to {nw}x{nh} content() yields {len(rows)} rows x {sorted({len(r) for r in rows})} cells")
                if len(t2.term) != nh or any(len(r) != nw for r in t2.term):
                    ctx.violation("grid-shape", "C15/grid-shape/resize", case, f"grid {len(t2.term)} rows after resize to {nw}x{nh}")
                # a width-only resize does not move lines: the cursor stays on its row
                if nh == h and not up_lines:
                    cx, cy = t2.term_cursor
                    if cy != cur0[1] or cx != min(cur0[0], nw - 1):
                        ctx.violation("matches-vt100", "C15/matches-vt100/resize-width/cursor", case, f"cursor {cur0} before a width-only resize to {nw}x{nh}, {t2.term_cursor} after")
    ctx.sample({"part": 3, "w": w, "h": h, "kmax": kmax})


def run(tier, R):
    quick = tier == "quick"
    sizes = [(1, 1), (2, 2), (3, 2), (4, 3), (8, 3)]
    encs = ["utf-8"] if quick else ["utf-8", "iso-8859-1"]
    rs = RobustSpec(sizes if not quick else [(1, 1), (3, 2), (4, 3), (9, 3)], encs)
    res1 = R.bfs(rs, depth=2, max_states=None)
    res1b = None
    if not quick:
        # three tokens deep on one size only (depth 3 on every size and encoding is > 10^7 transitions and did not fit the budget)
        res1b = R.bfs(RobustSpec([(3, 2)], ["utf-8"]), depth=3, max_states=400_000)
    fs = FaithSpec([(3, 2), (4, 3), (2, 4)], tier)
    res2 = R.bfs(fs, depth=4 if quick else 5, max_states=600000)  # (depth 6 is ~2*10^7 transitions: did not fit the budget)
    kmax = 12 if quick else 24
    R.run_tasks(t_scrollback, [("sb", w, h, min(k0 + 3, kmax), k0) for (w, h) in ((3, 2), (4, 3), (2, 1), (5, 4)) for k0 in range(0, kmax + 1, 4)])
    ev = int(R.ctx.counts["evaluations"])
    cov = {
        "states": res1["states"] + res2["states"] + (res1b["states"] if res1b else 0),
        "transitions": res1["transitions"] + res2["transitions"] + (res1b["transitions"] if res1b else 0),
        "traces_validated_against_impl": res2["transitions"],
        "evaluations": ev,
        "distinct_nontrivial": len(R.ctx.sets.get("nontrivial", ())),
        "distinct_outcomes": len(R.ctx.sets.get("outcomes", ())),
        "rule": f"part 1: BFS depth {res1['depth']} over {len(robust_tokens(4, 3))} byte tokens (printable, CJK, invalid/truncated UTF-8, C0, 0x9B, ESC-level, OSC, "
        "every CSI final of the command table x 16 parameter forms, private modes, SGR incl. out-of-range colours, incomplete sequences) + 6 resizes + "
        f"scrollback view ops on sizes {rs.cfgs}, dedup on the complete emulator state ({res1['states']} states); part 2: BFS depth {res2['depth']} over "
        f"{len(faithful_tokens(4, 3, tier))} tokens of the VT100 subset on 3x2, 4x3 and 2x4 with (emulator, reference) pair states ({res2['states']} states); part 3: "
        "k line feeds then every scroll_buffer amount. non-trivial = distinct reference screens reached in part 2 + scrolled views",
        "exhaustive": not res2["capped"],
        "bfs_levels_part1": res1["levels"],
        "part1_depth3_on_3x2": None if res1b is None else {"states": res1b["states"], "transitions": res1b["transitions"], "levels": res1b["levels"], "capped": res1b["capped"]},
        "bfs_levels_part2": res2["levels"],
    }
    return {
        "coverage": cov,
        "assumptions": [
            "reference VT100 = mc/refs/vt_ref.py (xterm semantics: pending-wrap flag cleared by cursor movement, IL/DL only inside the margins, "
            "CUU/CUD stop at the margins, ED/EL inclusive of the cursor cell)",
            "erased cells are compared by glyph and background only (foreground/bold of a blank are invisible)",
            "a path is not extended past a discrepancy (the two machines are no longer in the same state)",
        ],
    }


def replay(case, ctx):
    part = case["part"]
    if part == 3:
        t_scrollback(("sb", case["w"], case["h"], case["linefeeds"]), ctx)
        return
    cfg = tuple(case["cfg"])
    hist = tuple(tuple(op) for op in case["hist"])
    spec = RobustSpec([cfg[:2]], [cfg[2]]) if part == 1 else FaithSpec([cfg], "thorough")
    st = spec.build(cfg)
    for i, op in enumerate(hist):
        ctx.muted = i < len(hist) - 1
        spec.apply(cfg, st, op, ctx, hist[:i])
        print("  step", i, op, "cursor", st.tc.term_cursor, [b"".join(c[2] for c in r) for r in st.tc.term], (st.ref.glyph_rows(), st.ref.x, st.ref.y) if part == 2 else "")
    ctx.muted = False
