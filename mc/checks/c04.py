"""C04 — the bytes sent to the terminal paint exactly the rendered canvas.

Shape H over draw histories: the real raw display Screen writes into a capturing stream that the
reference terminal (mc/refs/vt_ref.py) interprets.  After a correct draw the state is a function of
the frame, so all transitions are covered by (a) every frame of the alphabet painted on a cleared
screen, (b) every ordered pair of a frame subset drawn one after the other (incremental redraw),
(c) triples with clear() and resize in between, in every configuration (colour depth x
back_color_erase x output encoding).  After every draw each terminal cell must show the glyph and
rendition of the canvas cell, the cursor must match, nothing may scroll, insert mode must be off.
The HTML back-end is fed the same frames.
"""
from __future__ import annotations

import html as htmlmod
import itertools
import re

from .. import env
from ..core import Ctx, exc_site
from ..refs import widths as W
from ..refs.vt_ref import DEC, Term
from ..virt.screen import make_screen
from .c17 import rendition, want_for

import urwid
from urwid.canvas import TextCanvas
from urwid.display.common import AttrSpec

ID = "C04"
LEVEL = "model_checking"

PALETTE = [
    ("x", "light red", "dark blue", None, None, None),
    ("so", "yellow", "default", "standout", "#ff0,underline", "default"),
    ("ul", "light gray,underline", "black", "underline", None, None),
]
PAL = {e[0]: e for e in PALETTE}
AS_UL = ("spec", "default,underline", "default")
AS_SO = ("spec", "white,standout", "dark green")
AS_PLAIN = ("spec", "light green", "dark red")


def attr_obj(a):
    if isinstance(a, tuple) and a and a[0] == "spec":
        return AttrSpec(a[1], a[2])
    return a


def cell_kinds(enc):
    wide = ("你", "x") if enc == "utf-8" else ("é", "x")
    out = [(" ", None), ("a", None), ("b", "x"), (" ", "x"), wide, ("┌", None), ("┐", "x"), ("c", "so"), (" ", "so"), ("d", "u"),
           ("e", AS_UL), (" ", AS_SO), ("f", AS_PLAIN), (" ", "ul")]
    if enc == "utf-8":
        out.append(("g\u0301", None))  # a base character with a combining mark: one cell, two code points
    return out


def cw(ch, enc):
    return W.swidth(ch)


_ROWS: dict = {}


def rows_alphabet(enc, cols, kinds=None):
    key = (enc, cols)
    if kinds is None and key in _ROWS:
        return _ROWS[key]
    full = kinds is None
    kinds = kinds or cell_kinds(enc)
    if cols >= 4 and full:
        kinds = [k for k in kinds if k[1] in (None, "x", "so") or k[0] == " "]  # wider rows: fewer attribute kinds
    out = []
    seen = set()

    def rec(prefix, w):
        if w == cols:
            k = tuple(prefix)
            if k not in seen:
                seen.add(k)
                out.append(k)
            return
        for ch, a in kinds:
            c = cw(ch, enc)
            if w + c <= cols:
                rec(prefix + [(ch, a)], w + c)

    rec([], 0)
    if full:
        _ROWS[key] = out
    return out


def mk_canvas(rows, cursor, cols, enc):
    text = []
    attr = []
    css = []
    for r in rows:
        bt = b""
        al = []
        cl = []
        for ch, a in r:
            if ch in DEC.values() and enc != "utf-8":
                # what apply_target_encoding produces for a DEC special character in a non-utf-8 encoding
                inv = {v: k for k, v in DEC.items()}
                b = inv[ch].encode("ascii")
                cs = "0"
            else:
                b = ch.encode(enc)
                cs = None
            bt += b
            ao = attr_obj(a)
            if al and al[-1][0] == ao and type(al[-1][0]) is type(ao):
                al[-1] = (ao, al[-1][1] + len(b))
            else:
                al.append((ao, len(b)))
            if cl and cl[-1][0] == cs:
                cl[-1] = (cs, cl[-1][1] + len(b))
            else:
                cl.append((cs, len(b)))
        text.append(bt)
        attr.append(al)
        css.append(cl)
    return TextCanvas(text, attr, css, cursor=cursor, maxcol=cols, check_width=False)


def expected_cells(rows, colors, bright, enc):
    out = []
    for r in rows:
        cells = []
        for ch, a in r:
            if isinstance(a, tuple):
                spec = AttrSpec(a[1], a[2])
            elif a in PAL:
                spec = AttrSpec(*want_for(PAL[a], colors))
            else:
                spec = AttrSpec("default", "default")
            fgs, bg, flags = rendition(spec, bright)
            c = cw(ch, enc)
            cells.append((ch, fgs, bg, flags))
            if c == 2:
                cells.append(("", fgs, bg, flags))
        out.append(cells)
    return out


def cell_ok(tc, ec):
    glyph, fg, bg, flags = tc
    eg, efgs, ebg, eflags = ec
    if glyph != eg:
        return False
    if eg == " ":
        # a blank: only what is visible counts (erase-to-end-of-line legitimately leaves bold/italics/blink unset)
        vis = {"reverse", "underline", "strike"}
        if bg != ebg or (flags & vis) != (eflags & vis):
            return False
        if "reverse" in eflags and fg not in efgs:
            return False
        return True
    return fg in efgs and bg == ebg and flags == eflags


class Session:
    def __init__(self, cfg, size):
        colors, bce, enc = cfg
        self.cfg = cfg
        self.size = size
        self.scr, self.out = make_screen(colors, False, bce)
        self.bright = False
        self.scr.register_palette(e for e in PALETTE)  # an Iterable: a one-shot generator here
        self.scr.start()
        self.term = Term(size[0], size[1], codec=enc, bce=True)
        self.term.feed(self.out.take())

    def draw(self, rows, cursor):
        colors, bce, enc = self.cfg
        if rows and rows[0] == "SOLID":
            # a SolidCanvas drawn as the top-level canvas (its content() hands out one row object for every row)
            canv = urwid.SolidCanvas(rows[1], self.size[0], self.size[1])
        else:
            canv = mk_canvas(rows, cursor, self.size[0], enc)
        self.term.scrolls = 0
        self.term.wrapped_at_bottom_right = 0
        del self.term.unknown[:]
        self.scr.draw_screen(self.size, canv)
        data = self.out.take()
        self.term.feed(data)
        return canv, data

    def judge(self, rows, cursor):
        """None or (clause, detail)"""
        colors, bce, enc = self.cfg
        t = self.term
        if rows and rows[0] == "SOLID":
            rows = tuple(((rows[1], None),) * self.size[0] for _ in range(self.size[1]))
        if t.unknown:
            return ("unknown-sequence", f"the terminal did not understand {t.unknown[:3]}")
        if t.scrolls:
            return ("no-scroll", f"the screen scrolled {t.scrolls} line(s)")
        exp = expected_cells(rows, colors, self.bright, enc)
        for y in range(self.size[1]):
            for x in range(self.size[0]):
                if not cell_ok(t.g[y][x], exp[y][x]):
                    what = "cells" if t.g[y][x][0] != exp[y][x][0] else "attrs"
                    return (what, f"cell ({x},{y}) shows {t.g[y][x]}, the canvas has {(exp[y][x][0], sorted(map(str, exp[y][x][1])), exp[y][x][2], sorted(exp[y][x][3]))}; "
                            f"screen {t.glyph_rows()}")
        if cursor is None:
            if t.cursor_visible:
                return ("cursor", "the canvas has no cursor but the terminal cursor is visible")
        elif not t.cursor_visible or (t.x, t.y) != tuple(cursor):
            return ("cursor", f"canvas cursor {cursor}, terminal cursor {(t.x, t.y)} visible={t.cursor_visible}")
        if t.insert:
            return ("insert-mode-off", "insert mode was left on")
        return None

    def clear(self):
        self.scr.clear()

    def new_term(self, size):
        """the same terminal with unknown contents: modes, charset designation and shift state survive"""
        old = self.term
        t = Term(size[0], size[1], codec=self.cfg[2], bce=True, garbage=True)
        t.gset = list(old.gset)
        t.shift = old.shift
        t.modes = set(old.modes)
        t.cursor_visible = old.cursor_visible
        t.insert = old.insert
        t.fg, t.bg, t.flags = old.fg, old.bg, old.flags
        self.term = t

    def resize(self, size):
        self.size = size
        self.new_term(size)
        # what _sigwinch_handler + get_cols_rows do
        self.scr._resized = True
        self.scr.screen_buf = None
        self.scr._resized = False

    def stop(self):
        try:
            self.scr.stop()
        except Exception:
            pass


def frames_for(enc, size, tier, part):
    cols, rows_n = size
    R = rows_alphabet(enc, cols)
    if rows_n == 1:
        tops = [()]
    else:
        tops = [R[0], R[len(R) // 3], R[(2 * len(R)) // 3], R[-1]]
    cursors = [None, (0, 0), (cols - 1, rows_n - 1)]
    if part == "single":
        sel = R[:: max(1, len(R) // (2500 if tier != "quick" else 400))]
        tsel = tops[:2] if tier == "quick" else tops
    else:
        step = max(1, len(R) // (16 if tier == "quick" else 40))
        # every k-th row plus rows built for the known mechanisms: trailing blanks with/without standout, one-cell runs at the end
        special = [r for r in R if r[-1] in ((" ", "so"), (" ", AS_SO), (" ", "ul"), (" ", "x"), ("┌", None), ("┐", "x")) and len({a for _, a in r[-3:]}) >= 2]
        special = special[:: max(1, len(special) // (14 if tier == "quick" else 24))]
        sel = R[::step] + special
        tsel = tops[:1] if tier == "quick" else tops[:2]
    frames = []
    for top in tsel:
        for bot in sel:
            body = ([top] if rows_n > 1 else []) + ([R[1]] * (rows_n - 2) if rows_n > 2 else []) + [bot]
            for cur in cursors if part == "single" else cursors[::2]:
                frames.append((tuple(body), cur))
    return frames


def sig(cfg, clause, size, extra=""):
    colors, bce, enc = cfg
    return f"C04/{clause}/{'utf8' if enc == 'utf-8' else 'narrow'}/{'bce' if bce else 'nobce'}/depth{colors}{('/' + extra) if extra else ''}"


def report(ctx, cfg, size, hist, verdict, extra=""):
    clause, detail = verdict
    ctx.violation(clause, sig(cfg, clause, size, extra), {"cfg": cfg, "size": size, "hist": hist}, detail)


def replay_hist(cfg, size, hist):
    """run a history on a fresh session; returns verdict of the last draw"""
    s = Session(cfg, size)
    v = None
    try:
        for op in hist:
            if op[0] == "draw":
                s.draw(op[1], op[2])
                v = s.judge(op[1], op[2])
            elif op[0] == "clear":
                s.clear()
            elif op[0] == "resize":
                s.resize(tuple(op[1]))
            elif op[0] == "bright":
                # the application learns how the terminal shows bright colours after the palette was registered (the screen clears itself)
                s.scr.set_terminal_properties(bright_is_bold=op[1])
                s.bright = op[1]
                s.new_term(s.size)
            elif op[0] == "encoding":
                # the application switches its output encoding on the live screen (and so does the terminal)
                urwid.set_encoding(op[1])
                s.cfg = (s.cfg[0], s.cfg[1], op[1])
                s.term.codec = op[1]
    finally:
        s.stop()
    return v


def encswitch_task(task, ctx: Ctx):
    """draw under one encoding, switch the encoding, force a clear, draw under the other: the terminal shows the new canvas"""
    cfg, size, tier = task
    e1 = cfg[2]
    e2 = "iso-8859-1" if e1 == "utf-8" else "utf-8"
    env.reset(e1)
    fa = frames_for(e1, size, tier, "pair")
    env.reset(e2)
    fb = frames_for(e2, size, tier, "pair")
    sa = fa[:: max(1, len(fa) // 3)]
    sb = fb[:: max(1, len(fb) // (24 if tier == "quick" else 80))]
    for a in sa:
        for b in sb:
            ctx.count("evaluations")
            env.reset(e1)
            hist = [("draw", a[0], a[1]), ("encoding", e2), ("clear",), ("draw", b[0], b[1])]
            run_hist(ctx, cfg, size, hist, "after-encoding-switch")
    env.reset("utf-8")


def solid_task(task, ctx: Ctx):
    """a top-level SolidCanvas before / after / between text frames"""
    cfg, size, tier = task
    env.reset(cfg[2])
    fa = frames_for(cfg[2], size, tier, "pair")
    sa = fa[:: max(1, len(fa) // (12 if tier == "quick" else 40))]
    for ch in (" ", "x"):
        solid = ("draw", ("SOLID", ch), None)
        for hist in ([solid], [solid, solid], [solid, ("clear",), solid]):
            ctx.count("evaluations")
            run_hist(ctx, cfg, size, hist, "solid")
        for a in sa:
            da = ("draw", a[0], a[1])
            for hist in ([da, solid], [solid, da], [da, solid, da], [da, ("clear",), solid], [solid, da, solid]):
                ctx.count("evaluations")
                run_hist(ctx, cfg, size, hist, "solid")
    env.reset("utf-8")


def props_task(task, ctx: Ctx):
    """bright_is_bold switched on the live screen (palette already registered), alone and back again, between frames"""
    cfg, size, tier = task
    env.reset(cfg[2])
    fa = frames_for(cfg[2], size, tier, "pair")
    sa = fa[:: max(1, len(fa) // (16 if tier == "quick" else 48))]
    for a in sa:
        da = ("draw", a[0], a[1])
        for hist in ([("bright", True), da], [da, ("bright", True), da], [("bright", True), da, ("bright", False), da]):
            ctx.count("evaluations")
            run_hist(ctx, cfg, size, hist, "bright-is-bold-switched")
    env.reset("utf-8")


def single_task(task, ctx: Ctx):
    cfg, size, tier, lo, hi = task
    env.reset(cfg[2])
    frames = frames_for(cfg[2], size, tier, "single")[lo:hi]
    s = Session(cfg, size)
    for rows, cur in frames:
        ctx.count("evaluations")
        try:
            s.clear()
            s.new_term(size)
            s.draw(rows, cur)
            v = s.judge(rows, cur)
        except Exception as e:
            v = ("draw-raises", f"draw_screen raised {type(e).__name__}: {e}")
            report(ctx, cfg, size, [("draw", rows, cur)], v, exc_site(e))
            s.stop()
            s = Session(cfg, size)
            continue
        ctx.obs(cfg, size, rows, cur, v)
        if v:
            report(ctx, cfg, size, [("clear",), ("draw", rows, cur)], v, "full-paint")
        else:
            ctx.distinct("nontrivial", (cfg, size, rows, cur))
    s.stop()
    env.reset("utf-8")


def pair_task(task, ctx: Ctx):
    cfg, size, tier, lo, hi = task
    env.reset(cfg[2])
    frames = frames_for(cfg[2], size, tier, "pair")
    s = Session(cfg, size)
    prev = None
    for i in range(lo, min(hi, len(frames))):
        for j in range(len(frames)):
            if i == j:
                continue
            # walk i, j, i: covers i -> j and j -> i (for j > i only, the other half comes from the task of j)
            if j < i:
                continue
            for f in (frames[i], frames[j], frames[i]):
                ctx.count("evaluations")
                try:
                    s.draw(f[0], f[1])
                    v = s.judge(f[0], f[1])
                except Exception as e:
                    v = ("draw-raises", f"draw_screen raised {type(e).__name__}: {e}")
                ctx.obs(cfg, size, f, v)
                if v:
                    # confirm on a fresh session with the two-frame history, so that the case is self-contained
                    hist = ([("draw", prev[0], prev[1])] if prev else []) + [("draw", f[0], f[1])]
                    try:
                        v2 = replay_hist(cfg, size, hist)
                    except Exception as e:
                        v2 = ("draw-raises", f"{type(e).__name__}: {e}")
                    if v2:
                        report(ctx, cfg, size, hist, v2, "incremental")
                    else:
                        report(ctx, cfg, size, hist, v, "incremental/after-longer-history")
                    s.stop()
                    s = Session(cfg, size)
                    prev = None
                    continue
                prev = f
                ctx.distinct("nontrivial", (cfg, size, "pair", prev, f))
    s.stop()
    env.reset("utf-8")


def triple_task(task, ctx: Ctx):
    cfg, size, tier, lo, hi = task
    env.reset(cfg[2])
    frames = frames_for(cfg[2], size, tier, "pair")
    sel = frames[:: max(1, len(frames) // (10 if tier == "quick" else 24))]
    other = (size[0] + 1, size[1]) if size[0] < 5 else (size[0] - 1, size[1] + 1)
    oframes = frames_for(cfg[2], other, tier, "pair")
    osel = oframes[:: max(1, len(oframes) // 6)]
    for a in sel[lo:hi]:
        for b in sel:
            for mid in ("clear", "same-canvas", "resize-back", "resize"):
                ctx.count("evaluations")
                if mid == "resize":
                    for c in osel:
                        hist = [("draw", a[0], a[1]), ("resize", other), ("draw", c[0], c[1])]
                        run_hist(ctx, cfg, size, hist, "after-resize")
                    continue
                if mid == "clear":
                    hist = [("draw", a[0], a[1]), ("clear",), ("draw", b[0], b[1])]
                elif mid == "resize-back":
                    hist = [("draw", a[0], a[1]), ("resize", size), ("draw", b[0], b[1])]
                else:
                    hist = [("draw", a[0], a[1]), ("draw", a[0], a[1]), ("draw", b[0], b[1])]
                run_hist(ctx, cfg, size, hist, "after-" + mid)
    env.reset("utf-8")


def run_hist(ctx, cfg, size, hist, extra):
    try:
        v = replay_hist(cfg, size, hist)
    except Exception as e:
        v = ("draw-raises", f"{type(e).__name__}: {e}")
    ctx.obs(cfg, size, hist, v)
    if v:
        report(ctx, cfg, size, hist, v, extra)
    else:
        ctx.distinct("nontrivial", (cfg, size, repr(hist)))


# ----------------------------------------------------------------------
# HTML back-end
# ----------------------------------------------------------------------
SPAN = re.compile(r'<span style="color:(#[0-9a-f]{6});background:(#[0-9a-f]{6})[^"]*">(.*?)</span>', re.S)


HTML_CHARS = ["a", "&", "<", ">", '"', "'", ";", "\u6728", " "]


def html_frames(size, tier):
    """rows over the characters HTML gives a meaning to (plus a wide one and a blank) in two attributes, with every cursor position"""
    cols, rows_n = size
    kinds = [(ch, a) for ch in HTML_CHARS for a in ((None, "x") if tier != "quick" or ch in "a&<" else (None,))]
    R = rows_alphabet("utf-8", cols, kinds)
    top = (("&", None), ("a", "x"), ("<", None))[:cols]
    out = []
    for bot in R:
        body = ((top,) if rows_n > 1 else ()) + (bot,)
        for cur in [None] + [(x, y) for y in range(rows_n) for x in range(cols)]:
            out.append((body, cur))
    return out


def html_task(task, ctx: Ctx):
    size, tier, lo, hi = task
    env.reset("utf-8")
    from urwid.display.html_fragment import HtmlGenerator

    if tier.startswith("special-"):
        frames = html_frames(size, tier[len("special-"):])[lo:hi]
    else:
        frames = frames_for("utf-8", size, tier, "single")[lo:hi]
    for rows, cur in frames:
        ctx.count("evaluations")
        case = {"html": True, "size": size, "rows": rows, "cursor": cur}
        del HtmlGenerator.fragments[:]
        g = HtmlGenerator()
        for e in PALETTE:
            g.register_palette_entry(*e)
        canv = mk_canvas(rows, cur, size[0], "utf-8")
        uses_undefined = any(a == "u" for r in rows for _, a in r)
        try:
            g.draw_screen(size, canv)
            frag = HtmlGenerator.fragments[-1]
        except Exception as e:
            ctx.violation("html-raises", f"C04/html-raises/{'undefined-name' if uses_undefined else 'defined'}/{exc_site(e)}", case, f"HtmlGenerator.draw_screen raised {type(e).__name__}: {e}")
            continue
        body = frag[len("<pre>") : -len("</pre>")]
        lines = body.split("\n")[:-1]
        if len(lines) != size[1]:
            ctx.violation("html-text", "C04/html-text/rows", case, f"{len(lines)} lines for {size[1]} rows: {frag!r}")
            continue
        ncur = 0
        for y, (line, r) in enumerate(zip(lines, rows)):
            spans = SPAN.findall(line)
            text = "".join(htmlmod.unescape(t) for _, _, t in spans)
            rest = SPAN.sub("", line)
            want = "".join(ch for ch, a in r)
            if text != want or rest:
                ctx.violation("html-text", "C04/html-text/row", case, f"row {y}: html text {text!r} (+{rest!r}), canvas {want!r}")
            for _, _, t in spans:
                plain = t.replace("&quot;", '"').replace("&#x27;", "'").replace("&#39;", "'")
                if htmlmod.escape(htmlmod.unescape(t), quote=False) != plain:
                    ctx.violation("html-text", "C04/html-text/escaping", case, f"row {y}: span text {t!r} is not the HTML-escaped form of {htmlmod.unescape(t)!r}")
                    break
        # at most one highlighted cursor cell: a span whose colours are the swap of its neighbours is the cursor cell; count spans of exactly one character on the cursor row
        if cur is not None:
            cy = cur[1]
            spans = SPAN.findall(lines[cy])
            col = 0
            hits = 0
            for fg, bg, t in spans:
                t = htmlmod.unescape(t)
                wdt = W.swidth(t)
                if col <= cur[0] < col + wdt and len(t) == 1:
                    hits += 1
                col += wdt
            if hits > 1:
                ctx.violation("html-one-cursor", "C04/html-one-cursor", case, f"{hits} cursor spans in {lines[cy]!r}")
            # against the same canvas drawn without a cursor: the colours differ in at most one character, the one under the cursor
            try:
                g.draw_screen(size, mk_canvas(rows, None, size[0], "utf-8"))
                base = HtmlGenerator.fragments[-1][len("<pre>") : -len("</pre>")].split("\n")[:-1]
            except Exception:
                base = None
            if base is not None and len(base) == len(lines):
                def per_char(line):
                    out = []
                    for fg, bg, t in SPAN.findall(line):
                        out += [(ch, fg, bg) for ch in htmlmod.unescape(t)]
                    return out

                diffs = []
                for y, (la, lb_) in enumerate(zip(lines, base)):
                    a, b = per_char(la), per_char(lb_)
                    if len(a) != len(b):
                        diffs.append((y, "length", 0))
                        continue
                    col = 0
                    for (ch, f1, b1), (_c2, f2, b2) in zip(a, b):
                        wch = W.cwidth(ch)
                        if wch == 0:
                            continue  # a combining mark belongs to the cell before it
                        if (f1, b1) != (f2, b2):
                            diffs.append((y, col, wch))
                        col += wch
                if len(diffs) > 1 or any(d[0] != cy or d[1] == "length" or not d[1] <= cur[0] < d[1] + d[2] for d in diffs):
                    ctx.violation("html-one-cursor", "C04/html-one-cursor/highlighted-cells", case,
                                  f"compared with the same canvas without a cursor, the colours differ at (row, column) {diffs}; the cursor is at {cur}")
        ctx.distinct("nontrivial", ("html", size, rows, cur))


# ----------------------------------------------------------------------
def configs(tier):
    out = []
    for colors in (1, 16, 88, 256, 2**24):
        for bce in (True, False):
            for enc in ("utf-8", "iso-8859-1"):
                out.append((colors, bce, enc))
    return out


def run(tier, R):
    sizes = [(3, 2), (2, 1)] if tier == "quick" else [(3, 2), (4, 2), (2, 1)]
    t1, t2, t3 = [], [], []
    for cfg in configs(tier):
        for size in sizes:
            n = len(frames_for(cfg[2], size, tier, "single"))
            for lo in range(0, n, 400):
                t1.append((cfg, size, tier, lo, lo + 400))
            m = len(frames_for(cfg[2], size, tier, "pair"))
            for lo in range(0, m, 8):
                t2.append((cfg, size, tier, lo, lo + 8))
            if size == sizes[0]:
                for lo in range(0, 12 if tier == "quick" else 26, 4):
                    t3.append((cfg, size, tier, lo, lo + 4))
    R.run_tasks(single_task, t1, recheck=0.03)
    n1 = int(R.ctx.counts["evaluations"])
    R.log(f"full paints: {n1}")
    R.run_tasks(pair_task, t2, recheck=0.03)
    n2 = int(R.ctx.counts["evaluations"]) - n1
    R.log(f"incremental draws: {n2}")
    R.run_tasks(triple_task, t3, recheck=0.05)
    R.run_tasks(encswitch_task, [(cfg, sizes[0], tier) for cfg in configs(tier) if cfg[1]], recheck=0.05)
    R.run_tasks(solid_task, [(cfg, size, tier) for cfg in configs(tier) for size in sizes], recheck=0.05)
    R.run_tasks(props_task, [(cfg, sizes[0], tier) for cfg in configs(tier)], recheck=0.05)
    n3 = int(R.ctx.counts["evaluations"]) - n1 - n2
    R.log(f"histories with clear/resize: {n3}")
    th = []
    for size in sizes[:2]:
        n = len(frames_for("utf-8", size, tier, "single"))
        for lo in range(0, n, 500):
            th.append((size, tier, lo, lo + 500))
    for size in ((3, 1), (3, 2)) if tier == "quick" else ((3, 1), (3, 2), (4, 1)):
        n = len(html_frames(size, tier))
        for lo in range(0, n, 500):
            th.append((size, "special-" + tier, lo, lo + 500))
    R.run_tasks(html_task, th, recheck=0.05)
    ev = int(R.ctx.counts["evaluations"])
    n4 = ev - n1 - n2 - n3
    nt = len(R.ctx.sets.get("nontrivial", ()))
    cov = {
        "states": nt,
        "transitions": ev,
        "traces_validated_against_impl": ev,
        "evaluations": ev,
        "distinct_nontrivial": nt,
        "rule": "frames = rows over 14 cell kinds (blank/letter/double-width/DEC line-drawing x default, palette name, palette name whose high-colour and mono variants add "
        f"underline/standout, undefined name, AttrSpec objects with underline / standout / plain colours) at sizes {sizes}, cursor none / top-left / bottom-right; "
        f"20 configurations (depth 1/16/88/256/2^24 x back_color_erase x utf-8 / iso-8859-1); (a) every frame painted on a cleared screen with unknown contents, (b) every "
        "ordered pair of a frame subset (every k-th row + rows ending in attributed blanks / one-cell runs) drawn consecutively, (c) draw-clear-draw, draw-same-canvas-draw, "
        "draw-resize-draw histories, and draw / switch the output encoding / clear / draw; each draw interpreted by mc/refs/vt_ref.py; HTML back-end on the single frames and on every 3-cell row over the characters HTML gives a meaning to (& < > \" ' ;), a wide character and a blank, with every cursor position (text equals the canvas text, each span is properly escaped, at most one cursor cell). non-trivial = distinct (configuration, history) that "
        "painted correctly",
        "exhaustive": True,
        "parts": {"full_paints": n1, "incremental": n2, "clear_resize_histories": n3, "html": n4},
    }
    return {
        "coverage": cov,
        "assumptions": [
            "mc/refs/vt_ref.py is the VT100/xterm reference (pending wrap, IRM insert mode, SO/SI with G1 = DEC special graphics, EL with back-colour erase, SGR)",
            "for blank cells only the visible part of the rendition is compared (background, reverse, underline, strike)",
            "a resize leaves the terminal contents unknown ('?' cells) and resets the screen buffer as the SIGWINCH handler does",
            "expected renditions come from the palette entry for the depth (mc/checks/c17.py want_for / rendition)",
        ],
    }


def replay(case, ctx):
    def tup(p):
        return tuple(tup(x) if isinstance(x, (list, tuple)) else x for x in p)

    if case.get("html"):
        print("html case: re-run the check; rows", case["rows"])
        return
    cfg = tup(case["cfg"])
    size = tup(case["size"])
    hist = [tup(op) for op in case["hist"]]
    hist = [(op[0], op[1], tuple(op[2]) if len(op) > 2 and op[2] is not None else None) if op[0] == "draw" else op for op in hist]
    env.reset(cfg[2])
    s = Session(cfg, size)
    for op in hist:
        if op[0] == "draw":
            canv, data = s.draw(op[1], op[2])
            v = s.judge(op[1], op[2])
            print(f"  draw {op[1]} cursor {op[2]}\n    bytes {data!r}\n    screen {s.term.glyph_rows()} -> {v}")
            if v:
                report(ctx, cfg, size, hist, v, "replay")
        elif op[0] == "clear":
            s.clear()
            print("  clear")
        else:
            s.resize(tuple(op[1]))
            print("  resize", op[1])
    s.stop()
    env.reset("utf-8")
