"""C12 — MainLoop delivers input in order and always restores the terminal.

Shape S (fault enumeration): scripted MainLoop sessions over a real pty (so termios state is real)
with the display output captured and interpreted by the reference terminal.  One clean run per
configuration counts the N callback-site invocations; then one run per invocation index k < N and
per exception kind raises at exactly the k-th invocation.  Every session runs in its own forked
process (reactors, signal handlers, descriptors and termios cannot leak between sessions) under a
watchdog.  Configurations: script x event loop x screen with / without external event-loop support
x pop_ups x bracketed-paste/focus-reporting x initial signal handlers.
"""
from __future__ import annotations

import os
import pickle
import signal
import sys
import termios
import time
import traceback

from .. import env
from ..core import Ctx, exc_site
from ..refs.vt_ref import Term

import urwid

ID = "C12"
LEVEL = "fault_enumeration"

LOOPS = ["select", "asyncio", "tornado", "twisted", "trio", "zmq"]
F5 = b"\x1b[15~"
F8 = b"\x1b[19~"
PRESS = b"\x1b[<0;2;1M"
RELEASE = b"\x1b[<0;2;1m"

SCRIPTS = {
    "keys": [("keys", b"a"), ("keys", F5), ("keys", F8)],
    "burst": [("keys", b"a" + F5 + b"b"), ("keys", F8)],
    "mouse-alarm": [("keys", PRESS + RELEASE), ("keys", F5), ("keys", b"b"), ("keys", F8)],  # the unhandled f5 sets an alarm
    "resize-pipe": [("resize",), ("pipe", b"x"), ("keys", F5), ("watch",), ("keys", F8)],
    # an escape sequence split over two reads, then a pause longer than the escape time-out; the application swaps the top widget mid-session
    "split-esc": [("keys", b"\x1b"), ("keys", b"[A"), ("sleep", 0.25), ("keys", b"b"), ("keys", F8)],
    "swap": [("keys", b"a"), ("swap",), ("keys", b"k"), ("keys", F5), ("keys", F8)],
    # the screen is stopped and started again while the loop runs (shelling out); a key handler swaps the top widget while later keys of the same read are pending
    "restart": [("keys", b"a"), ("keys", F5), ("keys", b"k"), ("keys", F8)],  # the f5 handler restarts the screen
    "burst-swap": [("keys", F5 + b"k" + b"j"), ("keys", F8)],
    # a key opens (then closes) a pop-up and a mouse press on its rectangle follows in the same read
    "popup": [("keys", b"p" + PRESS + RELEASE), ("keys", b"c" + PRESS + RELEASE), ("keys", F8)],
}
# what the script sends, as the keys urwid names
EXPECT = {
    "keys": ["a", "f5", "f8"],
    "burst": ["a", "f5", "b", "f8"],
    "mouse-alarm": ["(mouse press", "(mouse release", "f5", "b", "f8"],
    "resize-pipe": ["window resize", "f5", "f8"],
    "split-esc": ["up", "b", "f8"],
    "swap": ["a", "k", "f5", "f8"],
    "restart": ["a", "f5", "k", "f8"],
    "burst-swap": ["f5", "k", "j", "f8"],
    "popup": ["p", "(mouse press", "(mouse release", "c", "(mouse press", "(mouse release", "f8"],
}


class Boom(Exception):
    pass


KINDS = {"exit": urwid.ExitMainLoop, "boom": Boom, "sysexit": SystemExit}  # SystemExit: a BaseException that is not an Exception


class Out:
    """a fully buffered output file: only what has been flushed has reached the terminal"""

    def __init__(self):
        self.buf = []
        self.pending = []

    def write(self, s):
        self.pending.append(s)

    def flush(self):
        self.buf.extend(self.pending)
        del self.pending[:]


def make_loop(name):
    if name == "select":
        return urwid.SelectEventLoop(), None
    if name == "asyncio":
        import asyncio

        loop = asyncio.new_event_loop()
        return urwid.AsyncioEventLoop(loop=loop), loop.close
    if name == "tornado":
        import asyncio

        from tornado.platform.asyncio import AsyncIOLoop

        loop = asyncio.new_event_loop()
        asyncio.set_event_loop(loop)
        io = AsyncIOLoop(asyncio_loop=loop)
        return urwid.TornadoEventLoop(io), lambda: io.close(all_fds=False)
    if name == "twisted":
        from twisted.internet.selectreactor import SelectReactor

        return urwid.TwistedEventLoop(reactor=SelectReactor()), None
    if name == "trio":
        return urwid.TrioEventLoop(), None
    if name == "zmq":
        return urwid.ZMQEventLoop(), None
    raise AssertionError(name)


class NoHookScreen:
    """a screen without external event-loop support: everything of the raw Screen except hook/unhook_event_loop"""

    def __init__(self, scr):
        object.__setattr__(self, "_scr", scr)

    def __getattr__(self, name):
        if name in ("hook_event_loop", "unhook_event_loop"):
            raise AttributeError(name)
        return getattr(self._scr, name)

    def __setattr__(self, name, value):
        setattr(self._scr, name, value)


def session(cfg, inject_at=None, kind=None):
    """runs in a forked child. cfg = (script, loop, hook, popups, paste, sigs) -> result dict"""
    from urwid.display import raw

    script_name, loopname, hook, popups, paste, sigs = cfg
    variant = None
    if "+" in script_name:
        script_name, variant = script_name.split("+", 1)
    m, s = os.openpty()
    inp = os.fdopen(s, "rb", buffering=0)
    out = Out()
    marks = {}
    if sigs == "custom":
        for n in (signal.SIGWINCH, signal.SIGTSTP, signal.SIGCONT):
            h = (lambda name: (lambda *a: None))(n)
            marks[n] = h
            signal.signal(n, h)
    s_keep = os.dup(s)  # zmq closes the descriptors it watched when the loop goes away
    before = termios.tcgetattr(s_keep)
    sig_before = {n: signal.getsignal(n) for n in (signal.SIGWINCH, signal.SIGTSTP, signal.SIGCONT)}  # the signals urwid handles
    scr0 = raw.Screen(input=inp, output=out, bracketed_paste_mode=paste, focus_reporting=paste)
    scr = scr0 if hook else NoHookScreen(scr0)
    calls = []
    count = [0]
    injected = [None]

    def site(name):
        i = count[0]
        count[0] += 1
        calls.append(name)
        if inject_at == i:
            injected[0] = KINDS[kind](f"injected at {i}:{name}")
            raise injected[0]

    orig_draw = scr0.draw_screen

    def draw(size, canvas):
        calls.append("draw")
        return orig_draw(size, canvas)

    scr0.draw_screen = draw

    class ProbeEdit(urwid.Edit):
        tag = 1

        def keypress(self, size, key):
            calls.append(("widget", self.tag))
            site("keypress:" + key)
            return super().keypress(size, key)

        def mouse_event(self, size, event, button, col, row, focus):
            calls.append(("widget", self.tag))
            site("mouse:" + event)
            return super().mouse_event(size, event, button, col, row, focus)

        def render(self, size, focus=False):
            calls.append(("widget", self.tag))
            site("render")
            return super().render(size, focus)

    w = urwid.Filler(ProbeEdit("x:"), "top")
    w2 = urwid.Filler(ProbeEdit("y:"), "top")
    w2.original_widget.tag = 2
    if script_name == "popup":
        w3 = ProbeEdit("z:")
        w3.tag = 3

        class Launcher(urwid.PopUpLauncher):
            def keypress(self, size, key):
                if key in ("p", "c"):
                    calls.append(("widget", 1))
                    site("keypress:" + key)
                if key == "p":
                    calls.append(("popup", "open"))
                    self.open_pop_up()
                    return None
                if key == "c":
                    calls.append(("popup", "close"))
                    self.close_pop_up()
                    return None
                return super().keypress(size, key)

            def create_pop_up(self):
                return urwid.Filler(w3, "top")

            def get_pop_up_parameters(self):
                return {"left": 0, "top": 0, "overlay_width": 6, "overlay_height": 1}

        w = urwid.Filler(Launcher(ProbeEdit("x:")), "top")

    def filt(keys, raw_):
        site("filter")
        calls.append(("keys", tuple(str(k) for k in keys)))
        if variant == "genfilter":
            return (k for k in keys)  # a filter written with a generator expression / yield
        return keys

    def unh(k):
        site("unhandled:" + str(k))
        if k == "f8":
            raise urwid.ExitMainLoop
        if k == "f5" and script_name == "mouse-alarm":
            ml.set_alarm_in(0.0, lambda loop, data: site("alarm"))
        if k == "f5" and script_name == "restart":
            ml.screen.stop()
            ml.screen.start()
        if k == "f5" and script_name == "burst-swap":
            calls.append(("swap",))
            ml.widget = w2
        return False

    if hook:
        evl, closer = make_loop(loopname)
    else:
        evl, closer = None, None  # a screen without event-loop support only works with MainLoop's own select loop
    if variant == "subclass":
        class MyLoop(urwid.MainLoop):  # the documented alternative to passing unhandled_input=
            def unhandled_input(self, data):
                return unh(data)

        ml = MyLoop(w, screen=scr, input_filter=filt, event_loop=evl, pop_ups=popups)
    else:
        ml = urwid.MainLoop(w, screen=scr, input_filter=filt, unhandled_input=unh, event_loop=evl, pop_ups=popups)
    evl = ml.event_loop
    script = list(SCRIPTS[script_name])
    pr, pw = os.pipe()
    os.set_blocking(pr, False)

    def on_watch():
        site("watch")
        try:
            os.read(pr, 100)
        except BlockingIOError:
            pass

    if hook:
        evl.watch_file(pr, on_watch)

    def on_pipe(data):
        site("pipe")
        return True

    pipe_w = ml.watch_pipe(on_pipe) if hook else None

    stamps = []

    def do_step():
        if not script:
            return
        st = script.pop(0)
        if st[0] == "keys":
            stamps.append(time.monotonic())
            os.write(m, st[1])
        elif st[0] == "resize":
            scr0._sigwinch_handler(signal.SIGWINCH)
        elif st[0] == "pipe":
            if pipe_w is not None:
                os.write(pipe_w, st[1])
            else:
                do_step()
        elif st[0] == "watch":
            if hook:
                os.write(pw, b"w")
            else:
                do_step()
        elif st[0] == "sleep":
            time.sleep(st[1])  # (the driver sets no alarms of its own: an alarm set from an idle callback does not wake every loop)
            do_step()
        elif st[0] == "swap":
            calls.append(("swap",))
            ml.widget = w2
            do_step()

    if hook:
        # the next step is injected when the loop goes idle (the driver itself never raises)
        evl.enter_idle(do_step)
    else:
        def tick(loop, data):
            do_step()
            if script:
                ml.set_alarm_in(0.004, tick)

        ml.set_alarm_in(0.002, tick)

    def on_alarm(signum, frame):
        raise TimeoutError("watchdog")

    signal.signal(signal.SIGALRM, on_alarm)
    sig_before[signal.SIGALRM] = None
    res = "returned"
    signal.setitimer(signal.ITIMER_REAL, 4.0)
    err = ""
    try:
        ml.run()
    except TimeoutError:
        res = "watchdog"
    except BaseException as e:  # noqa: BLE001
        if e is injected[0]:
            res = "raised-same"
        else:
            res = f"raised-other:{type(e).__name__}"
            err = f"{type(e).__name__}: {e} @ {exc_site(e)}"
    signal.setitimer(signal.ITIMER_REAL, 0)
    after = termios.tcgetattr(s_keep)
    sig_after = {n: signal.getsignal(n) for n in sig_before if n != signal.SIGALRM}
    sig_diff = [signal.Signals(n).name + ":" + ("custom" if sig_before[n] in marks.values() else str(sig_before[n])) + "->" + str(sig_after[n])
                for n in sig_after if sig_after[n] is not sig_before[n] and sig_after[n] != sig_before[n]]
    txt = "".join(x if isinstance(x, str) else x.decode("utf-8", "replace") for x in out.buf)
    term = Term(80, 24)
    term.feed(txt)
    bad_modes = sorted(p for p in term.modes if p in (1000, 1002, 1003, 1005, 1006, 1015, 2004, 1004, 1049, 47, 1047))
    return {
        "res": res,
        "err": err,
        "calls": calls,
        "n_sites": count[0],
        "termios_same": before == after,
        "sig_diff": sig_diff,
        "started": bool(scr0._started),
        "bad_modes": bad_modes,
        "cursor_visible": term.cursor_visible,
        "injected": injected[0] is not None,
        "gap01": (stamps[1] - stamps[0]) if len(stamps) > 1 else 0.0,
    }


def forked(cfg, inject_at=None, kind=None, timeout=8.0):
    """run session() in a forked child; returns the result dict (or a dict describing why there is none)"""
    r, w = os.pipe()
    pid = os.fork()
    if pid == 0:
        code = 0
        try:
            os.close(r)
            import logging

            logging.disable(logging.CRITICAL)
            devnull = os.open(os.devnull, os.O_WRONLY)
            os.dup2(devnull, 2)
            try:
                res = session(cfg, inject_at, kind)
            except BaseException:  # noqa: BLE001
                res = {"res": "harness-error", "err": traceback.format_exc()[-1500:]}
            with os.fdopen(w, "wb") as f:
                pickle.dump(res, f)
        except BaseException:  # noqa: BLE001
            code = 3
        finally:
            os._exit(code)
    os.close(w)
    data = b""
    deadline = time.time() + timeout
    with os.fdopen(r, "rb") as f:
        import select

        while True:
            left = deadline - time.time()
            if left <= 0:
                break
            rl, _, _ = select.select([f], [], [], left)
            if not rl:
                break
            chunk = os.read(f.fileno(), 65536)
            if not chunk:
                break
            data += chunk
    try:
        os.kill(pid, 0)
        if not data:
            os.kill(pid, signal.SIGKILL)
    except OSError:
        pass
    try:
        os.waitpid(pid, 0)
    except OSError:
        pass
    if not data:
        return {"res": "no-result", "err": "the session process produced no result (hung or died)"}
    try:
        return pickle.loads(data)
    except Exception as e:
        return {"res": "no-result", "err": f"unreadable result: {e}"}


# ----------------------------------------------------------------------
def site_kind(name):
    return name.split(":")[0]


def judge_clean(ctx, cfg, r):
    script_name, loopname, hook, popups, paste, sigs = cfg
    script_name = script_name.split("+", 1)[0]
    case = {"cfg": cfg, "inject_at": None, "kind": None}
    feat = f"{loopname}/{'hook' if hook else 'nohook'}"

    def V(clause, detail, extra=""):
        ctx.violation(clause, f"C12/{clause}/{feat}{('/' + extra) if extra else ''}", case, detail)

    if r["res"] != "returned":
        V("returns", f"the clean session ended with {r['res']} {r.get('err', '')}; calls {r.get('calls')}", r["res"].split(":")[0])
        return False
    calls = r["calls"]
    slow = script_name == "split-esc" and r.get("gap01", 0.0) > 0.06
    if slow:
        # the harness itself was too slow: more than half the escape time-out passed between the two halves of the sequence, a flush of the lone ESC is
        # legitimate and the session says nothing about ordering or exactness
        ctx.count("inconclusive-slow-harness")
        judge_restore(ctx, cfg, r, case, V)
        return True
    # ---- order: per input batch filter -> widget (each event in arrival order) -> unhandled iff the widget returned it
    i = 0
    n = len(calls)
    while i < n:
        c = calls[i]
        if c == "filter":
            keys = calls[i + 1][1] if i + 1 < n and isinstance(calls[i + 1], tuple) else ()
            j = i + 2
            exp = []
            for k in keys:
                if k.startswith("("):  # a mouse tuple
                    exp.append("mouse")
                elif k == "window resize":
                    continue
                else:
                    exp.append("keypress:" + k)
                    if k in ("f5", "f8", "up"):  # keys a one-line Edit in a Filler does not handle
                        exp.append("unhandled:" + k)
            got = []
            while j < n and calls[j] != "filter":
                if isinstance(calls[j], str) and site_kind(calls[j]) in ("keypress", "mouse", "unhandled"):
                    got.append(calls[j] if not calls[j].startswith("mouse") else "mouse")
                j += 1
            # f8 ends the session: nothing after it
            if "unhandled:f8" in exp:
                exp = exp[: exp.index("unhandled:f8") + 1]
            got_cmp = got[: len(exp)] if "unhandled:f8" in exp else got
            if got_cmp != exp:
                V("order", f"input batch {keys}: handlers called {got}, expected {exp}")
            i = j
        else:
            i += 1
    # ---- exactness: what was sent is what the filter saw, in that order, nothing else
    seen = [k for c in calls if isinstance(c, tuple) and c[0] == "keys" for k in c[1]]
    want = EXPECT[script_name]
    norm = [k.replace("'", "")[: len("(mouse release")] if k.startswith("(") else k for k in seen]
    norm = [("(mouse press" if k.startswith("(mouse press") else k) for k in norm]
    if norm[: len(want)] != want or (len(norm) > len(want)):
        V("input-exact", f"the script sends {want}; the input filter saw {seen}")
    # ---- the topmost widget gets the events and is the one drawn: after the application replaced loop.widget, only the new one
    if ("swap",) in calls:
        after = calls[calls.index(("swap",)):]
        old_used = [after[i + 1] for i, c in enumerate(after[:-1]) if c == ("widget", 1) and isinstance(after[i + 1], str)]
        if old_used:
            V("topmost-widget", f"after loop.widget was replaced the old widget still got {old_used}", "popups" if popups else "plain")
        elif not any(c == ("widget", 2) for c in after):
            V("topmost-widget", "after loop.widget was replaced the new widget was never rendered or offered a key", "popups" if popups else "plain")
    # ---- a pop-up opened by a key is on top for the mouse press that follows in the same read, and gone again after the key that closes it
    if script_name == "popup" and popups:
        state = None
        for i, c in enumerate(calls):
            if isinstance(c, tuple) and c[0] == "popup":
                state = c[1]
            elif isinstance(c, str) and c.startswith("mouse:mouse press") and state is not None:
                tag = calls[i - 1][1] if i and isinstance(calls[i - 1], tuple) and calls[i - 1][0] == "widget" else None
                want_tag = 3 if state == "open" else 1
                if tag != want_tag:
                    V("topmost-widget", f"mouse press after the pop-up was {state}{'ed' if state == 'open' else 'd'} in the same read went to widget {tag}, expected {want_tag}", "popup-" + state)
    # ---- redraw before the loop next waits: a draw between two consecutive input batches
    idx = [k for k, c in enumerate(calls) if c == "filter"]
    for a, b in zip(idx, idx[1:]):
        if "draw" not in calls[a:b]:
            V("redraw-before-wait", f"no draw_screen between the input batches at call {a} and {b}: {calls[a:b]}")
            break
    judge_restore(ctx, cfg, r, case, V)
    return True


def judge_restore(ctx, cfg, r, case, V):
    if r.get("started"):
        V("screen-stopped", "screen.started is still true after run() ended")
    if r.get("bad_modes") or not r.get("cursor_visible", True):
        V("modes-restored", f"terminal modes left set: {r.get('bad_modes')} cursor visible={r.get('cursor_visible')}")
    if not r.get("termios_same", True):
        V("termios-restored", "tty settings differ from those before run()")
    if r.get("sig_diff"):
        for d in r["sig_diff"]:
            V("signals-restored", f"signal handler changed across run(): {d}", d.split(":")[0] + ("/custom" if "custom" in d else ""))


def judge_fault(ctx, cfg, k, kind, sitename, r):
    script_name, loopname, hook, popups, paste, sigs = cfg
    case = {"cfg": cfg, "inject_at": k, "kind": kind}
    feat = f"{loopname}/{'hook' if hook else 'nohook'}/{site_kind(sitename)}"

    def V(clause, detail, extra=""):
        ctx.violation(clause, f"C12/{clause}/{feat}{('/' + extra) if extra else ''}", case, detail)

    if r["res"] in ("no-result", "harness-error"):
        V("returns", f"{kind} injected at call {k} ({sitename}): {r['res']}: {r.get('err', '')[:400]}", kind)
        return
    if not r.get("injected"):
        ctx.count("fault-not-reached")
        return
    if kind == "exit":
        if r["res"] != "returned":
            V("exit-clean", f"ExitMainLoop raised at call {k} ({sitename}) but run() ended with {r['res']} {r.get('err', '')}", r["res"].split(":")[0])
    else:
        if r["res"] != "raised-same":
            V("propagates", f"{KINDS[kind].__name__} raised at call {k} ({sitename}) but run() ended with {r['res']} {r.get('err', '')}", f"{kind}/{r['res'].split(':')[0]}")
    judge_restore(ctx, cfg, r, case, V)


def config_task(task, ctx: Ctx):
    cfg, kinds = task
    env.reset("utf-8")
    r0 = forked(cfg)
    ctx.count("evaluations")
    ctx.obs(cfg, r0.get("res"), [c for c in r0.get("calls", []) if c != "draw"])
    if r0["res"] in ("no-result", "harness-error"):
        ctx.violation("returns", f"C12/returns/{cfg[1]}/{'hook' if cfg[2] else 'nohook'}/clean/{r0['res']}", {"cfg": cfg, "inject_at": None, "kind": None}, f"clean session: {r0.get('err', '')[:600]}")
        return
    if not judge_clean(ctx, cfg, r0):
        return
    ctx.distinct("nontrivial", (cfg, None, None))
    sites = [c for c in r0["calls"] if isinstance(c, str) and c != "draw"]
    n = r0["n_sites"]
    for k in range(n):
        for kind in kinds:
            r = forked(cfg, k, kind)
            ctx.count("evaluations")
            ctx.obs(cfg, k, kind, r.get("res"), r.get("started"), r.get("bad_modes"), r.get("termios_same"), r.get("sig_diff"))
            judge_fault(ctx, cfg, k, kind, sites[k] if k < len(sites) else "?", r)
            ctx.distinct("nontrivial", (cfg, k, kind))


def configs(tier):
    out = []
    for loopname in LOOPS:
        for script in SCRIPTS:
            if tier == "quick" and loopname not in ("select", "asyncio") and script not in ("burst", "resize-pipe"):
                continue
            if tier == "quick" and script in ("split-esc", "swap", "restart", "burst-swap", "popup") and loopname != "select":
                continue
            for popups in (False, True):
                for paste in (False, True):
                    if tier == "quick" and popups != paste:
                        continue
                    out.append((script, loopname, True, popups, paste, "default"))
            out.append((script, loopname, True, False, True, "custom"))
    out.append(("keys", "select", False, False, False, "default"))
    out.append(("split-esc", "select", False, False, False, "default"))
    out.append(("swap", "select", False, True, False, "default"))
    out.append(("restart", "select", False, False, False, "default"))
    out.append(("burst-swap", "select", False, True, False, "default"))
    out.append(("popup", "select", False, True, False, "default"))
    for v in ("genfilter", "subclass"):
        for ln in (("select", "asyncio") if tier == "quick" else LOOPS):
            out.append(("mouse-alarm+" + v, ln, True, False, False, "default"))
    out.append(("burst", "select", False, True, True, "default"))
    out.append(("mouse-alarm", "select", False, False, True, "custom"))
    return out


def run(tier, R):
    cfgs = configs(tier)
    kinds = ("exit", "boom", "sysexit")
    tasks = [(c, kinds) for c in cfgs]
    R.run_tasks(config_task, tasks, recheck=0.0, task_timeout=1500)
    ev = int(R.ctx.counts["evaluations"])
    nt = len(R.ctx.sets.get("nontrivial", ()))
    cov = {
        "states": nt,
        "transitions": ev,
        "traces_validated_against_impl": ev,
        "evaluations": ev,
        "distinct_nontrivial": nt,
        "rule": f"{len(cfgs)} configurations (9 scripts: keys / a burst of three keys in one read / mouse press+release, alarm / resize, pipe write, watched descriptor / an escape "
        "sequence split over two reads followed by a pause longer than the escape time-out / the application replacing loop.widget mid-session / the screen stopped and started again while the loop runs / a key handler replacing "
        "loop.widget while later keys of the same read are pending / a key opening, later closing, a pop-up with a mouse press on its rectangle in the same read; x "
        "select, asyncio, tornado, twisted, trio, zmq; raw Screen with hook_event_loop and a wrapper without it; pop_ups; bracketed paste + focus reporting; default and custom "
        "SIGWINCH/SIGTSTP/SIGCONT handlers); per configuration one clean session, then one session per callback-site invocation index (input filter, keypress, mouse_event, "
        "unhandled_input, alarm, watch, pipe, render in the idle redraw) x {ExitMainLoop, an Exception subclass, SystemExit}; every session in its own forked process over "
        "a real pty, output decoded by mc/refs/vt_ref.py. non-trivial = distinct (configuration, invocation index, exception kind)",
        "exhaustive": True,
        "fault_points_not_reached": int(R.ctx.counts.get("fault-not-reached", 0)),
    }
    return {
        "coverage": cov,
        "assumptions": [
            "sessions run against real loops and a real pty: the next script step is injected from an idle callback (chained alarms for the screen without event-loop support); a 4 s watchdog ends hung sessions",
            "signals are delivered synchronously (the resize step calls the SIGWINCH handler directly)",
            "real time: a split-escape session whose two halves were written more than 60 ms apart (half of urwid's 125 ms escape time-out) is counted as inconclusive, not judged",
            "terminal modes are read off the captured output with mc/refs/vt_ref.py; the output file is fully buffered: only flushed bytes count as having reached the terminal",
        ],
    }


def replay(case, ctx):
    def tup(p):
        return tuple(tup(x) if isinstance(x, (list, tuple)) else x for x in p)

    cfg = tup(case["cfg"])
    k, kind = case.get("inject_at"), case.get("kind")
    r0 = forked(cfg)
    print("clean session:", r0.get("res"), [c for c in r0.get("calls", []) if c != "draw"])
    if k is None:
        judge_clean(ctx, cfg, r0)
        return
    r = forked(cfg, k, kind)
    print(f"inject {kind} at {k}:", {x: r.get(x) for x in ("res", "err", "started", "bad_modes", "cursor_visible", "termios_same", "sig_diff")})
    sites = [c for c in r0.get("calls", []) if isinstance(c, str) and c != "draw"]
    judge_fault(ctx, cfg, k, kind, sites[k] if k < len(sites) else "?", r)
