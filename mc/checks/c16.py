"""C16 — focus-tracking lists behave as Python lists whose focus follows its item.

Shape H: explicit-state BFS over operation histories on the real MonitoredList /
MonitoredFocusList / SimpleListWalker / SimpleFocusListWalker, in lock-step with a built-in
list (reference) and a tracked focused object.  The state space is closed under a cap on the
list length, so the search runs to a fixed point: every reachable (contents, focus) state with
len <= cap is visited and *every* operation of the alphabet is applied in every state.
"""
from __future__ import annotations

import itertools

from .. import env  # noqa: F401
from ..core import Ctx, exc_site

import urwid
from urwid.widget.monitored_list import MonitoredFocusList, MonitoredList
from urwid.widget.listbox import SimpleFocusListWalker, SimpleListWalker

ID = "C16"
LEVEL = "model_checking"

CLASSES = {
    "MonitoredList": MonitoredList,
    "MonitoredFocusList": MonitoredFocusList,
    "SimpleListWalker": SimpleListWalker,
    "SimpleFocusListWalker": SimpleFocusListWalker,
}
FOCUS_TRACKING = {"MonitoredFocusList", "SimpleFocusListWalker"}


class Tok:
    __slots__ = ("n",)

    def __init__(self, n):
        self.n = n

    def __repr__(self):
        return f"t{self.n}"

    def __lt__(self, o):
        return self.n < o.n


class State:
    def __init__(self, cls_name, cap):
        self.cls_name = cls_name
        self.cap = cap
        cls = CLASSES[cls_name]
        self.impl = cls([])
        self.ref: list = []  # the reference: a built-in list holding the same Tok objects
        self.mods: list = []
        self.fch: list = []
        if cls_name in ("SimpleListWalker", "SimpleFocusListWalker"):
            urwid.connect_signal(self.impl, "modified", lambda: self.mods.append(1))
        else:
            self.impl.set_modified_callback(lambda: self.mods.append(1))
        if cls_name in FOCUS_TRACKING:
            self.impl.set_focus_changed_callback(lambda i: self.fch.append(i))

    def fresh(self, k, low=False):
        ns = [t.n for t in self.ref]
        if low:
            base = (min(ns) if ns else 0) - k
            return [Tok(base + i) for i in range(k)]
        base = (max(ns) if ns else -1) + 1
        return [Tok(base + i) for i in range(k)]


def _steps(tier):
    return [None, 1, 2, 3, -1, -2]


def ops_for(n, cap, cls_name, tier):
    out = []
    rng = range(-n - 1, n + 2)
    for i in rng:
        out.append(("del", i))
        out.append(("set", i))
        out.append(("pop", i))
        if n < cap:
            out.append(("insert", i, False))
    if n < cap:
        out.append(("insert", 0, True))
    idxs = [None, *rng]
    for a, b, c in itertools.product(idxs, idxs, _steps(tier)):
        out.append(("delslice", a, b, c))
        for k in (0, 1, 2):
            if n + k <= cap:
                out.append(("setslice", a, b, c, k))
    out.append(("pop_default",))
    if n < cap:
        out.append(("append",))
    if n + 2 <= cap:
        out.append(("extend", 2))
        out.append(("iadd", 2))
    out.append(("extend", 0))
    if n + 2 <= cap:
        out.append(("iadd_gen", 2))  # += accepts any iterable (a generator here), like list.__iadd__
    for bad in (1.5, "0", None):
        out.append(("pop_bad", bad))  # list.pop() wants an integer index: TypeError, nothing changes
    if n >= 2:
        out.append(("sort_ties",))
    out.append(("reverse",))
    out.append(("sort",))
    out.append(("sort_rev",))
    out.append(("sort_key",))
    out.append(("sort_key_raises",))
    out.append(("clear",))
    out.append(("imul", 0))
    out.append(("imul", 1))
    out.append(("imul", -1))
    if n * 2 <= cap:
        out.append(("imul", 2))
    for i in range(n):
        out.append(("remove", i))
    out.append(("remove_absent",))
    if cls_name in FOCUS_TRACKING:
        for i in range(-1, n + 1):
            out.append(("focus", i))
        if cls_name == "SimpleFocusListWalker":
            for i in range(n):
                out.append(("set_focus", i))  # the entry point ListBox uses
    elif cls_name == "SimpleListWalker":
        for i in range(-1, n + 1):
            out.append(("set_focus", i))
    return out


class _Tie:
    """orders tokens by n // 2 only; equality stays identity"""

    def __init__(self, tok):
        self.tok = tok

    def __lt__(self, other):
        return self.tok.n // 2 < other.tok.n // 2


def _bad_key(t):
    raise ValueError("key function failed")


def perform(lst, op, st: State, is_ref: bool, fresh, target):
    k = op[0]
    if k == "del":
        del lst[op[1]]
    elif k == "set":
        lst[op[1]] = fresh[0]
    elif k == "pop":
        return lst.pop(op[1])
    elif k == "pop_default":
        return lst.pop()
    elif k == "insert":
        lst.insert(op[1], fresh[0])
    elif k == "delslice":
        del lst[slice(op[1], op[2], op[3])]
    elif k == "setslice":
        lst[slice(op[1], op[2], op[3])] = fresh[: op[4]]
    elif k == "append":
        lst.append(fresh[0])
    elif k == "extend":
        lst.extend(fresh[: op[1]])
    elif k == "iadd":
        lst += fresh[: op[1]]
    elif k == "iadd_gen":
        lst += (x for x in fresh[: op[1]])
    elif k == "pop_bad":
        return lst.pop(op[1])
    elif k == "sort_ties":
        # items that tie in the ordering (rank n // 2) but are different objects: a stable sort, and the focus stays on its own item
        items = [_Tie(t) for t in lst]
        items.sort()
        order = [it.tok for it in items]
        if is_ref:
            lst[:] = order
        else:
            wrapped = {id(t): _Tie(t) for t in lst}
            lst.sort(key=lambda t: wrapped[id(t)])
    elif k == "reverse":
        lst.reverse()
    elif k == "sort":
        lst.sort()
    elif k == "sort_rev":
        lst.sort(reverse=True)
    elif k == "sort_key":
        lst.sort(key=lambda t: (t.n % 2, -t.n))
    elif k == "sort_key_raises":
        lst.sort(key=_bad_key)
    elif k == "clear":
        lst.clear()
    elif k == "imul":
        lst *= op[1]
    elif k == "remove":
        lst.remove(target)
    elif k == "remove_absent":
        lst.remove(Tok(10**6))
    else:
        raise AssertionError(op)
    return None


def slice_feature(op, n):
    if op[0] not in ("delslice", "setslice"):
        return op[0]
    step = op[3]
    s = "step=1" if step in (None, 1) else ("step>1" if step > 1 else "step<0")
    rng = range(*slice(op[1], op[2], op[3]).indices(n))
    a, b, _ = slice(op[1], op[2], 1).indices(n)
    if len(rng) == 0:
        s += "/empty" + ("-reversed" if (step in (None, 1) and a > b) else "")
    return f"{op[0]}/{s}"


class Spec:
    def __init__(self, cap):
        self.cap = cap

    def configs(self, tier):
        return list(CLASSES)

    def build(self, cfg):
        return State(cfg, self.cap)

    def ops(self, cfg, st):
        return ops_for(len(st.ref), self.cap, cfg, "t")

    def key(self, cfg, st):
        ns = sorted({t.n for t in st.impl})
        rank = {n: i for i, n in enumerate(ns)}
        raw_focus = getattr(st.impl, "_focus", None) if cfg in FOCUS_TRACKING else getattr(st.impl, "focus", None)
        return (tuple(rank[t.n] for t in st.impl), raw_focus)

    def apply(self, cfg, st: State, op, ctx: Ctx, hist):
        impl, ref = st.impl, st.ref
        n = len(ref)
        case = {"cls": cfg, "hist": hist + (op,)}
        feat = slice_feature(op, n)

        def V(clause, detail):
            ctx.violation(clause, f"C16/{clause}/{cfg}/{feat}", case, detail)

        tracking = cfg in FOCUS_TRACKING
        before_ids = [id(x) for x in impl]
        before = list(ref)
        f0 = impl.focus if cfg != "MonitoredList" else None
        fitem = before[f0] if (tracking and n) else None
        del st.mods[:]
        del st.fch[:]
        ctx.count("evaluations")

        if op[0] in ("focus", "set_focus"):
            i = op[1]
            err = None
            try:
                if op[0] == "focus":
                    impl.focus = i
                else:
                    impl.set_focus(i)
            except Exception as e:
                err = e
            if [id(x) for x in impl] != before_ids:
                V("same-contents", "focus assignment changed the contents")
            valid = 0 <= i < n
            if op[0] == "focus":
                if n == 0:
                    # documented: the index is ignored while the list is empty
                    if err is not None or impl.focus is not None:
                        V("focus-none-iff-empty", f"focus={i!r} on empty list -> err={err!r} focus={impl.focus!r}")
                elif valid:
                    if err is not None or impl.focus != i:
                        V("focus-assign", f"valid focus {i} -> err={err!r} focus={impl.focus!r}")
                    want = [i] if i != f0 else []
                    if st.fch != want:
                        V("focus-callback", f"focus {f0}->{i}: callback calls {st.fch}")
                else:
                    if not isinstance(err, IndexError) or impl.focus != f0 or st.fch:
                        V("bad-focus-assign", f"invalid focus {i} -> err={err!r} focus={impl.focus!r} cb={st.fch}")
            else:
                if valid:
                    if err is not None or impl.focus != i:
                        V("focus-assign", f"set_focus({i}) -> err={err!r} focus={impl.focus!r}")
                    elif tracking and st.fch != ([i] if i != f0 else []):
                        V("focus-callback", f"set_focus({i}) from focus {f0}: focus-changed callback calls {st.fch}")
                elif not isinstance(err, IndexError) or impl.focus != f0:
                    V("bad-focus-assign", f"set_focus({i}) invalid -> err={err!r} focus={impl.focus!r}")
            ctx.obs(op, repr(err), impl.focus)
            return True

        low = op[0] == "insert" and op[2]
        fresh = st.fresh(2, low=low)
        target = before[op[1]] if op[0] == "remove" else None
        e_ref = e_impl = None
        r_ref = r_impl = None
        try:
            r_ref = perform(ref, op, st, True, fresh, target)
        except Exception as e:
            e_ref = e
        try:
            r_impl = perform(impl, op, st, False, fresh, target)
        except Exception as e:
            e_impl = e
        ctx.obs(op, type(e_impl).__name__, [t.n for t in impl], getattr(impl, "focus", None), len(st.mods), st.fch)

        if type(e_ref) is not type(e_impl):
            V("same-exception", f"list raised {e_ref!r}, {cfg} raised {e_impl!r} ({exc_site(e_impl) if e_impl else ''})")
        if e_ref is not None:
            # failed call: must leave everything unchanged, no callbacks
            if [id(x) for x in impl] != before_ids:
                V("unchanged-on-error", f"contents changed although the call raised {e_impl!r}: {before} -> {list(impl)}")
                st.ref[:] = list(impl)
                return False
            if e_impl is not None and st.mods:
                V("modified-once", f"modified callback fired {len(st.mods)}x for a failed call")
            if tracking and e_impl is not None and (impl.focus != f0 or st.fch):
                V("unchanged-on-error", f"focus changed {f0}->{impl.focus} (cb {st.fch}) although the call raised")
            return True
        if e_impl is not None:
            # reference succeeded, implementation raised: was the list modified half-way?
            if [id(x) for x in impl] != before_ids:
                V("unchanged-on-error", f"{cfg} raised {e_impl!r} after modifying the list: {before} -> {list(impl)}")
            st.ref[:] = list(impl)
            return False
        if len(impl) != len(ref) or any(a is not b for a, b in zip(impl, ref)):
            V("same-contents", f"list -> {ref}, {cfg} -> {list(impl)}")
            st.ref[:] = list(impl)
            return False
        if r_ref is not r_impl:
            V("same-contents", f"return value {r_impl!r} != {r_ref!r}")
        changed = [id(x) for x in ref] != before_ids
        if changed and len(st.mods) != 1:
            V("modified-once", f"contents changed {before}->{ref} but modified fired {len(st.mods)}x")
        if not changed and len(st.mods) > 1:
            V("modified-once", f"modified fired {len(st.mods)}x in one call")
        if changed:
            ctx.distinct("nontrivial", (cfg, tuple(t.n for t in before), f0, op))

        if cfg == "MonitoredList":
            return True
        f1 = impl.focus
        if cfg == "SimpleListWalker":
            if ref and not (isinstance(f1, int) and 0 <= f1 < len(ref)):
                V("focus-in-range", f"focus {f1!r} with {len(ref)} items")
            return True
        # focus-tracking lists
        if not ref:
            if f1 is not None:
                V("focus-none-iff-empty", f"empty list reports focus {f1!r}")
            return True
        if f1 is None or not isinstance(f1, int) or not 0 <= f1 < len(ref):
            V("focus-in-range", f"focus {f1!r} with {len(ref)} items")
            return True
        if n and len({id(x) for x in before}) == n:  # focus-item clauses need unique items ("the same item" = identity)
            if any(x is fitem for x in ref):
                if ref[f1] is not fitem:
                    V("focus-follows-item", f"{before} focus {f0} ({fitem}) -> {ref} focus {f1} ({ref[f1]})")
            else:
                acc = accepted_after_removal(before, f0, ref, op)
                if f1 not in acc:
                    V("focus-after-removal", f"{before} focus {f0} -> {ref} focus {f1}, accepted {sorted(acc)}")
            want_cb = [f1] if f1 != f0 else []
            if st.fch != want_cb:
                V("focus-callback", f"focus {f0}->{f1} but focus-changed calls {st.fch}")
        return True


def accepted_after_removal(before, f0, after, op):
    """Positions the focus may take when its item was removed by op."""
    n = len(before)
    # replaced in place?
    if op[0] == "set":
        i = op[1] + n if op[1] < 0 else op[1]
        if i == f0:
            return {f0}
    if op[0] == "setslice":
        start, stop, step = slice(op[1], op[2], op[3]).indices(n)
        rng = range(start, stop, step)
        if f0 in rng:
            if step != 1:
                return {f0}
            if f0 - start < op[4]:
                return {f0}
    pos_after = {id(x): i for i, x in enumerate(after)}
    removed = [i for i, x in enumerate(before) if id(x) not in pos_after]
    acc = set()
    # (a) next surviving item after the focus item's old position
    for j in range(f0 + 1, n):
        if id(before[j]) in pos_after:
            acc.add(pos_after[id(before[j])])
            break
    # (b) first surviving item after the last removed index
    for j in range(max(removed) + 1, n):
        if id(before[j]) in pos_after:
            acc.add(pos_after[id(before[j])])
            break
    if not acc or len(acc) < 2:
        # "else the last item": when no item follows (under either reading)
        follow_a = any(id(before[j]) in pos_after for j in range(f0 + 1, n))
        follow_b = any(id(before[j]) in pos_after for j in range(max(removed) + 1, n))
        if not follow_a or not follow_b:
            acc.add(len(after) - 1)
    return acc


def extras_task(task, ctx: Ctx):
    """beyond the length cap: (1) long lists with a high focus index - every in-place operation before, at and after the focus; (2) two lists whose
    modified callbacks change each other with the same mutator (each call still reports exactly once)"""
    (kind,) = task
    from urwid.widget.monitored_list import MonitoredFocusList, MonitoredList

    if kind == "long":
        for cls in (MonitoredFocusList, urwid.SimpleFocusListWalker):
            for n, f in ((300, 280), (300, 257), (1200, 1100)):
                for op in ("set0", "slice0", "set_after", "set_at", "insert0", "del0", "append", "pop_last", "insert_after"):
                    ctx.count("evaluations")
                    items = [Tok(i) for i in range(n)]
                    ml = cls(items)
                    ml.focus = f
                    fch, mods = [], []
                    if cls is MonitoredFocusList:
                        ml.set_focus_changed_callback(fch.append)
                        ml.set_modified_callback(lambda: mods.append(1))
                    else:
                        ml.set_focus_changed_callback(fch.append)
                        urwid.connect_signal(ml, "modified", lambda: mods.append(1))
                    fitem = items[f]
                    new = [Tok(10**5 + j) for j in range(2)]
                    try:
                        if op == "set0":
                            ml[0] = new[0]
                        elif op == "slice0":
                            ml[0:2] = new
                        elif op == "set_after":
                            ml[f + 1] = new[0]
                        elif op == "set_at":
                            ml[f] = new[0]
                            fitem = new[0]
                        elif op == "insert0":
                            ml.insert(0, new[0])
                        elif op == "del0":
                            del ml[0]
                        elif op == "append":
                            ml.append(new[0])
                        elif op == "pop_last":
                            ml.pop()
                        elif op == "insert_after":
                            ml.insert(f + 1, new[0])
                    except Exception as e:
                        ctx.violation("same-errors", f"C16/long/{cls.__name__}/{op}/{exc_site(e)}", {"extras": kind, "cls": cls.__name__, "n": n, "focus": f, "op": op}, repr(e))
                        continue
                    want_f = {"insert0": f + 1, "del0": f - 1}.get(op, f)
                    case = {"extras": kind, "cls": cls.__name__, "n": n, "focus": f, "op": op}
                    if ml.focus != want_f or ml[ml.focus] is not fitem:
                        ctx.violation("focus-follows-item", f"C16/long/{cls.__name__}/{op}/focus", case, f"list of {n}, focus {f}, {op}: focus is {ml.focus}, expected {want_f} on the same item")
                    if fch != ([want_f] if want_f != f else []):
                        ctx.violation("focus-callback", f"C16/long/{cls.__name__}/{op}/focus-callback", case, f"list of {n}, focus {f} -> {want_f} after {op}: focus-changed callback calls {fch}")
                    if len(mods) != 1:
                        ctx.violation("modified-once", f"C16/long/{cls.__name__}/{op}/modified", case, f"{op}: modified reported {len(mods)} times")
                    ctx.distinct("nontrivial", ("long", cls.__name__, n, f, op))
    elif kind == "ties":
        # items ordered by a rank only (equality stays identity): every rank vector of <= 4 items, every focus, plain / reversed / keyed sort
        class Row:
            def __init__(self, i, rank):
                self.i, self.rank = i, rank

            def __lt__(self, other):
                return self.rank < other.rank

            def __repr__(self):
                return f"r{self.i}/{self.rank}"

        sorts = {"plain": {}, "reverse": {"reverse": True}, "key": {"key": lambda r: -r.rank}}
        for cls in (MonitoredFocusList, urwid.SimpleFocusListWalker):
            for n in (2, 3, 4):
                for ranks in itertools.product(range(3), repeat=n):
                    for f in range(n):
                        for how, kw in sorts.items():
                            ctx.count("evaluations")
                            items = [Row(i, r) for i, r in enumerate(ranks)]
                            ref = list(items)
                            ref.sort(**kw)
                            ml = cls(items)
                            ml.focus = f
                            fch = []
                            ml.set_focus_changed_callback(fch.append)
                            case = {"extras": kind, "cls": cls.__name__, "ranks": list(ranks), "focus": f, "sort": how}
                            try:
                                ml.sort(**kw)
                            except Exception as e:
                                ctx.violation("same-errors", f"C16/ties/{cls.__name__}/{how}/{exc_site(e)}", case, repr(e))
                                continue
                            if [id(x) for x in ml] != [id(x) for x in ref]:
                                ctx.violation("same-contents", f"C16/ties/{cls.__name__}/{how}/contents", case, f"{list(ml)} != {ref}")
                                continue
                            want_f = [id(x) for x in ref].index(id(items[f]))
                            if ml.focus != want_f:
                                ctx.violation("focus-follows-item", f"C16/ties/{cls.__name__}/{how}/focus", case, f"ranks {ranks}, focus on {items[f]}: after sort() the focus is {ml.focus} ({ml[ml.focus]}), its item is at {want_f}")
                            elif fch != ([want_f] if want_f != f else []):
                                ctx.violation("focus-callback", f"C16/ties/{cls.__name__}/{how}/focus-callback", case, f"focus {f} -> {want_f}: focus-changed callback calls {fch}")
                            if want_f != f:
                                ctx.distinct("nontrivial", ("ties", cls.__name__, ranks, f, how))
    else:
        muts = {
            "append": lambda l, x: l.append(x),
            "setitem": lambda l, x: l.__setitem__(0, x),
            "insert": lambda l, x: l.insert(0, x),
            "extend": lambda l, x: l.extend([x]),
            "delitem": lambda l, x: l.__delitem__(0),
            "iadd": lambda l, x: l.__iadd__([x]),
        }
        for cls in (MonitoredList, MonitoredFocusList, urwid.SimpleListWalker, urwid.SimpleFocusListWalker):
            for outer in muts:
                for inner in muts:
                    ctx.count("evaluations")
                    a = cls([Tok(1), Tok(2)])
                    b = cls([Tok(3), Tok(4)])
                    got = {"a": 0, "b": 0}
                    done = []

                    def on_a():
                        got["a"] += 1
                        if not done:
                            done.append(1)
                            muts[inner](b, Tok(99))  # a's listener changes b while a's mutator is still running

                    def on_b():
                        got["b"] += 1

                    if cls in (MonitoredList, MonitoredFocusList):
                        a.set_modified_callback(on_a)
                        b.set_modified_callback(on_b)
                    else:
                        urwid.connect_signal(a, "modified", on_a)
                        urwid.connect_signal(b, "modified", on_b)
                    try:
                        muts[outer](a, Tok(98))
                    except Exception as e:
                        ctx.violation("same-errors", f"C16/reentrant/{cls.__name__}/{exc_site(e)}", {"extras": kind, "cls": cls.__name__, "outer": outer, "inner": inner}, repr(e))
                        continue
                    if got != {"a": 1, "b": 1}:
                        ctx.violation("modified-once", f"C16/reentrant/{cls.__name__}/{'same' if outer == inner else 'other'}-mutator", {"extras": kind, "cls": cls.__name__, "outer": outer, "inner": inner},
                                      f"{outer} on list a whose listener does {inner} on list b: modified reported {got['a']}x for a and {got['b']}x for b, expected once each")
                    ctx.distinct("nontrivial", ("reentrant", cls.__name__, outer, inner))


def run(tier, R):
    cap = 4 if tier == "quick" else 5  # (length 6 is > 10^8 transitions: did not fit the budget)
    spec = Spec(cap)
    res = R.bfs(spec, depth=64, chunk=0)
    R.run_tasks(extras_task, [("long",), ("reentrant",), ("ties",)], recheck=0.0)
    cov = {
        "states": res["states"],
        "transitions": res["transitions"],
        "traces_validated_against_impl": res["transitions"],
        "evaluations": res["transitions"],
        "distinct_nontrivial": len(R.ctx.sets.get("nontrivial", ())),
        "rule": "BFS to a fixed point over (class, rank-compressed contents, focus) with list length <= "
        f"{cap}; every op of the alphabet (index/slice get-set-del with start,stop in None|-(n+1)..n+1, step in "
        "None,1,2,3,-1,-2, replacement lengths 0..2, insert/append/extend/pop/remove/reverse/sort (plain, reversed, with a key, with a key function that raises)/+=/*=/clear, "
        "focus assignment valid+invalid, SimpleFocusListWalker.set_focus) applied in every state; plus lists of 300 / 1200 items with a focus index above 256 "
        "(in-place operations before, at and after the focus), every rank vector over 3 ranks of 2..4 items ordered by rank only (ties between different objects) x every focus x plain/reversed/keyed sort, and pairs of lists whose modified listeners change the other list with every pair of mutators; non-trivial = distinct (state, op) pairs that "
        "changed the contents",
        "exhaustive": bool(res["closed"]),
        "bfs_levels": res["levels"],
        "bound": {"max_len": cap, "closed_fixed_point": res["closed"]},
    }
    return {
        "coverage": cov,
        "assumptions": [
            "items are unique tokens (identity = 'the same item'); duplicates arise only through *= 2",
            "the validate-contents-modified hook is not installed (not part of the statement)",
            "reference = built-in list + tracked focused object; removal accepts both readings of 'the item following the removed ones'",
        ],
    }


def replay(case, ctx):
    if "extras" in case:
        extras_task((case["extras"],), ctx)
        return
    cfg = case["cls"]
    hist = tuple(tuple(op) for op in case["hist"])
    cap = 6
    spec = Spec(cap)
    st = spec.build(cfg)
    for i, op in enumerate(hist):
        ctx.muted = i < len(hist) - 1
        print(f"  step {i}: {op}  before: {list(st.impl)} focus={getattr(st.impl, 'focus', None)}")
        spec.apply(cfg, st, op, ctx, hist[:i])
        print(f"          after: {list(st.impl)} focus={getattr(st.impl, 'focus', None)} ref={st.ref}")
    ctx.muted = False
