"""C07 — ListBox always shows a gap-free window of its items containing the focus.

Shape H: BFS over event histories (keys, mouse presses, wheel, set_focus with coming_from,
set_focus_valign, resize, walker insert/delete/replace) on real ListBoxes over small lists of
flow widgets with unique row texts, three walker kinds; the rendered rows are compared with a
slice of the concatenation of the items' own renderings.
"""
from __future__ import annotations

import itertools

from .. import env
from ..core import Ctx, exc_site, watchdog, WatchdogTimeout

import urwid

ID = "C07"
LEVEL = "model_checking"
W = 4


class MiniWalker(urwid.ListWalker):
    """Minimal custom walker: get_focus / get_next / get_prev / set_focus only."""

    def __init__(self, items):
        self.items = list(items)
        self.focus = 0

    def get_focus(self):
        if not self.items:
            return None, None
        return self.items[self.focus], self.focus

    def set_focus(self, pos):
        if not 0 <= pos < len(self.items):
            raise IndexError(pos)
        self.focus = pos
        self._modified()

    def get_next(self, pos):
        if pos is None or pos + 1 >= len(self.items):
            return None, None
        return self.items[pos + 1], pos + 1

    def get_prev(self, pos):
        if pos is None or pos - 1 < 0:
            return None, None
        return self.items[pos - 1], pos - 1

    def positions(self, reverse=False):
        return range(len(self.items) - 1, -1, -1) if reverse else range(len(self.items))

    # list-like helpers used by the harness
    def insert(self, i, w):
        self.items.insert(i, w)
        if self.items and i <= self.focus and len(self.items) > 1:
            self.focus += 1
        self._modified()

    def append(self, w):
        self.items.append(w)
        self._modified()

    def delete(self, i):
        del self.items[i]
        if self.focus > i or self.focus >= len(self.items):
            self.focus = max(0, self.focus - 1)
        self._modified()

    def replace(self, i, w):
        self.items[i] = w
        self._modified()


class EqIcon(urwid.SelectableIcon):
    """rows that sort by a priority and therefore compare equal to each other (the hash stays the identity)"""

    def __eq__(self, other):
        return isinstance(other, EqIcon)

    def __lt__(self, other):
        return False

    __hash__ = object.__hash__


def mk(kind, label):
    L = label
    if kind == "Q1":
        return EqIcon(L + "0", 0)
    if kind == "S4":  # a selectable item taller than the smaller views, its cursor fixed on its first row
        return urwid.SelectableIcon("\n".join(L + str(k) for k in range(4)), 0)
    if kind == "T1":
        return urwid.Text(L + "0")
    if kind == "T3":
        return urwid.Text("\n".join(L + str(k) for k in range(3)))
    if kind == "S1":
        return urwid.SelectableIcon(L + "0", 0)
    if kind == "E2":
        return urwid.Edit("", L + "0\n" + L + "1", multiline=True)
    if kind == "E5":
        return urwid.Edit("", "\n".join(L + str(k) for k in range(5)), multiline=True)
    if kind == "Z0":
        return urwid.Pile([])
    if kind == "C3":  # joined canvas whose columns are split into shards at different rows
        U = L.upper()
        return urwid.Columns([urwid.Text("\n".join(L + str(k) for k in range(3))), urwid.Pile([urwid.Text(U + "0"), urwid.Text(U + "1")])])
    raise AssertionError(kind)


KINDS = ["T1", "T3", "S1", "E2", "E5", "Z0", "C3"]
SIZES = [(W, 1), (W, 2), (W, 3), (W, 5)]


def rows_of(canv):
    return [b"".join(t for _a, _cs, t in r) for r in canv.content()]


class LState:
    def __init__(self, cfg):
        wkind, kinds, size = cfg
        self.labels = itertools.count()
        self.items = [mk(k, chr(ord("a") + next(self.labels))) for k in kinds]
        self.kinds = list(kinds)
        if wkind == "simple":
            self.walker = urwid.SimpleListWalker(self.items)
        elif wkind == "focus":
            self.walker = urwid.SimpleFocusListWalker(self.items)
        else:
            self.walker = MiniWalker(self.items)
        self.wkind = wkind
        if wkind == "gen":
            # the items handed to the constructor as a one-shot iterable ("a ListWalker or an iterable of widgets")
            self.lb = urwid.ListBox(w for w in self.items)
            self.walker = self.lb.body
        else:
            self.lb = urwid.ListBox(self.walker)
        self.size = size

    def body(self):
        return list(self.walker.items) if self.wkind == "mini" else list(self.walker)

    def fresh(self, kind):
        n = next(self.labels)
        return mk(kind, chr(ord("a") + n % 26) + ("" if n < 26 else "'"))


def events_for(st: LState):
    h = st.size[1]
    ev = ["up", "down", "page up", "page down", "home", "end", "x", "left", "right"]
    ev += [("press", r) for r in range(h)]
    ev += [("wheel", 4), ("wheel", 5)]
    n = len(st.body())
    for i in range(n):
        for cf in (None, "above", "below"):
            ev.append(("focus", i, cf))
    ev += [("badfocus", -1), ("badfocus", n)]
    ev += [("valign", "top"), ("valign", "middle"), ("valign", "bottom"), ("valign", ("relative", 30))]
    for s in SIZES:
        if s != st.size:
            ev.append(("resize", s))
    if n < 5:
        ev += [("ins", 0, "S1"), ("ins", "f", "T3"), ("app", "T1"), ("app", "E2")]
    if n:
        ev += [("del", 0), ("del", "f"), ("del", -1), ("repl", "f", "T1"), ("repl", "f", "E5"), ("repl", 0, "Z0")]
        # an item changes its own height in place (the list is not told)
        ev += [("retext", "f", 1), ("retext", "f", 4), ("retext", 0, 4)]
    d = getattr(st, "depth", 0)
    if d <= SEQ_DEPTH[0] + 1:
        firsts = [e for e in ev if not isinstance(e, str) and ((e[0] == "focus" and e[2] is None) or (e[0] == "valign" and e[1] in ("top", "bottom")))]
        seconds = [e for e in ev if not isinstance(e, str) and e[0] in ("del", "ins", "app", "repl", "retext", "resize")]
        if SEQ_DEPTH[1] == "thorough":
            # the deeper tier has four times the configurations and one more level: fewer pair kinds
            seconds = [e for e in seconds if e[0] in ("del", "ins", "app")]
        if d > SEQ_DEPTH[0]:
            # one step deeper only the pairs (set_focus, delete)
            firsts = [e for e in firsts if e[0] == "focus"]
            seconds = [e for e in seconds if e[0] == "del"]
        for a in firsts:
            for b in seconds:
                ev.append(("seq", a, b))
                if b[0] == "ins" or (b[0] == "del" and a[0] == "valign") or (b[0] == "del" and a[0] == "focus" and a[1] < n - 1):
                    ev.append(("seq", b, a))
    return ev


SEQ_DEPTH = [0, "quick"]
ZERO_ROW_SITES = ("ListBoxError@urwid.widget.listbox.ListBox.shift_focus", "ListBoxError@urwid.widget.listbox.ListBox.change_focus")


def widget_state(w):
    if isinstance(w, urwid.Edit):
        return ("E", w.edit_text, w.edit_pos, getattr(w, "pref_col_maxcol", None))
    if isinstance(w, urwid.SelectableIcon):
        return ("S", w.text)
    if isinstance(w, urwid.Text):
        return ("T", w.text)
    if isinstance(w, urwid.Columns):
        return ("C", w.contents[0][0].text)
    return ("Z",)


def kinds_feature(body):
    if not body:
        return "empty-list"
    return "with-zero-row-item" if any(widget_state(w)[0] == "Z" for w in body) else "items-with-rows"


class Spec:
    def __init__(self, cfgs):
        self.cfgs = cfgs

    def configs(self, tier):
        return self.cfgs

    def build(self, cfg):
        env.reset("utf-8")
        return LState(cfg)

    def ops(self, cfg, st):
        return events_for(st)

    def key(self, cfg, st: LState):
        lb = st.lb
        body = st.body()
        try:
            fpos = lb.focus_position if body else None
        except Exception:
            fpos = "?"
        return (
            tuple(widget_state(w) for w in body),
            fpos,
            lb.offset_rows,
            lb.inset_fraction,
            lb.pref_col,
            repr(lb.set_focus_pending),
            repr(lb.set_focus_valign_pending),
            st.size,
            getattr(st.walker, "focus", None),
        )

    def check_state(self, cfg, st: LState, ctx: Ctx, hist):
        """Invariant on every state: render and compare with the slice oracle."""
        case = {"cfg": cfg, "hist": hist}
        lb, size = st.lb, st.size
        last = hist[-1] if hist else ("init",)
        feat = last if isinstance(last, str) else last[0]
        body = st.body()
        kinds = kinds_feature(body)

        def V(clause, detail, extra=""):
            ctx.violation(clause, f"C07/{clause}/after-{feat}/{kinds}{extra}", case, detail)

        if not hist and [id(w) for w in body] != [id(w) for w in st.items]:
            V("slice", f"a ListBox built from {len(st.items)} widgets ({st.wkind}) holds {len(body)} of them", "/construction")
        env_ok = True
        try:
            with watchdog(5):
                canv = lb.render(size, True)
                rows = rows_of(canv)
        except WatchdogTimeout:
            V("terminates", "render did not return")
            return
        except Exception as e:
            site = exc_site(e)
            if kinds == "with-zero-row-item" and site in ZERO_ROW_SITES:
                ctx.violation("no-raise", f"C07/raises/zero-row-item/{site}", case, f"render raised {e!r}")
            else:
                V("no-raise", f"render raised {e!r}", "/" + site)
            return
        ctx.count("evaluations")
        h = size[1]
        blank = b" " * size[0]
        if len(rows) != h or any(len(r) != size[0] for r in rows):
            V("size", f"rendered {len(rows)} rows, box is {size}")
            return
        body = st.body()
        if not body:
            if any(r != blank for r in rows):
                V("slice", f"empty list renders {rows}")
            return
        try:
            fpos = lb.focus_position
        except Exception as e:
            V("no-raise", f"focus_position raised {e!r}", "/" + exc_site(e))
            return
        concat = []
        owner = []
        for i, w in enumerate(body):
            n = w.rows((size[0],), i == fpos)
            rr = rows_of(w.render((size[0],), i == fpos)) if n else []
            concat += rr
            owner += [i] * len(rr)
        # rows shown = concat[k:k+n] followed by blanks; blanks only if k == 0 and the slice reaches the end
        found = None
        for n in range(h, -1, -1):
            if any(r != blank for r in rows[n:]):
                break
            for k in range(0, len(concat) - n + 1):
                if concat[k : k + n] == rows[:n]:
                    if n < h and not (k == 0 and k + n == len(concat)):
                        continue
                    found = (k, n)
                    break
            if found:
                break
        if not found:
            # explain which sub-clause failed
            is_slice = any(concat[k : k + n] == rows[:n] and all(r == blank for r in rows[n:]) for n in range(h + 1) for k in range(0, max(1, len(concat) - n + 1)))
            if is_slice:
                V("bottom-blank-only-if-all-shown", f"rows {rows} leave blank rows although items {concat} are not all shown from the top")
            else:
                V("slice", f"rows {rows} are not a contiguous slice of {concat}")
            return
        k, n = found
        frows = body[fpos].rows((size[0],), True)
        if frows > 0 and fpos not in owner[k : k + n]:
            V("focus-visible", f"focus item {fpos} has no visible row: rows {rows}")
        cur = canv.cursor
        fw = body[fpos]
        if fw.selectable() and hasattr(fw, "get_cursor_coords") and frows > 0:
            cc = fw.get_cursor_coords((size[0],))
            if cc is not None:
                if cur is None:
                    V("cursor-visible", f"focus widget has a cursor at {cc} but the ListBox canvas has none: rows {rows}")
                else:
                    first = owner.index(fpos)
                    want = (cc[0], first + cc[1] - k)
                    if tuple(cur) != want:
                        V("cursor-visible", f"canvas cursor {cur}, focus widget cursor row maps to {want}")
        ctx.obs(hist[-1] if hist else None, rows, cur, fpos)
        if k or len(concat) > h:
            ctx.distinct("nontrivial", (tuple(rows), fpos))

    def apply(self, cfg, st: LState, op, ctx: Ctx, hist):
        st.depth = len(hist) + 1
        case = {"cfg": cfg, "hist": hist + (op,)}
        if not isinstance(op, str) and op[0] == "seq":
            # two application-level calls in one callback: no render in between
            ok = self._apply1(cfg, st, op[1], ctx, case) and self._apply1(cfg, st, op[2], ctx, case)
        else:
            ok = self._apply1(cfg, st, op, ctx, case)
        st.want_focus = None
        if not isinstance(op, str) and op[0] == "focus":
            st.want_focus = op[1]
        if ok is not False:
            # the main loop renders after every input (a state rebuilt by replay is therefore the rendered one, like the state it was deduplicated as)
            try:
                with watchdog(5):
                    st.lb.render(st.size, True)
            except WatchdogTimeout:
                ctx.violation("terminates", f"C07/terminates/render-after-{op if isinstance(op, str) else op[0]}", case, "render did not return")
                return False
            except Exception as e:
                feat = op if isinstance(op, str) else op[0]
                kinds = kinds_feature(st.body())
                site = exc_site(e)
                if kinds == "with-zero-row-item" and site in ZERO_ROW_SITES:
                    ctx.violation("no-raise", f"C07/raises/zero-row-item/{site}", case, f"render raised {e!r}")
                else:
                    ctx.violation("no-raise", f"C07/no-raise/after-{feat}/{kinds}/{site}", case, f"the render after {op!r} raised {e!r}")
            else:
                if st.want_focus is not None and st.body() and st.lb.focus_position != st.want_focus:
                    ctx.violation("focus-request", f"C07/focus-request/{st.wkind}", case, f"set_focus({st.want_focus}) followed by a render leaves focus_position at {st.lb.focus_position}")
        return ok

    def _apply1(self, cfg, st: LState, op, ctx: Ctx, case):
        lb, size = st.lb, st.size
        feat = op if isinstance(op, str) else op[0]
        body = st.body()
        try:
            with watchdog(5):
                if isinstance(op, str):
                    lb.keypress(size, op)
                elif op[0] == "press":
                    # which item is drawn on that row? (read from a render before the event)
                    rows_before = rows_of(lb.render(size, True))
                    fpos0 = lb.focus_position if body else None
                    target = None
                    if body:
                        concat, owner = [], []
                        for i, w in enumerate(body):
                            n = w.rows((size[0],), i == fpos0)
                            rr = rows_of(w.render((size[0],), i == fpos0)) if n else []
                            concat += rr
                            owner += [i] * len(rr)
                        for k in range(0, len(concat) - 0):
                            nn = min(size[1], len(concat) - k)
                            if concat[k : k + nn] == rows_before[:nn] and (nn == size[1] or k == 0):
                                if op[1] < nn:
                                    target = owner[k + op[1]]
                                break
                    lb.mouse_event(size, "mouse press", 1, 0, op[1], True)
                    if target is not None and body[target].selectable():
                        if lb.focus_position != target:
                            ctx.violation("click-focuses", f"C07/click-focuses/{kinds_feature(body)}", case, f"button-1 press on row {op[1]} (item {target}) left focus at {lb.focus_position}")
                elif op[0] == "wheel":
                    lb.mouse_event(size, "mouse press", op[1], 0, 0, True)
                elif op[0] == "focus":
                    lb.set_focus(op[1], op[2])
                elif op[0] == "badfocus":
                    before = (lb.focus_position if body else None)
                    try:
                        lb.set_focus(op[1])
                    except IndexError:
                        pass
                    else:
                        ctx.violation("bad-position", f"C07/bad-position/{st.wkind}", case, f"set_focus({op[1]}) on a list of {len(body)} items was accepted (focus_position now {lb.focus_position if body else None!r}, before {before!r})")
                        return False
                elif op[0] == "valign":
                    lb.set_focus_valign(op[1])
                elif op[0] == "resize":
                    st.size = op[1]
                elif op[0] == "ins":
                    pos = (lb.focus_position if body else 0) if op[1] == "f" else op[1]
                    st.walker.insert(pos, st.fresh(op[2]))
                elif op[0] == "app":
                    st.walker.append(st.fresh(op[1]))
                elif op[0] == "del":
                    pos = lb.focus_position if op[1] == "f" else op[1]
                    if st.wkind == "mini":
                        st.walker.delete(pos % len(body))
                    else:
                        del st.walker[pos]  # (-1 stays a negative index)
                elif op[0] == "retext":
                    pos = lb.focus_position if op[1] == "f" else op[1]
                    w = st.body()[pos]
                    if isinstance(w, urwid.Edit):
                        lab = (w.edit_text[:1] or "q")
                        new = "\n".join(lab + str(k) for k in range(op[2]))
                        if new == w.edit_text:
                            return False
                        w.set_edit_text(new)
                    elif isinstance(w, urwid.Text) and not isinstance(w, urwid.SelectableIcon):
                        lab = (w.text[:1] or "q")
                        new = "\n".join(lab + str(k) for k in range(op[2]))
                        if new == w.text:
                            return False
                        w.set_text(new)
                    else:
                        return False
                elif op[0] == "repl":
                    pos = lb.focus_position if op[1] == "f" else op[1]
                    if st.wkind == "mini":
                        st.walker.replace(pos, st.fresh(op[2]))
                    else:
                        st.walker[pos] = st.fresh(op[2])
        except WatchdogTimeout:
            ctx.violation("terminates", f"C07/terminates/{feat}", case, "event did not return")
            return False
        except Exception as e:
            kinds = kinds_feature(body)
            site = exc_site(e)
            if kinds == "with-zero-row-item" and site in ZERO_ROW_SITES:
                sig = f"C07/raises/zero-row-item/{site}"  # one root cause whatever the event
            else:
                sig = f"C07/event-raises/{feat}/{kinds}/{site}"
            ctx.violation("event-raises", sig, case, f"{op!r} raised {e!r}")
            return False
        return True


def run(tier, R):
    quick = tier == "quick"
    cfgs = []
    lists = []
    for L in range(0, 3 if quick else 4):
        lists += list(itertools.product(KINDS, repeat=L))
    lists += [("T1", "T1", "S4"), ("T1", "S4", "T1"), ("Q1", "Q1"), ("Q1", "T1", "Q1"), ("T1", "S1", "T3"), ("E5", "S1", "E2"), ("T3", "T3", "S1", "T1"), ("S1", "Z0", "S1"), ("E2", "T3", "E5", "S1", "T1"), ("C3", "S1", "C3")]
    seen = set()
    for kl in lists:
        if kl in seen:
            continue
        seen.add(kl)
        for wk in ("focus", "simple", "mini"):
            if wk != "focus" and len(kl) not in (0, 1, 2, 3) and quick:
                continue
            for size in ((W, 1), (W, 3)) if quick else (SIZES if wk == "focus" or len(kl) < 3 else ((W, 3),)):  # (three-item lists on the other two walkers: one size, for the budget)
                cfgs.append((wk, kl, size))
        if len(kl) in (1, 3):
            cfgs.append(("gen", kl, (W, 3)))
    SEQ_DEPTH[1] = tier
    if quick:
        SEQ_DEPTH[0] = 0  # (un-rendered pairs as the first step; one step deeper only the (set_focus, delete) pairs)
        res = R.bfs(Spec(cfgs), depth=2, max_states=None)
        res2 = None
    else:
        # three searches (three steps over every configuration is ~3*10^7 transitions and did not fit the budget): two steps of single operations
        # over the whole configuration set; three steps over the focus walker at one size with lists of <= 2 items and the named longer lists;
        # two steps including the un-rendered pairs over the lists of <= 2 items
        SEQ_DEPTH[0] = -2
        res = R.bfs(Spec(cfgs), depth=2, max_states=4_000_000)
        deep = [c for c in cfgs if c[0] == "focus" and c[2] == (W, 3) and (len(c[1]) <= 2 or c[1] in lists[-10:])]
        res3 = R.bfs(Spec(deep), depth=3, max_states=4_000_000)
        SEQ_DEPTH[0] = 0
        small = [c for c in cfgs if len(c[1]) <= 2]
        res2 = R.bfs(Spec(small), depth=2, max_states=None)
        res = dict(res, states=res["states"] + res3["states"], transitions=res["transitions"] + res3["transitions"], capped=res["capped"] or res3["capped"],
                   deep={"configs": len(deep), "depth": res3["depth"], "states": res3["states"], "transitions": res3["transitions"], "levels": res3["levels"]})
    tot_states = res["states"] + (res2["states"] if res2 else 0)
    tot_trans = res["transitions"] + (res2["transitions"] if res2 else 0)
    cov = {
        "states": tot_states,
        "transitions": tot_trans,
        "traces_validated_against_impl": tot_trans,
        "evaluations": int(R.ctx.counts["evaluations"]),
        "distinct_nontrivial": len(R.ctx.sets.get("nontrivial", ())),
        "rule": ("BFS" if quick else "three BFS runs (depth 2 over every configuration; depth 3 over the focus walker at 4x3 with lists of <= 2 items and the named longer lists; depth 2 with the pair operations over the lists of <= 2 items);") + f" depth {res['depth']} from {len(cfgs)} initial (walker kind, item list, box size) configurations: lists of 0..{2 if quick else 3} items over "
        "{1-row text, 3-row text, selectable icon, 2- and 5-row Edit, zero-row widget, 3-row Columns[Text, Pile]} + 5 longer lists, walkers SimpleFocusListWalker / SimpleListWalker / "
        "a minimal custom walker, sizes 4x{1,2,3,5}; events: 9 keys, press on every row, wheel, set_focus(i, coming_from), set_focus_valign, resize, walker "
        "insert/append/delete/replace, an item changing its own height in place (set_text / set_edit_text), and pairs (set_focus / set_focus_valign, then a walker edit or resize, and the reverse for insert / delete) with no render in between. Every state is rendered and compared with the slice oracle. non-trivial = distinct (rows, focus) renderings that are scrolled or overflow",
        "exhaustive": not res["capped"],
        "bfs_levels": res["levels"],
        "deep_search": res.get("deep"),
        "pairs_search": None if res2 is None else {"configs": res2["configs"], "depth": res2["depth"], "states": res2["states"], "transitions": res2["transitions"], "levels": res2["levels"]},
        "bound": {"depth": res["depth"], "capped": res["capped"]},
    }
    return {
        "coverage": cov,
        "assumptions": [
            "every row of every item is unique text, so 'a contiguous slice of the concatenation of the items' renderings' is decidable from the rows alone",
            "items are rendered at the box width with focus only for the focus item",
            "an exception from keypress/mouse_event on a valid event is reported under the separate clause event-raises",
        ],
    }


def replay(case, ctx):
    cfg = (case["cfg"][0], tuple(case["cfg"][1]), tuple(case["cfg"][2]))
    spec = Spec([cfg])
    st = spec.build(cfg)

    def norm(op):
        if isinstance(op, str):
            return op
        return tuple(tuple(x) if isinstance(x, (list, tuple)) else x for x in op)

    hist = tuple(norm(op) for op in case["hist"])
    spec.check_state(cfg, st, ctx, ()) if not hist else None
    for i, op in enumerate(hist):
        last = i == len(hist) - 1
        ctx.muted = not last
        ok = spec.apply(cfg, st, op, ctx, hist[:i])
        print("  step", i, op, "->", "ok" if ok else "FAILED")
        if ok is not False:
            spec.check_state(cfg, st, ctx, hist[: i + 1])
            try:
                print("     rows", rows_of(st.lb.render(st.size, True)), "focus", st.lb.focus_position if st.body() else None)
            except Exception as e:
                print("     render raised", repr(e))
    ctx.muted = False
