"""C10 — the Edit widget behaves as a text-editor model for any key sequence.

Shape H: explicit-state BFS over key / click histories on real Edit widgets (str and UTF-8 bytes,
captions, wide / combining characters, newlines, widths, wrap modes, alignment, multiline,
allow_tab, mask) in lock-step with a list-of-characters reference editor; the row structure the
reference moves over is read from the widget's own (C03-checked) layout with an own tuple parser.
Numeric variants (IntEdit, IntegerEdit, FloatEdit) are explored for the alphabet invariant.
"""
from __future__ import annotations

from decimal import Decimal

from .. import env
from ..core import Ctx, exc_site
from ..refs import widths as W

import urwid
from urwid import numedit

ID = "C10"
LEVEL = "model_checking"

KEYS = ["a", "你", "́", " ", "left", "right", "up", "down", "home", "end", "backspace", "delete", "enter", "tab", "f5"]
TEXT_CAP = 6


def units(s, is_bytes):
    """length of a str in implementation offset units"""
    return len(s.encode("utf-8")) if is_bytes else len(s)


class Cfg(tuple):
    pass


def configs(tier):
    caps = ["", "c:", "名"]
    texts = ["", "ab", "a b c", "你b", "é", "a\nb"]
    widths = [1, 2, 3, 5, 8] if tier != "quick" else [2, 3, 5]
    wraps = ["space", "any", "clip"]
    aligns = ["left", "center", "right"]
    out = []
    n = 0
    for cap in caps:
        for txt in texts:
            for w in widths:
                for wrap in wraps:
                    al = aligns[n % 3] if tier == "quick" else None
                    n += 1
                    for align in ([al] if al else aligns):
                        out.append(("edit", "str", cap, txt, w, wrap, align, True, False, None))
    # option variants on a smaller product
    for txt in ("ab", "你b", "a\nb"):
        for w in (3, 5):
            out.append(("edit", "str", "c:", txt, w, "space", "left", False, False, None))  # single line: enter unhandled
            out.append(("edit", "str", "", txt, w, "any", "left", True, True, None))  # allow_tab
            out.append(("edit", "str", "c:", txt, w, "space", "left", True, False, "*"))  # mask
            for wrap in wraps:
                out.append(("edit", "bytes", "c:", txt, w, wrap, "left", True, False, None))
                out.append(("edit", "bytes", "名", txt, w, wrap, "right", True, False, None))
    return out


class Ref:
    """list-of-characters editor; pref = set of acceptable preferred columns (int, 'left', 'right', or None = the
    displayed cursor column).  More than one element means the statement does not say whether the key resets it."""

    def __init__(self, text):
        self.t = list(text)
        self.p = len(self.t)
        self.pref = {None}


class State:
    def __init__(self, cfg):
        kind, form, cap, txt, w, wrap, align, multiline, allow_tab, mask = cfg
        self.cfg = cfg
        self.is_bytes = form == "bytes"
        self.size = (w,)
        c, t = (cap.encode(), txt.encode()) if self.is_bytes else (cap, txt)
        m = mask.encode() if (mask and self.is_bytes) else mask
        self.e = urwid.Edit(c, t, multiline=multiline, allow_tab=allow_tab, wrap=wrap, align=align, mask=m)
        self.ref = Ref(txt)
        self.events: list = []
        # two users connected the same callback; one of them has disconnected again: the other is still told about every modification, once
        on_change = lambda w_, new: self.events.append(("change", new, w_.edit_text))  # noqa: E731
        on_post = lambda w_, old: self.events.append(("postchange", old, w_.edit_text))  # noqa: E731
        for name, cb in (("change", on_change), ("postchange", on_post)):
            urwid.connect_signal(self.e, name, cb)
            urwid.connect_signal(self.e, name, cb)
            urwid.disconnect_signal(self.e, name, cb)

    def text(self):
        t = self.e.edit_text
        return t.decode("utf-8") if self.is_bytes else t

    def pos_chars(self):
        """cursor offset in characters, or None when it is not on a character boundary"""
        p = self.e.edit_pos
        if not self.is_bytes:
            return p
        try:
            return len(self.e.edit_text[:p].decode("utf-8"))
        except UnicodeDecodeError:
            return None


# ----------------------------------------------------------------------
def coords_map(text, layout, is_bytes):
    """offset (implementation units, into the full caption+edit text) -> (x, y): own parser of the layout structure"""
    m: dict = {}
    if is_bytes:
        chars = W.chars_of(text, "utf-8", "utf8")
    else:
        chars = W.chars_of(text)
    by_off = {c.offs: c for c in chars}
    for y, line in enumerate(layout):
        x = 0
        for seg in line:
            sc, offs = seg[0], seg[1]
            if offs is None:
                x += sc
                continue
            if len(seg) == 3 and not isinstance(seg[2], (bytes, str)):
                end = seg[2]
                xx = x
                p = offs
                while p < end:
                    c = by_off.get(p)
                    if c is None:
                        p += 1
                        continue
                    m.setdefault(p, (xx, y))
                    xx += c.width
                    p = c.end
                x += sc
            elif len(seg) == 3:
                x += sc  # inserted text (ellipsis): no offsets
            else:
                m.setdefault(offs, (x, y))
                x += sc
    return m


def analyse(st: State):
    """rows: {y: [(x, char index)]} for every cursor position, from the unshifted layout"""
    e = st.e
    w = st.size[0]
    full, _ = e.get_text()
    lay = urwid.Text.get_line_translation(e, w)
    cm = coords_map(full, lay, st.is_bytes)
    capu = len(e.caption)
    offs = [0]
    for ch in st.ref.t:
        offs.append(offs[-1] + units(ch, st.is_bytes))
    pos_xy = {}
    for i, o in enumerate(offs):
        c = cm.get(capu + o)
        if c is not None:
            pos_xy[i] = c
    rows: dict = {}
    for i, (x, y) in pos_xy.items():
        rows.setdefault(y, []).append((x, i))
    return pos_xy, rows, offs, len(lay)


class Spec:
    def __init__(self, tier):
        self.tier = tier
        self._cfgs = configs(tier)

    def configs(self, tier):
        return self._cfgs

    def build(self, cfg):
        env.reset("utf-8")
        return State(cfg)

    def key(self, cfg, st):
        e = st.e
        pc = e.pref_col_maxcol
        return (e.edit_text, e.edit_pos, (str(pc[0]), pc[1]), bool(e._shift_view_to_cursor), e.highlight, tuple(sorted(map(str, st.ref.pref))))

    def ops(self, cfg, st):
        out = [("key", k) for k in KEYS]
        w = st.size[0]
        try:
            r = st.e.rows(st.size, True)
        except Exception:
            r = 1
        for y in range(min(r, 4)):
            for x in range(w):
                out.append(("click", x, y))
        return out

    def check_state(self, cfg, st, ctx: Ctx, hist):
        case = {"cfg": cfg, "hist": hist}
        e = st.e
        kind, form, cap, txt, w, wrap, align, multiline, allow_tab, mask = cfg

        def V(clause, detail, site=""):
            ctx.violation(clause, f"C10/{clause}/{form}/{wrap}{('/' + site) if site else ''}", case, detail)

        n = len(e.edit_text)
        if not (isinstance(e.edit_pos, int) and 0 <= e.edit_pos <= n):
            V("pos-range", f"edit_pos {e.edit_pos!r} with text length {n}")
            return
        pc = st.pos_chars()
        if pc is None:
            V("pos-boundary", f"edit_pos {e.edit_pos} is inside a multi-byte character of {e.edit_text!r}")
            return
        if st.text() != "".join(st.ref.t) or pc != st.ref.p:
            return  # model disagreement already reported by apply
        # cursor-cell
        try:
            urwid.CanvasCache.clear()
            canv = e.render(st.size, True)
            cur = canv.cursor
            rows_n = canv.rows()
            pos_xy, rows, offs, nlines = analyse(st)
        except Exception as ex:
            V("render-raises", f"render({st.size}, True) raised {type(ex).__name__}: {ex}", site=exc_site(ex))
            return
        ctx.obs("cursor", cur)
        xy = pos_xy.get(st.ref.p)
        if xy is None:
            return
        x, y = xy
        ex_ = min(max(x, 0), w - 1)  # the view is shifted so that a cursor past either edge shows in the edge column
        if cur != (ex_, y):
            V("cursor-cell", f"cursor drawn at {cur}, the character at offset {e.edit_pos} is at column {x} row {y} (shown at column {ex_}) in {w} columns; text {e.edit_text!r}")
        ctx.distinct("nontrivial", (cfg, e.edit_text, e.edit_pos))

    def apply(self, cfg, st: State, op, ctx: Ctx, hist):
        case = {"cfg": cfg, "hist": hist + (op,)}
        kind, form, cap, txt, w, wrap, align, multiline, allow_tab, mask = cfg
        e, ref = st.e, st.ref
        size = st.size
        ctx.count("evaluations")

        def V(clause, detail, site="", feat=""):
            ctx.violation(clause, f"C10/{clause}/{form}/{wrap}{('/' + feat) if feat else ''}{('/' + site) if site else ''}", case, detail)

        try:
            pos_xy, rows, offs, nlines = analyse(st)
        except Exception as ex:
            V("render-raises", f"layout of {e.get_text()[0]!r} at {w} raised {type(ex).__name__}: {ex}", site=exc_site(ex))
            return False
        old_text = "".join(ref.t)
        old_p = ref.p
        old_impl_text = e.edit_text
        del st.events[:]
        exp_unhandled = False
        cands = None
        exp_text = list(ref.t)
        exp_p = ref.p
        if op[0] == "key":
            key = op[1]
            insert = None
            if len(key) == 1:
                insert = key
            elif key == "enter" and multiline:
                insert = "\n"
            elif key == "tab" and allow_tab:
                insert = " " * (8 - (e.edit_pos % 8))
            if insert is not None:
                if len(ref.t) + len(insert) > TEXT_CAP:
                    return False  # bound on the text length: not explored
                exp_text[ref.p : ref.p] = list(insert)
                exp_p = ref.p + len(insert)
            elif key == "left":
                if ref.p == 0:
                    exp_unhandled = True
                else:
                    exp_p = ref.p - 1
            elif key == "right":
                if ref.p >= len(ref.t):
                    exp_unhandled = True
                else:
                    exp_p = ref.p + 1
            elif key == "backspace":
                if ref.p == 0:
                    exp_unhandled = True
                else:
                    del exp_text[ref.p - 1]
                    exp_p = ref.p - 1
            elif key == "delete":
                if ref.p >= len(ref.t):
                    exp_unhandled = True
                else:
                    del exp_text[ref.p]
            elif key in ("up", "down", "home", "end"):
                xy = pos_xy.get(ref.p)
                if xy is None:
                    ctx.count("reference-has-no-coordinates")
                    return False
                x, y = xy
                if key in ("home", "end"):
                    ps = [i for _, i in rows[y]]
                    cands = [min(ps) if key == "home" else max(ps)]  # (or the start of that combining cluster, below)
                else:
                    ty = y - 1 if key == "up" else y + 1
                    if ty not in rows or ty < 0:
                        exp_unhandled = True
                    else:
                        xs = rows[ty]
                        cands = []
                        for pcol in ref.pref:
                            if pcol is None:
                                pcol = min(max(x, 0), w - 1)  # the displayed cursor column
                            if pcol == "left":
                                best = min(xx for xx, _ in xs)
                                cands += [i for xx, i in xs if xx == best]
                            elif pcol == "right":
                                best = max(xx for xx, _ in xs)
                                cands += [i for xx, i in xs if xx == best]
                            else:
                                best = min(abs(xx - pcol) for xx, _ in xs)
                                cands += [i for xx, i in xs if abs(xx - pcol) == best]
            else:
                exp_unhandled = True
            try:
                got = e.keypress(size, key)
            except Exception as ex:
                V("event-raises", f"keypress({size}, {key!r}) raised {type(ex).__name__}: {ex}", site=exc_site(ex), feat=key if len(key) > 1 else "char")
                return False
            feat = key if len(key) > 1 else "char"
            if exp_unhandled:
                if got != key:
                    V("unhandled", f"key {key!r} is not used by the editor here but keypress returned {got!r}", feat=feat)
            elif got is not None:
                V("unhandled", f"key {key!r} should be handled (text {old_text!r} pos {ref.p}) but keypress returned {got!r}", feat=feat)
        else:
            _, X, Y = op
            feat = "click"
            # displayed cell -> character, from the displayed (possibly shifted) translation
            try:
                lay = e.get_line_translation(w)
                full, _ = e.get_text()
                cm = coords_map(full, lay, st.is_bytes)
            except Exception as ex:
                V("render-raises", f"get_line_translation raised {type(ex).__name__}: {ex}", site=exc_site(ex))
                return False
            capu = len(e.caption)
            target = None
            for i, ch in enumerate(ref.t):
                c = cm.get(capu + offs[i])
                if c is None:
                    continue
                cw = W.cwidth(ch) if not mask else 1
                if c[1] == Y and cw > 0 and c[0] <= X < c[0] + cw:
                    target = i
            try:
                got = e.mouse_event(size, "mouse press", 1, X, Y, True)
            except Exception as ex:
                V("event-raises", f"mouse press at ({X},{Y}) raised {type(ex).__name__}: {ex}", site=exc_site(ex), feat="click")
                return False
            if target is not None:
                exp_p = target
            else:
                exp_p = None  # a click outside every character cell: unconstrained (must stay a legal state)
        ctx.obs(op, e.edit_text, e.edit_pos, repr(got))
        # ---- compare with the reference
        new_text = st.text()
        pc = st.pos_chars()
        if new_text != "".join(exp_text):
            V("model", f"{op!r} on text {old_text!r} pos {ref.p}: text became {new_text!r}, reference {''.join(exp_text)!r}", feat=feat)
            ref.t = list(new_text)
            ref.p = pc if pc is not None else 0
            return False
        ref.t = exp_text
        if pc is None:
            return True  # check_state reports pos-boundary
        if cands is not None:
            # an offset between a base character and its combining marks is not a cursor stop of its own: the start of that
            # character cluster is accepted too
            for i in list(cands):
                j = i
                while 0 < j <= len(exp_text) - 1 and W.cwidth(exp_text[j]) == 0 and exp_text[j] != "\n":
                    j -= 1
                    cands.append(j)
            if pc not in cands:
                V("model", f"{op!r} on text {old_text!r} pos {ref.p} (preferred column {sorted(map(str, ref.pref))}): cursor went to {pc}, the closest positions of the target row are {cands}", feat=feat)
                ref.p = pc
                return False
            ref.p = pc
        elif exp_p is None:
            ref.p = pc
        else:
            if pc != exp_p:
                V("model" if op[0] == "key" else "click", f"{op!r} on text {old_text!r} pos {ref.p}: cursor at {pc}, reference {exp_p}", feat=feat)
                ref.p = pc
                return False
            ref.p = exp_p
        # ---- the reference's preferred column after this step
        if op[0] == "click":
            if got:
                ref.pref = {op[1]}
        else:
            key = op[1]
            if key in ("up", "down"):
                if not exp_unhandled:
                    # a vertical move keeps the preferred column it used (resolved to a number if it was the cursor column)
                    xy0 = pos_xy.get(old_p)
                    ref.pref = {(min(max(xy0[0], 0), w - 1) if (pc_ is None and xy0) else pc_) for pc_ in ref.pref}
            elif key == "home":
                ref.pref = {"left"}
            elif key == "end":
                ref.pref = {"right"}
            elif exp_unhandled:
                if key in ("left", "right", "backspace", "delete"):
                    ref.pref = ref.pref | {None}  # nothing happened: the statement does not say whether the column is forgotten
            else:
                ref.pref = {None}  # insertions, deletions and horizontal moves forget the preferred column
        # ---- signals
        if new_text != old_text:
            new_impl = e.edit_text
            want = [("change", new_impl, old_impl_text), ("postchange", old_impl_text, new_impl)]
            if st.events != want:
                V("signals", f"{op!r}: text {old_impl_text!r} -> {new_impl!r}; signals (name, argument, edit_text at that moment) were {st.events}, expected {want}", feat=feat)
        elif st.events:
            V("signals", f"{op!r} did not change the text but signalled {st.events}", feat=feat)
        return True


# ----------------------------------------------------------------------
# numeric variants: alphabet invariant
# ----------------------------------------------------------------------
NUM_KEYS = ["0", "5", "-", ".", ",", "a", "g", "\u00b2", "\u0663", "left", "right", "home", "end", "backspace", "delete"]


def num_configs(tier):
    out = [("IntEdit", None), ("IntEdit", 105)]
    for neg in (False, True):
        out.append(("IntegerEdit", 10, neg, None))
        out.append(("IntegerEdit", 16, neg, 10))
        out.append(("IntegerEdit", 10, neg, -5 if neg else 5))
        out.append(("FloatEdit", ".", neg, None))
        out.append(("FloatEdit", ",", neg, "1.5"))
    out.append(("FloatEdit", ",", False, None, "deprecated-keywords"))  # decimalSeparator= / preserveSignificance=, still accepted
    return out


class NumState:
    def __init__(self, cfg):
        self.cfg = cfg
        k = cfg[0]
        if k == "IntEdit":
            self.e = urwid.IntEdit("n:", cfg[1])
            self.allowed = set("0123456789")
            self.neg = False
        elif k == "IntegerEdit":
            self.e = numedit.IntegerEdit("n:", cfg[3], base=cfg[1], allow_negative=cfg[2])
            self.allowed = set("0123456789") if cfg[1] == 10 else set("0123456789abcdefABCDEF")
            self.neg = cfg[2]
        else:
            if len(cfg) > 4:
                import warnings

                with warnings.catch_warnings():
                    warnings.simplefilter("ignore")
                    self.e = numedit.FloatEdit("n:", None, preserveSignificance=True, decimalSeparator=cfg[1])
            else:
                self.e = numedit.FloatEdit("n:", Decimal(cfg[3]) if cfg[3] else None, decimal_separator=cfg[1], allow_negative=cfg[2])
            self.allowed = set("0123456789") | {cfg[1]}
            self.neg = cfg[2]
        self.size = (12,)


class NumSpec:
    def configs(self, tier):
        return num_configs(tier)

    def build(self, cfg):
        env.reset("utf-8")
        return NumState(cfg)

    def key(self, cfg, st):
        return (st.e.edit_text, st.e.edit_pos)

    def ops(self, cfg, st):
        return [("key", k) for k in NUM_KEYS]

    def check_state(self, cfg, st, ctx: Ctx, hist):
        case = {"cfg": cfg, "hist": hist}
        t = st.e.edit_text

        def V(clause, detail, feat=""):
            ctx.violation(clause, f"C10/{clause}/{cfg[0]}{('/' + feat) if feat else ''}", case, detail)

        if not 0 <= st.e.edit_pos <= len(t):
            V("pos-range", f"edit_pos {st.e.edit_pos} with text {t!r}")
        body = t
        if st.neg and t.startswith("-"):
            body = t[1:]
        bad = [c for c in body if c not in st.allowed]
        if bad:
            feat = "minus-not-leading" if set(bad) == {"-"} and st.neg else "foreign-character"
            V("numeric-alphabet", f"{cfg[0]} holds {t!r}: {bad} outside the allowed alphabet (a minus sign is only allowed once, in front)", feat)
        ctx.distinct("nontrivial", (cfg, t, st.e.edit_pos))

    def apply(self, cfg, st, op, ctx: Ctx, hist):
        ctx.count("evaluations")
        key = op[1]
        if len(st.e.edit_text) >= 5 and len(key) == 1:
            return False
        case = {"cfg": cfg, "hist": hist + (op,)}
        t, p = st.e.edit_text, st.e.edit_pos
        # one step of the simple single-row editor from the widget's own pre-state
        unh = False
        t2, p2 = t, p
        if len(key) == 1:
            ok = (key.upper() in st.allowed or key in st.allowed) and not (p == 0 and t[:1] == "-")
            if key == "-" and "-" not in st.allowed:
                ok = st.neg and p == 0 and "-" not in t
            if ok:
                t2, p2 = t[:p] + key + t[p:], p + 1
            else:
                unh = True
        elif key == "left":
            unh = p == 0
            p2 = max(p - 1, 0)
        elif key == "right":
            unh = p >= len(t)
            p2 = min(p + 1, len(t))
        elif key == "home":
            p2 = 0
        elif key == "end":
            p2 = len(t)
        elif key == "backspace":
            unh = p == 0
            if p:
                t2, p2 = t[: p - 1] + t[p:], p - 1
        elif key == "delete":
            unh = p >= len(t)
            if p < len(t):
                t2 = t[:p] + t[p + 1 :]
        try:
            got = st.e.keypress(st.size, key)
        except Exception as ex:
            ctx.violation("event-raises", f"C10/event-raises/{cfg[0]}/{exc_site(ex)}", case, f"keypress {key!r} raised {type(ex).__name__}: {ex}")
            return False
        ctx.obs(op, st.e.edit_text, st.e.edit_pos, repr(got))
        feat = key if len(key) > 1 else ("digit" if key.isdigit() else "char")
        it, ip = st.e.edit_text, st.e.edit_pos
        if unh != (got is not None):
            ctx.violation("unhandled", f"C10/unhandled/{cfg[0]}/{feat}", case, f"{key!r} on {t!r} pos {p}: keypress returned {got!r}, the reference editor {'does not use' if unh else 'uses'} this key")
            return True
        # leading zeros before the cursor may be trimmed: compare modulo leading zeros, cursor measured from the end
        if it.lstrip("0") != t2.lstrip("0") or (len(it) - ip) != (len(t2) - p2):
            ctx.violation("model", f"C10/model/{cfg[0]}/{feat}", case,
                          f"{key!r} on {t!r} pos {p}: widget holds {it!r} pos {ip}; the reference editor gives {t2!r} pos {p2} (leading zeros before the cursor may be trimmed)")
        return True


def run(tier, R):
    depth = 3 if tier == "quick" else 4
    spec = Spec(tier)
    res = R.bfs(spec, depth=depth, max_states=2_000_000)
    nres = R.bfs(NumSpec(), depth=4 if tier == "quick" else 6)
    cov = {
        "states": res["states"] + nres["states"],
        "transitions": res["transitions"] + nres["transitions"],
        "traces_validated_against_impl": res["transitions"] + nres["transitions"],
        "evaluations": res["transitions"] + nres["transitions"],
        "distinct_nontrivial": len(R.ctx.sets.get("nontrivial", ())),
        "rule": f"BFS depth {depth} from {res['configs']} Edit configurations (caption '', 'c:', wide; initial text '', ascii, spaces, wide, combining, newline; widths; "
        "wrap space/any/clip; alignment; multiline; allow_tab; mask; str and UTF-8 bytes) over 15 keys (a, wide, combining, space, arrows, home/end, backspace, delete, enter, "
        f"tab, f5) and a click on every cell of the first 4 rows, text length <= {TEXT_CAP}; dedup on (text, offset, preferred column, view-shift flag); plus BFS depth "
        f"{nres['depth']} over {nres['configs']} IntEdit / IntegerEdit / FloatEdit configurations for the alphabet invariant. non-trivial = distinct (configuration, text, offset)",
        "exhaustive": not res["capped"],
        "bfs_levels": {"edit": res["levels"], "numeric": nres["levels"]},
        "bound": {"depth": depth, "text_cap": TEXT_CAP, "capped": res["capped"]},
    }
    return {
        "coverage": cov,
        "assumptions": [
            "the row structure (which offsets sit on which display row at which column) is read from the widget's layout, which C03 judges; the reference editor decides text and offset",
            "preferred column = the column left by the last vertical move / click / home ('left') / end ('right') at this width, else the displayed cursor column; "
            "for up/down any position of the target row at minimal distance from it is accepted",
            "a click on a cell that shows no character of the edit text is unconstrained",
            "the view is shifted so that a cursor past the right edge is shown in the last column",
        ],
    }


def replay(case, ctx):
    def tup(p):
        return tuple(tup(x) if isinstance(x, (list, tuple)) else x for x in p)

    cfg = tup(case["cfg"])
    hist = tuple(tup(op) for op in case["hist"])
    spec = Spec("thorough") if cfg[0] == "edit" else NumSpec()
    st = spec.build(cfg)
    for i, op in enumerate(hist):
        ctx.muted = i < len(hist) - 1
        print(f"  step {i}: {op}   text={st.e.edit_text!r} pos={st.e.edit_pos}")
        spec.apply(cfg, st, op, ctx, hist[:i])
    ctx.muted = False
    print(f"  final: text={st.e.edit_text!r} pos={st.e.edit_pos}")
    spec.check_state(cfg, st, ctx, hist)
