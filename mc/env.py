"""Import guard and global-state reset.  Import this before anything from urwid."""
from __future__ import annotations

import os
import sys

REPO = os.path.realpath(os.environ.get("VERIF_REPO", "/repo"))
if sys.path[0] != REPO:
    sys.path.insert(0, REPO)

import urwid  # noqa: E402

_where = os.path.realpath(urwid.__file__)
if not _where.startswith(REPO + os.sep):
    raise SystemExit(f"mc.env: urwid imported from {_where}, expected under {REPO}")

import urwid.canvas  # noqa: E402
import importlib  # noqa: E402

_cmdmod = importlib.import_module('urwid.command_map')
import urwid.str_util  # noqa: E402
import urwid.util  # noqa: E402
from urwid import text_layout  # noqa: E402

_COMMAND_MAP0 = dict(_cmdmod.command_map._command)


def reset(encoding: str = "utf-8") -> None:
    """Put every piece of process-global urwid state into a known configuration."""
    urwid.canvas.CanvasCache.clear()
    urwid.util.set_encoding(encoding)
    cm = _cmdmod.command_map
    if cm._command != _COMMAND_MAP0:
        cm._command = dict(_COMMAND_MAP0)
    try:
        text_layout.get_ellipsis_string.cache_clear()
    except AttributeError:
        pass


def repo_head() -> str:
    import subprocess

    try:
        return subprocess.run(
            ["git", "-C", REPO, "rev-parse", "--short", "HEAD"], capture_output=True, text=True, check=False
        ).stdout.strip()
    except OSError:
        return "?"
