"""Recording / painting probe widgets shared by the container checks (C01, C08, C09, C19).

A Probe is an own Widget subclass (not part of urwid) whose every cell is self-describing:
cell (x, y) of a probe named N is drawn as character chr(65 + x % 58) with attribute (N, y), so
from a rendered top-level canvas alone a checker can tell, for every screen cell, which probe is
drawn there and at which probe-local coordinates.  It records every render / keypress /
mouse_event / move_cursor_to_coords call with the size it was handed.
"""
from __future__ import annotations

from . import env  # noqa: F401

import urwid
from urwid.canvas import TextCanvas


class NegativeDimension(Exception):
    pass


FLOW = urwid.FLOW
BOX = urwid.BOX
FIXED = urwid.FIXED


class Probe(urwid.Widget):
    """sizing: iterable of 'box'/'flow'/'fixed'; nat=(cols, rows) natural size (fixed pack, flow rows)."""

    ignore_focus = False
    focus_extra = 0  # extra rows a flow probe takes while it is rendered / measured in focus (a line that expands when selected)

    def __init__(self, name, sizing=("flow",), nat=(2, 1), selectable=False, cursor=None, accept=None, keys=()):
        super().__init__()
        self.name = name
        self._sz = frozenset(urwid.Sizing(s) for s in sizing)
        self.nat = nat
        self._sel = selectable
        self.cursor = cursor  # local (x, y) or None
        self.accept = accept  # None = every cell; else callable(x, y, c, r) -> bool
        self.keys = frozenset(keys)  # keys this probe handles
        self.log: list = []
        self.rows_log: list = []  # sizes rows() was asked at

    def __repr__(self):
        return f"<Probe {self.name}>"

    def sizing(self):
        return self._sz

    def selectable(self):
        return self._sel

    def dims(self, size):
        if len(size) == 0:
            return self.nat
        if len(size) == 1:
            return (size[0], self.nat[1])
        return (size[0], size[1])

    def rows(self, size, focus=False):
        self.rows_log.append(tuple(size))
        return self.nat[1] + (self.focus_extra if focus else 0)

    def pack(self, size=(), focus=False):
        if not size:
            return self.nat
        if len(size) == 1:
            return (min(self.nat[0], size[0]) if FIXED in self._sz else size[0], self.nat[1])
        return tuple(size)

    def _check(self, size, what):
        for d in size:
            if not isinstance(d, int) or isinstance(d, bool):
                self.log.append(("bad-dim", what, tuple(size)))
                raise NegativeDimension(f"{self.name}: {what} got non-int size {size!r}")
            if d < 0:
                self.log.append(("negative", what, tuple(size)))
                raise NegativeDimension(f"{self.name}: {what} got negative size {size!r}")

    def render(self, size, focus=False):
        self.log.append(("render", tuple(size), bool(focus)))
        self._check(size, "render")
        c, r = self.dims(size)
        if len(size) == 1 and focus:
            r += self.focus_extra
        text = []
        attr = []
        for y in range(r):
            text.append(bytes(65 + x % 58 for x in range(c)))
            attr.append([((self.name, y), c)] if c else [])
        cur = None
        if focus and self._sel and self.cursor is not None:  # an unselectable widget never shows a cursor
            cx, cy = self.cursor
            if 0 <= cx < c and 0 <= cy < r:
                cur = (cx, cy)
        if r == 0:
            return TextCanvas([], [], maxcol=c, check_width=False)
        return TextCanvas(text, attr, cursor=cur, maxcol=c, check_width=False)

    def keypress(self, size, key):
        self.log.append(("keypress", tuple(size), key))
        if key in self.keys:
            return None
        return key

    def mouse_event(self, size, event, button, col, row, focus):
        self.log.append(("mouse", tuple(size), event, button, col, row, bool(focus)))
        return True

    def get_cursor_coords(self, size):
        if self.cursor is None or not self._sel:
            return None
        c, r = self.dims(size)
        cx, cy = self.cursor
        if 0 <= cx < c and 0 <= cy < r:
            return (cx, cy)
        return None

    def get_pref_col(self, size):
        if self.cursor is None:
            return None
        return self.cursor[0]

    def move_cursor_to_coords(self, size, x, y):
        self.log.append(("move", tuple(size), x, y))
        c, r = self.dims(size)
        if not isinstance(x, int):
            x = 0 if x == "left" else max(c - 1, 0)
        if self.accept is not None and not self.accept(x, y, c, r):
            return False
        if not (0 <= y < r):
            return False
        self.cursor = (min(max(x, 0), max(c - 1, 0)), y)
        self._invalidate()
        return True

    def renders(self):
        return [e for e in self.log if e[0] == "render"]


def cell_map(canv):
    """rows of cells, one cell per screen column: (code point of the character shown, attr); the second column of a
    double-width character repeats it.  Text is UTF-8 (the probes' checks run in utf-8 mode); bytes of the DEC special
    charset are one column each."""
    from .refs.widths import cwidth

    out = []
    for row in canv.content():
        cells = []
        for a, cs, seg in row:
            if cs is not None:
                cells.extend((b, a) for b in seg)
                continue
            for c in bytes(seg).decode("utf-8", "replace"):
                w = cwidth(c)
                cells.extend([(ord(c), a)] * w)
        out.append(cells)
    return out
