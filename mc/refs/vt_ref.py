"""Reference VT100 / xterm interpreter (independent of urwid.vterm and of urwid's escape tables).

Implements what the checks need: printable text with autowrap and the pending-wrap flag, C0
controls CR LF VT FF BS HT SO SI, ESC sequences IND NEL RI DECSC DECRC, charset designation,
CSI: CUU CUD CUF CUB CNL CPL CHA CUP HVP VPA ED EL ICH DCH IL DL ECH DECSTBM SGR (incl. 38/48;5
and ;2), SM/RM 4 (IRM), private modes 25 (DECTCEM) 1000 1002 1003 1006 1004 2004 1049 47 1047 6 7.
Keeps a scroll counter (every time a line leaves the top of the scrolling region) and a list of
sequences it did not understand.

A cell is (glyph, fg, bg, flags) where glyph "" marks the continuation cell of a double-width
character; fg/bg are None (default), ("i", n) or ("rgb", r, g, b); flags is a frozenset of
{"bold","italics","underline","blink","reverse","strike"}.
"""
from __future__ import annotations

import wcwidth

DEC = dict(zip("_`abcdefghijklmnopqrstuvwxyz{|}~", "▮◆▒␉␌␍␊°±␤␋┘┐┌└┼⎺⎻─⎼⎽├┤┴┬│≤≥π≠£·"))

NOFLAGS = frozenset()


class Term:
    def __init__(self, cols, rows, codec="utf-8", garbage=False, bce=True):
        self.cols = cols
        self.rows = rows
        self.codec = codec
        self.bce = bce
        self.fg = None
        self.bg = None
        self.flags = NOFLAGS
        fill = "?" if garbage else " "
        self.g = [[(fill, None, None, NOFLAGS) for _ in range(cols)] for _ in range(rows)]
        self.x = 0
        self.y = 0
        self.pw = False
        self.insert = False
        self.autowrap = True
        self.origin = False
        self.shift = 0
        self.gset = ["B", "B"]
        self.top = 0
        self.bot = rows - 1
        self.cursor_visible = True
        self.modes = set()
        self.scrolls = 0
        self.scrolled_off = []  # lines that left the screen at the top (full-screen region only)
        self.unknown = []
        self.saved = None
        self.alt_saved = None
        self.title = None
        self.replies = []
        self._buf = b""
        self.wrapped_at_bottom_right = 0
        # points where the VT100 family disagrees (DEC/xterm vs Linux console); checks may try every combination
        self.v_il_resets_col = True  # IL/DL move the cursor to the first column (VT102, xterm) or leave it (Linux)
        self.v_cuu_margins = True  # CUU/CUD stop at the scrolling margins (DEC) or only at the screen edge (Linux)
        self.v_il_outside = False  # IL/DL with the cursor above the region act down to the bottom margin (Linux) or are ignored (DEC)

    # ------------------------------------------------------------ helpers
    def blank(self):
        return (" ", None, self.bg if self.bce else None, NOFLAGS)

    def cur_attr(self):
        return (self.fg, self.bg, self.flags)

    def garbage(self, cols=None, rows=None):
        """Contents become unknown (used after a resize)."""
        if cols is not None:
            self.cols, self.rows = cols, rows
        self.g = [[("?", None, None, NOFLAGS) for _ in range(self.cols)] for _ in range(self.rows)]
        self.x = min(self.x, self.cols - 1)
        self.y = min(self.y, self.rows - 1)
        self.top, self.bot = 0, self.rows - 1
        self.pw = False

    def scroll_up(self, n=1):
        for _ in range(n):
            line = self.g.pop(self.top)
            if self.top == 0:
                self.scrolled_off.append(line)
            self.g.insert(self.bot, [self.blank() for _ in range(self.cols)])
            self.scrolls += 1

    def scroll_down(self, n=1):
        for _ in range(n):
            self.g.pop(self.bot)
            self.g.insert(self.top, [self.blank() for _ in range(self.cols)])

    def lf(self):
        if self.y == self.bot:
            self.scroll_up()
        elif self.y < self.rows - 1:
            self.y += 1

    def ri(self):
        if self.y == self.top:
            self.scroll_down()
        elif self.y > 0:
            self.y -= 1

    def _fix_wide_at(self, y, x):
        """Overwriting one half of a double-width character blanks the other half."""
        row = self.g[y]
        if 0 <= x < self.cols:
            c = row[x]
            if c[0] == "" and x > 0:
                row[x - 1] = (" ",) + row[x - 1][1:]
            elif c[0] and wcwidth.wcwidth(c[0][0]) == 2 and x + 1 < self.cols and row[x + 1][0] == "":
                row[x + 1] = (" ",) + row[x + 1][1:]

    def put(self, ch):
        w = wcwidth.wcwidth(ch)
        if w is None or w < 0:
            return
        if w == 0:
            # combining: attach to the previous cell
            px = self.x - 1 if not self.pw else self.x
            if 0 <= px < self.cols and self.g[self.y][px][0]:
                c = self.g[self.y][px]
                self.g[self.y][px] = (c[0] + ch,) + c[1:]
            elif px - 1 >= 0 and self.g[self.y][px][0] == "":
                c = self.g[self.y][px - 1]
                self.g[self.y][px - 1] = (c[0] + ch,) + c[1:]
            return
        cs = self.gset[self.shift]
        if cs == "0" and ch in DEC:
            ch = DEC[ch]
        if self.pw:
            if self.autowrap:
                if self.y == self.rows - 1 or self.y == self.bot:
                    self.wrapped_at_bottom_right += 1
                self.x = 0
                self.lf()
            self.pw = False
        if w == 2 and self.x == self.cols - 1:
            if self.autowrap and self.cols >= 2:
                self._fix_wide_at(self.y, self.x)
                self.g[self.y][self.x] = (" ",) + self.cur_attr()
                self.x = 0
                self.lf()
            else:
                return
        cells = [(ch,) + self.cur_attr()]
        if w == 2:
            cells.append(("",) + self.cur_attr())
        if self.insert:
            for c in reversed(cells):
                self.g[self.y].insert(self.x, c)
                self.g[self.y].pop()
            last = self.g[self.y][-1]
            if last[0] and wcwidth.wcwidth(last[0][0]) == 2:
                self.g[self.y][-1] = (" ",) + last[1:]
        else:
            for i, c in enumerate(cells):
                self._fix_wide_at(self.y, self.x + i)
                self.g[self.y][self.x + i] = c
        if self.x + w >= self.cols:
            self.x = self.cols - 1
            self.pw = True
        else:
            self.x += w

    # ------------------------------------------------------------ CSI
    def csi(self, private, params, inter, final):
        raw = params
        ps = []
        for p in params.split(";") if params != "" else []:
            try:
                ps.append(int(p) if p else 0)
            except ValueError:
                ps.append(0)
        p0 = ps[0] if ps else 0
        n1 = p0 if p0 else 1
        if private:
            if private == "?" and final in "hl":
                on = final == "h"
                for p in ps:
                    if on:
                        self.modes.add(p)
                    else:
                        self.modes.discard(p)
                    if p == 25:
                        self.cursor_visible = on
                    elif p == 7:
                        self.autowrap = on
                    elif p == 6:
                        self.origin = on
                        self.x, self.y, self.pw = 0, (self.top if on else 0), False
                    elif p in (1049, 47, 1047):
                        if on and self.alt_saved is None:
                            self.alt_saved = ([list(r) for r in self.g], self.x, self.y)
                            self.g = [[(" ", None, None, NOFLAGS) for _ in range(self.cols)] for _ in range(self.rows)]
                        elif not on and self.alt_saved is not None:
                            g, x, y = self.alt_saved
                            if len(g) == self.rows and len(g[0]) == self.cols:
                                self.g = g
                                if p == 1049:
                                    self.x, self.y = x, y
                            self.alt_saved = None
            else:
                self.unknown.append(("csi", private, raw, final))
            return
        if inter:
            self.unknown.append(("csi", inter, raw, final))
            return
        if final not in "m":
            self.pw = False if final in "ABCDEFGHdfJKPX@LMr`ae" else self.pw
        if final in "Hf":
            r = ps[0] if len(ps) > 0 and ps[0] else 1
            c = ps[1] if len(ps) > 1 and ps[1] else 1
            if self.origin:
                self.y = min(self.top + r - 1, self.bot)
            else:
                self.y = min(max(r - 1, 0), self.rows - 1)
            self.x = min(max(c - 1, 0), self.cols - 1)
        elif final == "A":
            lim = self.top if (self.y >= self.top and self.v_cuu_margins) else 0
            self.y = max(self.y - n1, lim)
        elif final in "Be":
            lim = self.bot if (self.y <= self.bot and self.v_cuu_margins) else self.rows - 1
            self.y = min(self.y + n1, lim)
        elif final in "Ca":
            self.x = min(self.x + n1, self.cols - 1)
        elif final == "D":
            self.x = max(self.x - n1, 0)
        elif final == "E":
            lim = self.bot if self.y <= self.bot else self.rows - 1
            self.y = min(self.y + n1, lim)
            self.x = 0
        elif final == "F":
            lim = self.top if self.y >= self.top else 0
            self.y = max(self.y - n1, lim)
            self.x = 0
        elif final in "G`":
            self.x = min(max(n1 - 1, 0), self.cols - 1)
        elif final == "d":
            self.y = min(max(n1 - 1, 0), self.rows - 1)
        elif final == "K":
            if p0 == 0:
                rng = range(self.x, self.cols)
            elif p0 == 1:
                rng = range(0, self.x + 1)
            elif p0 == 2:
                rng = range(self.cols)
            else:
                rng = ()
            self._erase_cells(self.y, rng)
        elif final == "J":
            if p0 == 0:
                self._erase_cells(self.y, range(self.x, self.cols))
                for j in range(self.y + 1, self.rows):
                    self._erase_cells(j, range(self.cols))
            elif p0 == 1:
                self._erase_cells(self.y, range(0, self.x + 1))
                for j in range(0, self.y):
                    self._erase_cells(j, range(self.cols))
            elif p0 in (2, 3):
                for j in range(self.rows):
                    self._erase_cells(j, range(self.cols))
        elif final == "X":
            self._erase_cells(self.y, range(self.x, min(self.cols, self.x + n1)))
        elif final == "@":
            self._fix_wide_at(self.y, self.x)
            for _ in range(min(n1, self.cols - self.x)):
                self.g[self.y].insert(self.x, self.blank())
                self.g[self.y].pop()
            self._fix_row_end(self.y)
        elif final == "P":
            self._fix_wide_at(self.y, self.x)
            for _ in range(min(n1, self.cols - self.x)):
                self.g[self.y].pop(self.x)
                self.g[self.y].append(self.blank())
            self._fix_wide_at(self.y, self.x) if self.g[self.y][self.x][0] == "" else None
        elif final == "L":
            if self.top <= self.y <= self.bot or (self.v_il_outside and self.y < self.top):
                for _ in range(min(n1, self.bot - self.y + 1)):
                    self.g.pop(self.bot)
                    self.g.insert(self.y, [self.blank() for _ in range(self.cols)])
                if self.v_il_resets_col:
                    self.x = 0
        elif final == "M":
            if self.top <= self.y <= self.bot or (self.v_il_outside and self.y < self.top):
                for _ in range(min(n1, self.bot - self.y + 1)):
                    self.g.pop(self.y)
                    self.g.insert(self.bot, [self.blank() for _ in range(self.cols)])
                if self.v_il_resets_col:
                    self.x = 0
        elif final == "S":
            self.scroll_up(n1)
        elif final == "T":
            self.scroll_down(n1)
        elif final == "r":
            t = ps[0] if len(ps) > 0 and ps[0] else 1
            b = ps[1] if len(ps) > 1 and ps[1] else self.rows
            b = min(b, self.rows)
            if t < b:
                self.top, self.bot = t - 1, b - 1
                self.x, self.y = 0, (self.top if self.origin else 0)
        elif final == "h" and 4 in ps:
            self.insert = True
        elif final == "l" and 4 in ps:
            self.insert = False
        elif final in "hl":
            self.unknown.append(("mode", raw, final))
        elif final == "m":
            self.do_sgr(ps or [0])
        elif final == "n":
            if p0 == 5:
                self.replies.append("\x1b[0n")
            elif p0 == 6:
                self.replies.append(f"\x1b[{self.y + 1};{self.x + 1}R")
        elif final == "c":
            self.replies.append("\x1b[?6c")
        else:
            self.unknown.append(("csi", "", raw, final))

    def _fix_row_end(self, y):
        last = self.g[y][-1]
        if last[0] and wcwidth.wcwidth(last[0][0]) == 2:
            self.g[y][-1] = (" ",) + last[1:]

    def _erase_cells(self, y, rng):
        rng = list(rng)
        if not rng:
            return
        self._fix_wide_at(y, rng[0])
        self._fix_wide_at(y, rng[-1])
        b = self.blank()
        for i in rng:
            self.g[y][i] = b

    def do_sgr(self, ps):
        i = 0
        fl = set(self.flags)
        names = {1: "bold", 3: "italics", 4: "underline", 5: "blink", 7: "reverse", 9: "strike"}
        offs = {22: "bold", 23: "italics", 24: "underline", 25: "blink", 27: "reverse", 29: "strike"}
        while i < len(ps):
            p = ps[i]
            if p == 0:
                fl.clear()
                self.fg = self.bg = None
            elif p in names:
                fl.add(names[p])
            elif p in offs:
                fl.discard(offs[p])
            elif p in (10, 11):
                pass
            elif 30 <= p <= 37:
                self.fg = ("i", p - 30)
            elif 40 <= p <= 47:
                self.bg = ("i", p - 40)
            elif 90 <= p <= 97:
                self.fg = ("i", p - 90 + 8)
            elif 100 <= p <= 107:
                self.bg = ("i", p - 100 + 8)
            elif p == 39:
                self.fg = None
            elif p == 49:
                self.bg = None
            elif p in (38, 48):
                k = "fg" if p == 38 else "bg"
                if i + 2 < len(ps) and ps[i + 1] == 5:
                    setattr(self, k, ("i", ps[i + 2]))
                    i += 2
                elif i + 4 < len(ps) and ps[i + 1] == 2:
                    setattr(self, k, ("rgb", ps[i + 2], ps[i + 3], ps[i + 4]))
                    i += 4
                else:
                    self.unknown.append(("sgr", tuple(ps[i:])))
                    break
            else:
                self.unknown.append(("sgr", p))
            i += 1
        self.flags = frozenset(fl)

    # ------------------------------------------------------------ byte feed
    def feed(self, data):
        if isinstance(data, str):
            data = data.encode(self.codec)
        data = self._buf + data
        self._buf = b""
        i = 0
        n = len(data)
        while i < n:
            b = data[i]
            if b == 0x1B:
                j = self._escape(data, i)
                if j is None:  # incomplete: wait for more
                    self._buf = data[i:]
                    return
                i = j
                continue
            if b < 0x20 or b == 0x7F:
                self._control(b)
                i += 1
                continue
            # printable: decode one character
            if b < 0x80:
                self.put(chr(b))
                i += 1
                continue
            if self.codec.replace("-", "").lower() == "utf8":
                need = 1 if b & 0xE0 == 0xC0 else 2 if b & 0xF0 == 0xE0 else 3 if b & 0xF8 == 0xF0 else 0
                if need and i + need >= n and all(x & 0xC0 == 0x80 for x in data[i + 1 : n]):
                    self._buf = data[i:]
                    return
                try:
                    ch = data[i : i + need + 1].decode("utf-8")
                    if need == 0 or len(ch) != 1:
                        raise UnicodeDecodeError("utf-8", b"", 0, 1, "x")
                    self.put(ch)
                    i += need + 1
                except UnicodeDecodeError:
                    self.put("�")
                    i += 1
            else:
                # single/double byte codec: try 2 bytes then 1
                done = False
                for ln in (1, 2):
                    try:
                        ch = data[i : i + ln].decode(self.codec)
                        if len(ch) == 1:
                            self.put(ch)
                            i += ln
                            done = True
                            break
                    except UnicodeDecodeError:
                        continue
                if not done:
                    self.put("�")
                    i += 1

    def _control(self, b):
        if b == 0x0D:
            self.x = 0
            self.pw = False
        elif b in (0x0A, 0x0B, 0x0C):
            self.pw = False if False else self.pw
            self.lf()
        elif b == 0x08:
            # xterm and the Linux console: backspace leaves the pending-wrap state and moves one column left
            self.pw = False
            if self.x > 0:
                self.x -= 1
        elif b == 0x09:
            nx = min(((self.x // 8) + 1) * 8, self.cols - 1)
            self.x = nx
        elif b == 0x0E:
            self.shift = 1
        elif b == 0x0F:
            self.shift = 0
        elif b == 0x07:
            pass

    def _escape(self, data, i):
        n = len(data)
        if i + 1 >= n:
            return None
        c = chr(data[i + 1])
        if c == "[":
            j = i + 2
            private = ""
            if j < n and chr(data[j]) in "?<>=":
                private = chr(data[j])
                j += 1
            k = j
            while k < n and (chr(data[k]) in "0123456789;:"):
                k += 1
            m = k
            while m < n and 0x20 <= data[m] <= 0x2F:
                m += 1
            if m >= n:
                return None
            final = chr(data[m])
            if 0x40 <= data[m] <= 0x7E:
                self.csi(private, data[j:k].decode("ascii"), data[k:m].decode("ascii"), final)
            else:
                self.unknown.append(("csi-bad", data[i : m + 1]))
            return m + 1
        if c in "()*+":
            if i + 2 >= n:
                return None
            if c == "(":
                self.gset[0] = chr(data[i + 2])
            elif c == ")":
                self.gset[1] = chr(data[i + 2])
            return i + 3
        if c == "]":
            # OSC ... BEL | ESC \
            j = i + 2
            while j < n:
                if data[j] == 0x07:
                    return j + 1
                if data[j] == 0x1B and j + 1 < n and data[j + 1] == 0x5C:
                    return j + 2
                j += 1
            return None
        if c in "#%":
            if i + 2 >= n:
                return None
            return i + 3
        if c == "D":
            self.lf()
        elif c == "E":
            self.x = 0
            self.pw = False
            self.lf()
        elif c == "M":
            self.pw = False
            self.ri()
        elif c == "7":
            self.saved = (self.x, self.y, self.fg, self.bg, self.flags, self.shift, list(self.gset), self.pw)
        elif c == "8":
            if self.saved:
                self.x, self.y, self.fg, self.bg, self.flags, self.shift, gs, self.pw = self.saved
                self.gset = list(gs)
        elif c in "=>":
            pass
        elif c == "c":
            self.__init__(self.cols, self.rows, self.codec, bce=self.bce)
        else:
            self.unknown.append(("esc", c))
        return i + 2

    # ------------------------------------------------------------ views
    def glyph_rows(self):
        return ["".join(c[0] for c in row) for row in self.g]

    def snapshot(self):
        return (
            tuple(tuple(r) for r in self.g),
            (self.x, self.y, self.pw),
            self.cursor_visible,
            self.insert,
            self.shift,
            tuple(self.gset),
            tuple(sorted(self.modes)),
            (self.top, self.bot),
        )
