"""Reference width / cell model shared by the display checks (independent of urwid.str_util).

A text (str, or bytes in a known codec) is split into characters:
    Char(offs, end, width, glyph)   offs/end index the *original* text (str index or byte offset)
A display line is a list of cells; a double-width character occupies a lead cell and a
continuation cell; zero-width characters attach to the cell before them.
"""
from __future__ import annotations

import codecs
import typing

import wcwidth


class Char(typing.NamedTuple):
    offs: int
    end: int
    width: int
    glyph: str


def cwidth(c: str) -> int:
    w = wcwidth.wcwidth(c)
    return w if w > 0 else 0


def swidth(s: str) -> int:
    return sum(cwidth(c) for c in s)


def chars_of(text, codec: str | None = None, mode: str = "utf8") -> list[Char]:
    """Characters of a str, or of validly encoded bytes (codec required).
    mode 'wide'/'narrow' for bytes: widths follow the byte rules (pair = 2, single byte = 1)."""
    out = []
    if isinstance(text, str):
        for i, c in enumerate(text):
            out.append(Char(i, i + 1, cwidth(c), c))
        return out
    dec = codecs.getincrementaldecoder(codec)()
    start = 0
    for i in range(len(text)):
        s = dec.decode(text[i : i + 1])
        if s:
            for c in s:
                n = i + 1 - start
                if mode == "utf8":
                    w = cwidth(c)
                else:
                    w = n  # wide: double-byte pair = 2 columns; narrow: every byte 1
                out.append(Char(start, i + 1, w, c))
            start = i + 1
    if start != len(text):
        raise ValueError(f"truncated text {text!r} for {codec}")
    return out


class Cell(typing.NamedTuple):
    ci: int  # index into the char list of the line; -1 for a blank
    part: int  # 0 lead / only cell, 1 continuation cell of a double-width character


def line_cells(chars: list[Char]) -> list[Cell]:
    cells = []
    for i, ch in enumerate(chars):
        if ch.width == 1:
            cells.append(Cell(i, 0))
        elif ch.width == 2:
            cells.append(Cell(i, 0))
            cells.append(Cell(i, 1))
    return cells


def window_text(chars: list[Char], start_col: int, ncols: int, blank: str = " ") -> str:
    """What a terminal shows in columns [start_col, start_col+ncols) of the line: half-cut wide characters become
    a space, zero-width characters follow their (fully shown) base character; zero-width characters before the first
    shown cell are dropped. Columns beyond the line are blank."""
    cells = line_cells(chars)
    out = []
    # zero-width chars following char i
    follow: dict[int, str] = {}
    last = -1
    for i, ch in enumerate(chars):
        if ch.width == 0:
            follow[last] = follow.get(last, "") + ch.glyph
        else:
            last = i
    col = start_col
    end = start_col + ncols
    while col < end:
        if col < 0 or col >= len(cells):
            out.append(blank)
            col += 1
            continue
        c = cells[col]
        ch = chars[c.ci]
        if ch.width == 1:
            out.append(ch.glyph + follow.get(c.ci, ""))
            col += 1
        elif c.part == 0 and col + 1 < end:
            out.append(ch.glyph + follow.get(c.ci, ""))
            col += 2
        else:
            out.append(blank)  # half of a double-width character
            col += 1
    return "".join(out)
