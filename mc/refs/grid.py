"""Reference model of canvas algebra: a plain 2-D array of character cells.

cell = (glyph, attr, cs); glyph None marks the continuation cell of a double-width character;
zero-width characters are appended to the glyph of the cell before them.
A Grid also carries coordinates ('cursor', 'pop up') that move with the content.
"""
from __future__ import annotations

from .widths import cwidth

BLANK = (" ", None, None)


def fix(row):
    """A double-width character that lost one half becomes a space keeping its attribute."""
    out = list(row)
    n = len(out)
    for i, (ch, a, _cs) in enumerate(out):
        if ch is None and (i == 0 or out[i - 1][0] is None or cwidth(out[i - 1][0][0]) != 2):
            out[i] = (" ", a, None)
    for i, (ch, a, _cs) in enumerate(out):
        if ch is not None and cwidth(ch[0]) == 2 and (i + 1 >= n or out[i + 1][0] is not None):
            out[i] = (" ", a, None)
    return out


class Grid:
    __slots__ = ("rows", "coords")

    def __init__(self, rows, coords=None):
        self.rows = [list(r) for r in rows]
        self.coords = dict(coords or {})

    # ---- basic facts
    def ncols(self):
        return len(self.rows[0]) if self.rows else 0

    def nrows(self):
        return len(self.rows)

    def key(self):
        return (tuple(tuple(r) for r in self.rows), tuple(sorted(self.coords.items())))

    def copy(self):
        return Grid(self.rows, self.coords)

    def shifted(self, dx, dy):
        return {k: (x + dx, y + dy) for k, (x, y) in self.coords.items()}

    # ---- operations
    def pad_trim_lr(self, left, right):
        out = []
        for row in self.rows:
            row = list(row)
            if left < 0:
                row = row[-left:]
            if right < 0:
                row = row[: len(row) + right]
            row = fix(row)
            if left > 0:
                row = [BLANK] * left + row
            if right > 0:
                row = row + [BLANK] * right
            out.append(row)
        return Grid(out, self.shifted(left, 0))

    def pad_trim_tb(self, top, bottom):
        c = self.ncols()
        g = list(self.rows)
        if top < 0:
            g = g[-top:]
        if bottom < 0:
            g = g[: len(g) + bottom]
        if top > 0:
            g = [[BLANK] * c for _ in range(top)] + g
        if bottom > 0:
            g = g + [[BLANK] * c for _ in range(bottom)]
        return Grid(g, self.shifted(0, top))

    def trim(self, top, count=None):
        g = self.rows[top:] if count is None else self.rows[top : top + count]
        return Grid(g, self.shifted(0, -top))

    def trim_end(self, n):
        return Grid(self.rows[: len(self.rows) - n], self.coords)

    def attr_map(self, m):
        return Grid([[(ch, m.get(a, a), cs) for ch, a, cs in row] for row in self.rows], self.coords)

    def window(self, left, top, cols, rows):
        out = []
        for row in self.rows[top : top + rows]:
            out.append(fix(row[left : left + cols]))
        return Grid(out, self.shifted(-left, -top))


def combine(grids):
    rows = []
    coords = {}
    y = 0
    for g in grids:
        rows += g.rows
        coords.update(g.shifted(0, y))
        y += g.nrows()
    return Grid(rows, coords)


def join(items):
    """items: list of (grid, cols)"""
    maxr = max(g.nrows() for g, _c in items)
    parts = []
    coords = {}
    x = 0
    for g, c in items:
        if c > g.ncols():
            g = g.pad_trim_lr(0, c - g.ncols())
        if g.nrows() < maxr:
            g = g.pad_trim_tb(0, maxr - g.nrows())
        parts.append(g)
        coords.update(g.shifted(x, 0))
        x += g.ncols()
    rows = [sum((p.rows[i] for p in parts), []) for i in range(maxr)]
    return Grid(rows, coords)


def overlay(bottom: Grid, top: Grid, left, topr):
    out = [list(r) for r in bottom.rows]
    for y, row in enumerate(top.rows):
        out[topr + y][left : left + len(row)] = row
        out[topr + y] = fix(out[topr + y])
    coords = dict(bottom.coords)
    coords.update(top.shifted(left, topr))
    return Grid(out, coords)


def grid_of_content(content, codec="utf-8"):
    """Read canvas.content() rows into cells."""
    g = []
    for row in content:
        cells = []
        for a, cs, t in row:
            for ch in t.decode(codec):
                w = cwidth(ch)
                if w == 0:
                    if cells and cells[-1][0] is not None:
                        cells[-1] = (cells[-1][0] + ch, cells[-1][1], cells[-1][2])
                    elif cells:
                        # zero-width after a continuation cell: attach to the lead cell
                        k = len(cells) - 2
                        if k >= 0:
                            cells[k] = (cells[k][0] + ch, cells[k][1], cells[k][2])
                    continue
                cells.append((ch, a, cs))
                if w == 2:
                    cells.append((None, a, cs))
        g.append(cells)
    return g
