"""Reference decoder for terminal input (independent of urwid.display.escape).

ref_decode(codes, mode) decodes a *complete* byte list (nothing more will arrive) into the event
list the documentation promises: known escape sequences by their documented names (golden table
frozen in keytable.json), X10/SGR mouse reports and cursor-position reports per xterm ctlseqs,
UTF-8 / double-byte characters reassembled, everything else passed through byte by byte
(ESC + key = 'meta key').
"""
from __future__ import annotations

import json
import os

with open(os.path.join(os.path.dirname(__file__), "keytable.json")) as _f:
    KEYTABLE: dict[str, str] = json.load(_f)
_MAXLEN = max(len(k) for k in KEYTABLE)

KEYCONV = {8: "backspace", 9: "tab", 10: "enter", 13: "enter", 127: "backspace"}


UNSPECIFIED = ("unspecified",)


def x10_mouse(b: int, xb: int, yb: int):
    b -= 32
    x, y = (xb - 33) % 256, (yb - 33) % 256
    prefix = ("shift " if b & 4 else "") + ("meta " if b & 8 else "") + ("ctrl " if b & 16 else "")
    button = (3 if b & 64 else 0) + (b & 3) + 1
    if b & 3 == 3:
        action, button = "release", 0
    elif b & 32:
        action = "drag"
    else:
        action = "press"
    return (f"{prefix}mouse {action}", button, x, y)


def sgr_mouse(b: int, x: int, y: int, final: str):
    prefix = ("shift " if b & 4 else "") + ("meta " if b & 8 else "") + ("ctrl " if b & 16 else "")
    button = (3 if b & 64 else 0) + (b & 3) + 1
    if final == "M":
        action = "drag" if b & 32 else "press"
    else:
        action = "release"
    return (f"{prefix}mouse {action}", button, x - 1, y - 1)


def _digits(bs):
    return bool(bs) and all(48 <= k <= 57 for k in bs)


def ref_escape(rest):
    """rest = bytes after ESC. -> (event, consumed) for a known sequence, else None."""
    for n in range(1, min(_MAXLEN, len(rest)) + 1):
        if any(k > 126 or k < 32 for k in rest[:n]):
            break
        s = "".join(chr(k) for k in rest[:n])
        if s in KEYTABLE:
            return KEYTABLE[s], n
    if len(rest) >= 2 and rest[0] == 91 and rest[1] == 77:  # [M + 3 bytes
        if len(rest) >= 5:
            if rest[2] < 32:
                return UNSPECIFIED, 5  # not a report a terminal can send (button byte is 32 + flags)
            return x10_mouse(rest[2], rest[3], rest[4]), 5
        return None
    if len(rest) >= 2 and rest[0] == 91 and rest[1] == 60:  # [< b;x;y M|m
        for i in range(2, len(rest)):
            if rest[i] in (77, 109):
                fields = bytes(rest[2:i]).split(b";")
                if len(fields) == 3 and all(_digits(f) for f in fields):
                    b, x, y = (int(f) for f in fields)
                    return sgr_mouse(b, x, y, chr(rest[i])), i + 1
                # fields a lenient integer parser might still accept (blanks, sign, '_'): left unspecified
                def lenient(f):
                    try:
                        int(bytes(f).decode("latin-1"))
                        return True
                    except ValueError:
                        return False

                if len(fields) == 3 and all(lenient(f) for f in fields):
                    return UNSPECIFIED, i + 1
                return None
        return None
    if rest and rest[0] == 91:  # cursor position report  [ y ; x R
        i = 1
        while i < len(rest) and 48 <= rest[i] <= 57:
            i += 1
        ys = rest[1:i]
        if ys and ys[0] != 48 and i < len(rest) and rest[i] == 59:
            j = i + 1
            while j < len(rest) and 48 <= rest[j] <= 57:
                j += 1
            xs = rest[i + 1 : j]
            if xs and xs[0] != 48 and j < len(rest) and rest[j] == 82:
                return ("cursor position", int(bytes(xs)) - 1, int(bytes(ys)) - 1), j + 1
    return None


def is_mouse(ev):
    return isinstance(ev, tuple) and len(ev) == 4 and "mouse" in ev[0]


def ref_one(codes, i, mode):
    c = codes[i]
    n = len(codes)
    if 32 <= c <= 126:
        return [chr(c)], i + 1
    if c in KEYCONV:
        return [KEYCONV[c]], i + 1
    if 0 < c < 27:
        return [f"ctrl {chr(ord('a') + c - 1)}"], i + 1
    if 27 < c < 32:
        return [f"ctrl {chr(ord('A') + c - 1)}"], i + 1
    if c >= 128:
        if mode == "wide":
            if i + 1 < n:
                t = codes[i + 1]
                if (0x40 <= t <= 0x7E and c >= 0x81) or 0x80 <= t <= 0xFF:
                    return [chr(c) + chr(t)], i + 2
            return [chr(c)], i + 1
        if mode == "utf8":
            need = 1 if c & 0xE0 == 0xC0 else 2 if c & 0xF0 == 0xE0 else 3 if c & 0xF8 == 0xF0 else 0
            if need and i + need < n + 0 and all(codes[i + k] & 0xC0 == 0x80 for k in range(1, need + 1)):
                try:
                    return [bytes(codes[i : i + need + 1]).decode("utf-8")], i + need + 1
                except UnicodeDecodeError:
                    pass
            return [f"<{c}>"], i + 1
        return [chr(c)], i + 1
    if c != 27:
        return [f"<{c}>"], i + 1
    r = ref_escape(codes[i + 1 :])
    if r is not None:
        return [r[0]], i + 1 + r[1]
    if i + 1 < n:
        run, nxt = ref_one(codes, i + 1, mode)
        if isinstance(run[0], tuple) or run[0] == "esc" or "meta " in run[0]:
            return ["esc", *run], nxt
        return [f"meta {run[0]}", *run[1:]], nxt
    return ["esc"], i + 1


def ref_decode(codes, mode):
    codes = list(codes)
    out = []
    i = 0
    while i < len(codes):
        ev, i = ref_one(codes, i, mode)
        out += ev
    return out
